(* C10 file to file: the animation of the input file (APNG specification, Spec/Apng) and the animation of the written chunk
   sequence: same frames, same control fields, frame data unchanged or strictly smaller. *)
From OxiVerif Require Import Base.Common Base.Crc32 Spec.Decode Spec.DecodeFile Model.Types Model.Options Model.Headers Model.PngData
  Model.Evaluate Model.Optimize
  Proofs.LiftReductions Proofs.RobustProofs Proofs.ChunkProofs Proofs.ApngProofs Proofs.OutputProofs Proofs.InputParse.
From OxiVerif Require Import Spec.Apng Proofs.ChunkFlow.
Local Open Scope Z_scope.

Definition sframe_of (f : frame) : sframe :=
  {| sf_w := f_width f; sf_h := f_height f; sf_x := f_x f; sf_y := f_y f; sf_delay_num := f_delay_num f; sf_delay_den := f_delay_den f;
     sf_dispose := f_dispose f; sf_blend := f_blend f; sf_default := false; sf_data := f_data f |}.
Definition is_fctl (c : chunk) : bool := cname_eqb (c_name c) name_fcTL.
Definition default_of (c : chunk) : sframe := sframe_of_fctl (c_data c) true.

(* the fcTL chunks kept among the ancillary chunks carry the sequence numbers s, s+1, ... and are complete *)
Fixpoint seqs_ok (l : list chunk) (s : Z) : Prop :=
  match l with
  | [] => True
  | c :: t => (26 <= length (c_data c))%nat /\ sbe32 (c_data c) = s /\ seqs_ok t (s + 1)
  end.

Lemma seqs_ok_app l1 l2 s : seqs_ok (l1 ++ l2) s <-> seqs_ok l1 s /\ seqs_ok l2 (s + lenZ l1).
Proof.
  revert s. induction l1 as [|c t IH]; intros s; cbn [app seqs_ok].
  - unfold lenZ. cbn. replace (s + 0) with s by lia. tauto.
  - rewrite IH. unfold lenZ. cbn [length]. replace (s + 1 + Z.of_nat (length t)) with (s + Z.of_nat (S (length t))) by lia. tauto.
Qed.

Record rel (ss : apng_st) (ms : fs_state) : Prop := {
  r_seq : as_seq ss = fs_seq ms;
  r_idat : as_idat ss = negb (isnil (fs_idat ms));
  r_frames : as_frames ss = map sframe_of (fs_frames ms) ++ map default_of (List.filter is_fctl (fs_aux ms));
  r_aux : seqs_ok (rev (List.filter is_fctl (fs_aux ms))) 0;
  r_early : isnil (fs_idat ms) = true -> fs_seq ms = lenZ (List.filter is_fctl (fs_aux ms)) /\ fs_frames ms = []
}.

Lemma sbe16_be16_of l : (2 <= length l)%nat -> sbe16 l = be16_of l.
Proof. destruct l as [|a [|b t]]; cbn [length]; try lia. intros _. reflexivity. Qed.

Lemma sframe_of_from_fctl d f : frame_from_fctl d = Ok f -> sframe_of f = sframe_of_fctl d false.
Proof.
  unfold frame_from_fctl. destruct (Nat.ltb_spec (length d) 26); [discriminate|]. intros [= <-].
  unfold sframe_of, sframe_of_fctl. cbn [f_width f_height f_x f_y f_delay_num f_delay_den f_dispose f_blend f_data].
  rewrite !sbe32_be32_of, !sbe16_be16_of by (rewrite skipn_length; lia). reflexivity.
Qed.

Section Lockstep.
Variable o : options.
Hypothesis Hkeep : strip_keep (strip o) name_acTL = true /\ strip_keep (strip o) name_fcTL = true /\ strip_keep (strip o) name_fdAT = true.

Lemma named_cname n c : named n c = cname_eqb (c_name (as_chunk c)) n.
Proof. reflexivity. Qed.

Lemma step_rel ss ms c ss' ms' :
  rel ss ms -> (named spec_IDAT c = true -> snd c <> []) ->
  from_slice_step o ms (as_chunk c) = Ok ms' -> apng_step ss c = Some ss' -> rel ss' ms'.
Proof.
  intros [R1 R2 R3 R4 R5] Hne Hm Hs. destruct Hkeep as (K1 & K2 & K3).
  unfold from_slice_step in Hm. unfold apng_step in Hs. cbn [c_name c_data as_chunk] in Hm.
  rewrite !named_cname in Hs. cbn [c_name as_chunk] in Hs.
  change spec_fcTL with name_fcTL in Hs. change spec_fdAT with name_fdAT in Hs. change spec_IDAT with name_IDAT in Hs, Hne.
  destruct (cname_eqb (fst c) name_IDAT) eqn:E1.
  { apply cname_eqb_eq in E1. rewrite E1 in Hs. cbn in Hs. injection Hs as <-. injection Hm as <-.
    assert (Hd : snd c <> []) by (apply Hne; unfold named; rewrite E1; reflexivity).
    assert (Hnn : isnil (fs_idat ms ++ snd c) = false) by (rewrite isnil_app; destruct (snd c); [contradiction|]; apply andb_false_r).
    constructor; cbn [as_seq as_idat as_frames fs_seq fs_idat fs_frames fs_aux]; auto.
    - rewrite Hnn. reflexivity.
    - rewrite R3. destruct (fs_idat ms); cbn [List.filter is_fctl c_name]; rewrite ?E1; reflexivity.
    - destruct (fs_idat ms); cbn [List.filter is_fctl c_name]; rewrite ?E1; exact R4.
    - rewrite Hnn. discriminate. }
  destruct (cname_eqb (fst c) name_IHDR) eqn:E2.
  { apply cname_eqb_eq in E2. rewrite E2 in Hs. cbn in Hs. injection Hs as <-. injection Hm as <-. constructor; cbn; auto. }
  destruct (cname_eqb (fst c) name_PLTE) eqn:E3.
  { apply cname_eqb_eq in E3. rewrite E3 in Hs. cbn in Hs. injection Hs as <-. injection Hm as <-. constructor; cbn; auto. }
  destruct (cname_eqb (fst c) name_tRNS) eqn:E4.
  { apply cname_eqb_eq in E4. rewrite E4 in Hs. cbn in Hs. injection Hs as <-. injection Hm as <-. constructor; cbn; auto. }
  destruct (cname_eqb (fst c) name_fcTL) eqn:Ef.
  - (* fcTL *)
    apply cname_eqb_eq in Ef. rewrite Ef in Hm. rewrite ?K1, ?K2, ?K3 in Hm. cbn [andb negb orb] in Hm.
    change (cname_eqb name_fcTL name_acTL) with false in Hm. change (cname_eqb name_fcTL name_fcTL) with true in Hm.
    change (cname_eqb name_fcTL name_fdAT) with false in Hm. cbn [andb negb orb] in Hm.
    change (is_c2pa name_fcTL (snd c)) with false in Hm. cbv iota in Hm.
    destruct (Nat.ltb_spec (length (snd c)) 26) as [|L26]; [discriminate|].
    destruct (sbe32 (snd c) =? as_seq ss) eqn:Eseq; cbn [negb] in Hs; [|discriminate]. apply Z.eqb_eq in Eseq. injection Hs as <-.
    destruct (Nat.ltb_spec (length (snd c)) 4); [lia|].
    destruct (be32_of (snd c) =? fs_seq ms) eqn:Eseq2; cbn [negb] in Hm; [|discriminate].
    destruct (fs_idat ms) as [|x xs] eqn:Ei; cbn [negb andb isnil] in *.
    + injection Hm as <-. destruct (R5 eq_refl) as [Q1 Q2].
      assert (Efl : List.filter is_fctl (as_chunk c :: fs_aux ms) = as_chunk c :: List.filter is_fctl (fs_aux ms)).
      { cbn [List.filter]. unfold is_fctl at 1. unfold as_chunk at 1. cbn [c_name]. rewrite Ef. reflexivity. }
      constructor; cbn [as_seq as_idat as_frames fs_seq fs_idat fs_frames fs_aux]; rewrite ?Efl.
      * lia.
      * exact R2.
      * rewrite R3, Q2. cbn [map app]. rewrite R2. reflexivity.
      * cbn [rev]. apply seqs_ok_app. split; [exact R4|]. cbn [seqs_ok c_data as_chunk]. unfold lenZ. rewrite rev_length. fold (lenZ (List.filter is_fctl (fs_aux ms))).
        split; [exact L26|]. split; [|exact I]. rewrite Eseq, R1, Q1. lia.
      * intros _. split; [|exact Q2]. unfold lenZ in *. cbn [length]. lia.
    + destruct (frame_from_fctl (snd c)) as [f|?|?] eqn:Efr; cbn [bind] in Hm; try discriminate. injection Hm as <-.
      constructor; cbn [as_seq as_idat as_frames fs_seq fs_idat fs_frames fs_aux].
      * lia.
      * exact R2.
      * cbn [map app]. rewrite R3, (sframe_of_from_fctl _ _ Efr), R2. reflexivity.
      * exact R4.
      * discriminate.
  - destruct (cname_eqb (fst c) name_fdAT) eqn:Ed.
    + (* fdAT *)
      apply cname_eqb_eq in Ed. rewrite Ed in Hm. rewrite ?K1, ?K2, ?K3 in Hm. cbn [andb negb orb] in Hm.
      change (cname_eqb name_fdAT name_acTL) with false in Hm. change (cname_eqb name_fdAT name_fcTL) with false in Hm.
      change (cname_eqb name_fdAT name_fdAT) with true in Hm. cbn [andb negb orb] in Hm.
      change (is_c2pa name_fdAT (snd c)) with false in Hm. cbv iota in Hm.
      destruct (Nat.ltb_spec (length (snd c)) 4) as [|L4]; [discriminate|].
      destruct (sbe32 (snd c) =? as_seq ss) eqn:Eseq; cbn [negb] in Hs; [|discriminate].
      destruct (be32_of (snd c) =? fs_seq ms) eqn:Eseq2; cbn [negb] in Hm; [|discriminate].
      destruct (as_frames ss) as [|sf st] eqn:Efs; [discriminate|].
      destruct (sf_default sf) eqn:Edf; cbn [orb] in Hs; [discriminate|].
      destruct (as_idat ss) eqn:Eid; cbn [negb] in Hs; [|discriminate]. injection Hs as <-.
      destruct (fs_frames ms) as [|mf mt] eqn:Emf; cbn [push_fdat] in Hm; [discriminate|]. injection Hm as <-.
      cbn [map app] in R3. injection R3 as R3a R3b.
      constructor; cbn [as_seq as_idat as_frames fs_seq fs_idat fs_frames fs_aux].
      * lia.
      * exact R2.
      * cbn [map app]. rewrite R3a, R3b. reflexivity.
      * exact R4.
      * intros Hnil. rewrite Hnil in R2. discriminate.
    + (* any other chunk *)
      injection Hs as <-.
      assert (Haux : forall aux', (aux' = fs_aux ms \/ aux' = as_chunk c :: fs_aux ms) -> List.filter is_fctl aux' = List.filter is_fctl (fs_aux ms)).
      { intros aux' [->| ->]; [reflexivity|]. cbn [List.filter]. unfold is_fctl at 1. unfold as_chunk at 1. cbn [c_name]. rewrite Ef. reflexivity. }
      assert (Hgen : forall aux', (aux' = fs_aux ms \/ aux' = as_chunk c :: fs_aux ms) ->
                rel ss {| fs_idat := fs_idat ms; fs_ihdr := fs_ihdr ms; fs_plte := fs_plte ms; fs_trns := fs_trns ms; fs_aux := aux';
                          fs_frames := fs_frames ms; fs_seq := fs_seq ms |}).
      { intros aux' Ha. constructor; cbn [fs_seq fs_idat fs_frames fs_aux]; rewrite ?(Haux aux' Ha); auto. }
      destruct (strip_keep (strip o) (fst c)); [|injection Hm as <-; destruct ms; apply Hgen; left; reflexivity].
      cbn [orb andb] in Hm.
      match type of Hm with (if ?b then _ else _) = _ => destruct b end; [injection Hm as <-; destruct ms; apply Hgen; left; reflexivity|].
      destruct (is_c2pa (fst c) (snd c)).
      * destruct (strip_is_none (strip o)); [|discriminate]. injection Hm as <-. destruct ms; apply Hgen; left; reflexivity.
      * injection Hm as <-. apply Hgen. right. reflexivity.
Qed.
End Lockstep.

(* ---------------------------------------------------------------- the whole input *)
Lemma apng_fold_app st a b : apng_fold st (a ++ b) = match apng_fold st a with Some st' => apng_fold st' b | None => None end.
Proof. revert st. induction a as [|c t IH]; intros st; cbn [app apng_fold]; [reflexivity|]. destruct (apng_step st c); [apply IH|reflexivity]. Qed.

Lemma filter_rev' {A} (f : A -> bool) l : List.filter f (rev l) = rev (List.filter f l).
Proof.
  induction l as [|x t IH]; [reflexivity|]. cbn [rev List.filter]. rewrite filter_app, IH. cbn [List.filter].
  destruct (f x); cbn [rev]; [reflexivity|rewrite app_nil_r; reflexivity].
Qed.

Lemma fold_rel o (Hkeep : strip_keep (strip o) name_acTL = true /\ strip_keep (strip o) name_fcTL = true /\ strip_keep (strip o) name_fdAT = true) :
  forall cs ss ms ss' ms', rel ss ms -> Forall (fun c => named spec_IDAT c = true -> snd c <> []) cs ->
  fold_steps o ms (map as_chunk cs) = Ok ms' -> apng_fold ss cs = Some ss' -> rel ss' ms'.
Proof.
  induction cs as [|c t IH]; intros ss ms ss' ms' R Hne Hm Hs; cbn [map fold_steps apng_fold] in *.
  - injection Hm as <-. injection Hs as <-. exact R.
  - apply Forall_cons_iff in Hne. destruct Hne as [Hc Ht].
    destruct (from_slice_step o ms (as_chunk c)) as [ms1|?|?] eqn:E1; cbn [bind] in Hm; try discriminate.
    destruct (apng_step ss c) as [ss1|] eqn:E2; [|discriminate].
    apply (IH ss1 ms1 ss' ms'); auto. apply (step_rel o Hkeep ss ms c ss1 ms1); auto.
Qed.

Definition keeps_animation (o : options) : Prop :=
  strip_keep (strip o) name_acTL = true /\ strip_keep (strip o) name_fcTL = true /\ strip_keep (strip o) name_fdAT = true.

(* the animation the specification reads from the input file is: the fcTL chunks kept among the ancillary chunks (default image
   as a frame), then the parsed frames *)
Theorem from_slice_animation e o bytes p cs fr : keeps_animation o -> bytes_ok bytes ->
  from_slice e bytes o = Ok p -> spec_parse_png bytes = Some cs ->
  Forall (fun c => named spec_IDAT c = true -> snd c <> []) cs ->
  spec_apng_frames cs = Some fr ->
  fr = map default_of (List.filter is_fctl (aux_chunks p)) ++ map sframe_of (frames p) /\
  seqs_ok (List.filter is_fctl (aux_chunks p)) 0.
Proof.
  intros Hkeep Hok H Hparse Hne Hfr.
  unfold spec_parse_png in Hparse. destruct (list_eqb Z.eqb (firstn 8 bytes) spec_signature) eqn:Esig; [|discriminate].
  unfold from_slice in H. destruct (Nat.ltb_spec (length bytes) 8) as [|Hl8]; [discriminate|].
  change PNG_SIG with spec_signature in H. rewrite Esig in H. cbn [negb] in H.
  destruct (loop_is_fold o (length bytes) (skipn 8 bytes) cs (bytes_ok_skipn 8 bytes Hok) Hparse) as [Hcnt Hloop].
  rewrite Hloop in H.
  2:{ rewrite skipn_length in Hcnt. assert (length cs <= length bytes / 12)%nat; [apply Nat.div_le_lower_bound; lia|lia]. }
  destruct (spec_parse_last _ _ _ Hparse) as (body & dend & Ecs & Fbody).
  rewrite Ecs, removelast_last in H.
  match type of H with bind ?X _ = _ => destruct X as [st|?|?] eqn:Efold end; cbn [bind] in H; try discriminate.
  unfold spec_apng_frames in Hfr. rewrite Ecs, apng_fold_app in Hfr.
  destruct (apng_fold _ body) as [ss|] eqn:Es; [|discriminate].
  assert (R0 : rel {| as_seq := 0; as_idat := false; as_frames := [] |}
                   {| fs_idat := []; fs_ihdr := None; fs_plte := None; fs_trns := None; fs_aux := []; fs_frames := []; fs_seq := 0 |}).
  { constructor; cbn; auto. }
  assert (Hne' : Forall (fun c => named spec_IDAT c = true -> snd c <> []) body).
  { rewrite Ecs in Hne. apply Forall_app in Hne. tauto. }
  pose proof (fold_rel o Hkeep body _ _ _ _ R0 Hne' Efold Es) as [R1 R2 R3 R4 R5].
  cbn [apng_fold apng_step] in Hfr.
  change (named spec_fcTL (spec_IEND, dend)) with false in Hfr. change (named spec_fdAT (spec_IEND, dend)) with false in Hfr.
  change (named spec_IDAT (spec_IEND, dend)) with false in Hfr. cbv iota in Hfr. injection Hfr as <-.
  destruct (fs_idat st); [discriminate|]. destruct (fs_ihdr st); [|discriminate].
  destruct (parse_ihdr_chunk _ _ _); cbn [bind] in H; try discriminate.
  destruct (png_image_new e _ _); cbn [bind] in H; try discriminate.
  injection H as <-. cbn [aux_chunks frames]. split.
  - rewrite R3, rev_app_distr, <- !map_rev, filter_rev'. reflexivity.
  - rewrite filter_rev'. exact R4.
Qed.

(* ---------------------------------------------------------------- the written chunk sequence *)
Definition anim_free (c : cname * list Z) : Prop := named spec_fcTL c = false /\ named spec_fdAT c = false /\ named spec_IDAT c = false.

Lemma fold_ignore l : forall st, Forall anim_free l -> apng_fold st l = Some st.
Proof.
  induction l as [|c t IH]; intros st H; [reflexivity|]. apply Forall_cons_iff in H. destruct H as [(H1 & H2 & H3) Ht].
  cbn [apng_fold]. unfold apng_step. rewrite H1, H2, H3. apply IH. exact Ht.
Qed.

(* the default-image fcTL chunks (and other chunks that follow PLTE), before the image data *)
Lemma fold_defaults l : forall st,
  Forall (fun c => cname_eqb (c_name c) name_fdAT = false /\ cname_eqb (c_name c) name_IDAT = false) l ->
  as_idat st = false -> seqs_ok (List.filter is_fctl l) (as_seq st) ->
  apng_fold st (map as_pair l)
  = Some {| as_seq := as_seq st + lenZ (List.filter is_fctl l); as_idat := false;
            as_frames := rev (map default_of (List.filter is_fctl l)) ++ as_frames st |}.
Proof.
  induction l as [|c t IH]; intros st H Hi Hs.
  - cbn. unfold lenZ. cbn. replace (as_seq st + 0) with (as_seq st) by lia. destruct st. cbn in *. rewrite Hi. reflexivity.
  - apply Forall_cons_iff in H. destruct H as [[Hd Hid] Ht]. cbn [map apng_fold].
    assert (N1 : named spec_fcTL (as_pair c) = is_fctl c) by reflexivity.
    assert (N2 : named spec_fdAT (as_pair c) = false) by exact Hd.
    assert (N3 : named spec_IDAT (as_pair c) = false) by exact Hid.
    unfold apng_step. rewrite N1, N2, N3. cbn [List.filter] in *.
    destruct (is_fctl c) eqn:Ef.
    + cbn [seqs_ok] in Hs. destruct Hs as (L & S & Hs'). cbn [as_pair snd].
      destruct (Nat.ltb_spec (length (c_data c)) 26); [lia|]. rewrite S, Z.eqb_refl. cbn [negb].
      rewrite IH; cbn [as_seq as_idat as_frames]; auto.
      f_equal. unfold lenZ. cbn [length map rev]. rewrite <- app_assoc. cbn [app]. rewrite Hi. cbn [negb]. unfold default_of.
      f_equal. lia.
    + apply IH; auto.
Qed.

Lemma sframe_of_fctl_data f s : frame_in_range f -> 0 <= s < 2 ^ 32 ->
  (26 <= length (fctl_data f s))%nat /\ sbe32 (fctl_data f s) = s /\
  sf_add (sframe_of_fctl (fctl_data f s) false) (f_data f) = sframe_of f.
Proof.
  intros (Hw & Hh & Hx & Hy & Hn & Hd & Hdi & Hb) Hs.
  change (2 ^ 32) with 4294967296 in *. change (2 ^ 16) with 65536 in *.
  unfold fctl_data, to_be32, to_be16. cbn [app length]. split; [lia|]. split.
  - unfold sbe32. lia.
  - unfold sf_add, sframe_of_fctl, sframe_of. cbn [skipn nth sbe32 sbe16 sf_w sf_h sf_x sf_y sf_delay_num sf_delay_den sf_dispose sf_blend sf_default sf_data app].
    f_equal; lia.
Qed.

Lemma fdat_data_props f s : 0 <= s < 2 ^ 32 ->
  (4 <= length (fdat_data f s))%nat /\ sbe32 (fdat_data f s) = s /\ skipn 4 (fdat_data f s) = f_data f.
Proof.
  intros Hs. change (2 ^ 32) with 4294967296 in Hs. unfold fdat_data, to_be32. cbn [app length skipn sbe32]. repeat split; lia.
Qed.

Lemma apng_step_fctl st d : (26 <= length d)%nat -> sbe32 d = as_seq st ->
  apng_step st (name_fcTL, d)
  = Some {| as_seq := as_seq st + 1; as_idat := as_idat st; as_frames := sframe_of_fctl d (negb (as_idat st)) :: as_frames st |}.
Proof.
  intros L S. unfold apng_step. change (named spec_fcTL (name_fcTL, d)) with true. cbv iota. cbn [snd].
  destruct (Nat.ltb_spec (length d) 26); [lia|]. rewrite S, Z.eqb_refl. reflexivity.
Qed.

Lemma apng_step_fdat st d f t : (4 <= length d)%nat -> sbe32 d = as_seq st -> as_frames st = f :: t ->
  sf_default f = false -> as_idat st = true ->
  apng_step st (name_fdAT, d)
  = Some {| as_seq := as_seq st + 1; as_idat := as_idat st; as_frames := sf_add f (skipn 4 d) :: t |}.
Proof.
  intros L S F D I. unfold apng_step. change (named spec_fcTL (name_fdAT, d)) with false. change (named spec_fdAT (name_fdAT, d)) with true.
  cbv iota. cbn [snd]. destruct (Nat.ltb_spec (length d) 4); [lia|]. rewrite S, Z.eqb_refl, F, D, I. reflexivity.
Qed.

Lemma fold_frames fs : forall st, as_idat st = true -> Forall frame_in_range fs ->
  0 <= as_seq st -> as_seq st + 2 * lenZ fs < 2 ^ 32 ->
  apng_fold st (frame_chunk_list fs (as_seq st))
  = Some {| as_seq := as_seq st + 2 * lenZ fs; as_idat := true; as_frames := rev (map sframe_of fs) ++ as_frames st |}.
Proof.
  induction fs as [|f t IH]; intros st Hi Hr H0 Hb.
  - cbn. unfold lenZ. cbn. replace (as_seq st + 0) with (as_seq st) by lia. destruct st. cbn in *. rewrite Hi. reflexivity.
  - apply Forall_cons_iff in Hr. destruct Hr as [Hf Ht]. unfold lenZ in Hb. cbn [length] in Hb.
    destruct (sframe_of_fctl_data f (as_seq st) Hf ltac:(lia)) as (L & S & A).
    destruct (fdat_data_props f (as_seq st + 1) ltac:(lia)) as (L2 & S2 & K2).
    cbn [frame_chunk_list apng_fold].
    rewrite (apng_step_fctl st _ L S).
    rewrite (apng_step_fdat {| as_seq := as_seq st + 1; as_idat := as_idat st;
                               as_frames := sframe_of_fctl (fctl_data f (as_seq st)) (negb (as_idat st)) :: as_frames st |}
                            _ (sframe_of_fctl (fctl_data f (as_seq st)) (negb (as_idat st))) (as_frames st) L2 S2 eq_refl);
      [|rewrite Hi; reflexivity|exact Hi].
    cbn [as_seq as_idat as_frames]. rewrite K2, Hi. cbn [negb]. rewrite A.
    replace (as_seq st + 2) with (as_seq st + 1 + 1) by lia.
    match goal with |- apng_fold ?st1 _ = _ => pose proof (IH st1) as IH1 end. cbn [as_seq as_idat as_frames] in IH1.
    rewrite IH1; auto; try lia.
    + f_equal. unfold lenZ. cbn [length map rev]. rewrite <- app_assoc. cbn [app]. f_equal. lia.
    + unfold lenZ. lia.
Qed.

Lemma key_chunks_anim_free hd : Forall anim_free (key_chunks hd).
Proof.
  unfold key_chunks. destruct (ctype hd) as [[k|]|[[[r g] b]|]|pal| |]; repeat constructor.
  destruct (rposition_alpha pal 0 None); repeat constructor.
Qed.

Definition no_frame_chunk (c : chunk) : Prop :=
  cname_eqb (c_name c) name_fcTL = false /\ cname_eqb (c_name c) name_fdAT = false /\ cname_eqb (c_name c) name_IDAT = false.

Lemma map_anim_free l : Forall no_frame_chunk l -> Forall anim_free (map as_pair l).
Proof. intros H. apply Forall_forall. intros x Hx. apply in_map_iff in Hx. destruct Hx as [c [<- Hc]]. rewrite Forall_forall in H. exact (H c Hc). Qed.

Lemma filter_fctl_special hd l : List.filter is_fctl (List.filter (write_special hd) l) = List.filter is_fctl l.
Proof.
  rewrite filter_filter. apply filter_ext. intros c. unfold is_fctl, write_special, after_plte.
  destruct (cname_eqb (c_name c) name_fcTL) eqn:E; [|apply andb_false_r].
  apply cname_eqb_eq in E. rewrite E. reflexivity.
Qed.

(* the animation of the written chunk sequence: the fcTL chunks kept before the image data (default image), then the frames *)
Theorem written_animation p pre m post :
  aux_chunks p = pre ++ m :: post ->
  Forall (fun c => cname_eqb (c_name c) name_fdAT = false /\ cname_eqb (c_name c) name_IDAT = false) pre ->
  cname_eqb (c_name m) name_IDAT = true -> Forall no_frame_chunk post ->
  seqs_ok (List.filter is_fctl pre) 0 -> Forall frame_in_range (frames p) ->
  lenZ (List.filter is_fctl pre) + 2 * lenZ (frames p) < 2 ^ 32 ->
  spec_apng_frames (output_chunks p) = Some (map default_of (List.filter is_fctl pre) ++ map sframe_of (frames p)).
Proof.
  intros E Hpre Hm Hpost Hseq Hfr Hb.
  rewrite (written_closed_form p pre m post E); auto.
  2:{ eapply Forall_impl; [|exact Hpre]. cbn beta. tauto. }
  2:{ eapply Forall_impl; [|exact Hpost]. unfold no_frame_chunk. cbn beta. tauto. }
  unfold spec_apng_frames. set (st0 := {| as_seq := 0; as_idat := false; as_frames := [] |}).
  set (hd := hdr (raw p)) in *. set (specials := List.filter (write_special hd) pre).
  cbn [apng_fold]. unfold apng_step at 1. change (named spec_fcTL (name_IHDR, _)) with false. change (named spec_fdAT (name_IHDR, _)) with false.
  change (named spec_IDAT (name_IHDR, _)) with false. cbv iota.
  rewrite apng_fold_app, fold_ignore.
  2:{ apply map_anim_free. apply Forall_forall. intros c Hc. apply filter_In in Hc. destruct Hc as [Hc Hn]. rewrite Forall_forall in Hpre.
      destruct (Hpre c Hc) as [A B]. split; [|split; [exact A|exact B]].
      unfold after_plte in Hn. destruct (cname_eqb (c_name c) name_fcTL); [rewrite !orb_true_r in Hn; discriminate|reflexivity]. }
  rewrite apng_fold_app, fold_ignore by apply key_chunks_anim_free.
  rewrite apng_fold_app.
  assert (Hsp : Forall (fun c => cname_eqb (c_name c) name_fdAT = false /\ cname_eqb (c_name c) name_IDAT = false) specials).
  { apply Forall_forall. intros c Hc. apply filter_In in Hc. rewrite Forall_forall in Hpre. apply Hpre. tauto. }
  rewrite (fold_defaults specials st0 Hsp eq_refl) by (unfold specials; rewrite filter_fctl_special; exact Hseq).
  cbn [as_seq as_idat as_frames apng_fold]. unfold apng_step at 1.
  change (named spec_fcTL (name_IDAT, idat_data p)) with false. change (named spec_fdAT (name_IDAT, idat_data p)) with false.
  change (named spec_IDAT (name_IDAT, idat_data p)) with true. cbv iota. cbn [as_seq as_idat as_frames].
  rewrite apng_fold_app.
  change (List.filter (fun c : chunk => cname_eqb (c_name c) name_fcTL) specials) with (List.filter is_fctl specials).
  unfold specials. rewrite !filter_fctl_special. subst st0. cbn [as_seq as_frames]. rewrite List.app_nil_r.
  match goal with |- context [apng_fold ?st1 (frame_chunk_list _ ?s)] => pose proof (fold_frames (frames p) st1) as FF end.
  cbn [as_seq as_idat as_frames] in FF. replace (0 + lenZ (List.filter is_fctl pre)) with (lenZ (List.filter is_fctl pre)) in * by lia.
  rewrite FF; auto; try (unfold lenZ; lia).
  rewrite apng_fold_app, fold_ignore by (apply map_anim_free; exact Hpost).
  cbn [apng_fold]. unfold apng_step. change (named spec_fcTL (name_IEND, [])) with false. change (named spec_fdAT (name_IEND, [])) with false.
  change (named spec_IDAT (name_IEND, [])) with false. cbv iota. cbn [as_frames].
  rewrite rev_app_distr, !rev_involutive. reflexivity.
Qed.

(* ---------------------------------------------------------------- ancillary lists related by dropping / replacing harmless chunks *)
Definition droppable (c : chunk) : Prop := is_fctl c = false /\ cname_eqb (c_name c) name_IDAT = false.
Definition benign (c : chunk) : Prop :=
  is_fctl c = false /\ cname_eqb (c_name c) name_fdAT = false /\ cname_eqb (c_name c) name_IDAT = false.

Inductive lrel : list chunk -> list chunk -> Prop :=
| lr_nil : lrel [] []
| lr_keep c l l' : lrel l l' -> lrel (c :: l) (c :: l')
| lr_drop c l l' : droppable c -> lrel l l' -> lrel (c :: l) l'
| lr_repl c y l l' : droppable c -> benign y -> lrel l l' -> lrel (c :: l) (y :: l').

Lemma lrel_refl l : lrel l l.
Proof. induction l; constructor; auto. Qed.

Lemma lrel_app a a' b b' : lrel a a' -> lrel b b' -> lrel (a ++ b) (a' ++ b').
Proof.
  induction 1 as [|c l l' _ IH|c l l' D _ IH|c y l l' D B _ IH]; intros Hb; cbn [app]; auto.
  - apply lr_keep; auto.
  - apply lr_drop; auto.
  - apply lr_repl; auto.
Qed.

Lemma lrel_filter (f : chunk -> bool) l : (forall c, f c = false -> droppable c) -> lrel l (List.filter f l).
Proof.
  intros H. induction l as [|c t IH]; cbn [List.filter]; [constructor|].
  destruct (f c) eqn:E; [apply lr_keep; exact IH|apply lr_drop; auto].
Qed.

Lemma lrel_fctl l l' : lrel l l' -> List.filter is_fctl l' = List.filter is_fctl l.
Proof.
  induction 1 as [|c l l' _ IH|c l l' [Hc _] _ IH|c y l l' [Hc _] [Hy _] _ IH]; cbn [List.filter]; rewrite ?Hc, ?Hy, ?IH; reflexivity.
Qed.

Lemma lrel_forall (Q : chunk -> Prop) l l' : lrel l l' -> (forall y, benign y -> Q y) -> Forall Q l -> Forall Q l'.
Proof.
  intros R HQ. induction R as [|c l l' _ IH|c l l' _ _ IH|c y l l' _ Hy _ IH]; intros H; auto.
  - apply Forall_cons_iff in H. destruct H. constructor; auto.
  - apply Forall_cons_iff in H. destruct H. auto.
  - apply Forall_cons_iff in H. destruct H. constructor; auto.
Qed.

Lemma lrel_shape pre m post l' : cname_eqb (c_name m) name_IDAT = true -> lrel (pre ++ m :: post) l' ->
  exists pre' post', l' = pre' ++ m :: post' /\ lrel pre pre' /\ lrel post post'.
Proof.
  intros Hm. revert l'. induction pre as [|c t IH]; intros l' R; cbn [app] in R.
  - inversion R as [|? ? l2 R2|? ? ? [_ D] R2|? ? ? ? [_ D] _ R2]; subst.
    + exists [], l2. split; [reflexivity|]. split; [constructor|exact R2].
    + rewrite Hm in D. discriminate.
    + rewrite Hm in D. discriminate.
  - inversion R as [|? ? l2 R2|? ? ? D R2|? y ? l2 D B R2]; subst.
    + destruct (IH _ R2) as (p' & q' & -> & Rp & Rq). exists (c :: p'), q'. split; [reflexivity|]. split; [apply lr_keep; exact Rp|exact Rq].
    + destruct (IH _ R2) as (p' & q' & -> & Rp & Rq). exists p', q'. split; [reflexivity|]. split; [apply lr_drop; auto|exact Rq].
    + destruct (IH _ R2) as (p' & q' & -> & Rp & Rq). exists (y :: p'), q'. split; [reflexivity|]. split; [apply lr_repl; auto|exact Rq].
Qed.

(* postprocess_chunks and the ICC decision only drop / replace harmless chunks *)
Lemma postprocess_lrel aux hd orig : lrel aux (postprocess_chunks aux hd orig).
Proof.
  rewrite postprocess_is_filter. apply lrel_filter. intros c H. unfold pp_keep in H. unfold droppable, is_fctl.
  destruct (cname_eqb (c_name c) name_bKGD) eqn:E1; [apply cname_eqb_eq in E1; rewrite E1; split; reflexivity|].
  destruct (cname_eqb (c_name c) name_sBIT) eqn:E2; [apply cname_eqb_eq in E2; rewrite E2; split; reflexivity|].
  destruct (cname_eqb (c_name c) name_hIST) eqn:E3; [apply cname_eqb_eq in E3; rewrite E3; split; reflexivity|].
  destruct (cname_eqb (c_name c) name_sRGB) eqn:E4; [apply cname_eqb_eq in E4; rewrite E4; split; reflexivity|].
  destruct (cname_eqb (c_name c) name_iCCP) eqn:E5; [apply cname_eqb_eq in E5; rewrite E5; split; reflexivity|].
  cbn [orb negb] in H. destruct (negb (depth orig =? depth hd) || negb (color_type_eqb (ctype orig) (ctype hd)));
    destruct (negb (Bool.eqb (is_gray (ctype orig)) (is_gray (ctype hd)))); discriminate.
Qed.

From OxiVerif Require Import Proofs.ScaledFile Proofs.ContainerOk.

Lemma preprocess_lrel e aux o : lrel aux (fst (preprocess_chunks e aux o)).
Proof.
  destruct (preprocess_chunks_spec e aux o) as [-> _]. unfold apply_icc_decision, icc_decide.
  destruct (chunk_position name_iCCP aux 0) as [idx|] eqn:Ep; [|apply lrel_refl].
  destruct (chunk_position_split _ _ _ _ Ep) as (pre & c & post & -> & -> & Hc). cbn [Nat.add].
  apply cname_eqb_eq in Hc.
  assert (D : droppable c) by (unfold droppable, is_fctl; rewrite Hc; split; reflexivity).
  destruct (may_replace_iccp o && has_chunk name_sRGB (pre ++ c :: post)).
  - rewrite remove_nth_app. apply lrel_app; [apply lrel_refl|]. apply lr_drop; [exact D|apply lrel_refl].
  - destruct (nth_error (pre ++ c :: post) (length pre)) as [iccp|]; [|apply lrel_refl].
    destruct (extract_icc e iccp) as [icc|]; [|apply lrel_refl].
    destruct (if may_replace_iccp o then srgb_rendering_intent icc else None) as [i|].
    + rewrite set_nth_app. apply lrel_app; [apply lrel_refl|]. apply lr_repl; [exact D| |apply lrel_refl]. repeat split; reflexivity.
    + destruct (idat_recoding o); [|apply lrel_refl].
      destruct (make_iccp e icc (deflate o) (Some (lenZ (c_data iccp) - 1))) as [n|?|?] eqn:Em; try apply lrel_refl.
      rewrite set_nth_app. apply lrel_app; [apply lrel_refl|]. apply lr_repl; [exact D| |apply lrel_refl].
      unfold make_iccp in Em. destruct (deflate_capped e (deflate o) icc _); cbn [bind] in Em; try discriminate. injection Em as <-.
      repeat split; reflexivity.
Qed.

(* ---------------------------------------------------------------- the parsed frames have fields in range *)
Lemma be32_of_range l : bytes_ok l -> 0 <= be32_of l < 2 ^ 32.
Proof.
  intros H. change (2 ^ 32) with 4294967296. unfold be32_of. destruct l as [|a [|b [|c [|d t]]]]; try lia.
  apply bytes_ok_cons in H. destruct H as [Ha H]. apply bytes_ok_cons in H. destruct H as [Hb H].
  apply bytes_ok_cons in H. destruct H as [Hc H]. apply bytes_ok_cons in H. destruct H as [Hd _].
  unfold be32, byte_ok in *. lia.
Qed.

Lemma be16_of_range l : bytes_ok l -> 0 <= be16_of l < 2 ^ 16.
Proof.
  intros H. change (2 ^ 16) with 65536. unfold be16_of. destruct l as [|a [|b t]]; try lia.
  apply bytes_ok_cons in H. destruct H as [Ha H]. apply bytes_ok_cons in H. destruct H as [Hb _].
  unfold be16, byte_ok in *. lia.
Qed.

Lemma frame_from_fctl_range d f : bytes_ok d -> frame_from_fctl d = Ok f -> frame_in_range f.
Proof.
  intros Hok H. unfold frame_from_fctl in H. destruct (Nat.ltb_spec (length d) 26) as [|L]; [discriminate|].
  match type of H with Ok ?x = _ => assert (E : f = x) by congruence end. rewrite E. clear H E.
  unfold frame_in_range. cbn [f_width f_height f_x f_y f_delay_num f_delay_den f_dispose f_blend].
  assert (Hn : forall k, (k < length d)%nat -> 0 <= nth k d 0 < 256).
  { intros k Hk. unfold bytes_ok in Hok. rewrite Forall_forall in Hok. apply Hok. apply nth_In. exact Hk. }
  refine (conj _ (conj _ (conj _ (conj _ (conj _ (conj _ (conj _ _))))))).
  1-4: apply be32_of_range; apply bytes_ok_skipn; exact Hok.
  1-2: apply be16_of_range; apply bytes_ok_skipn; exact Hok.
  all: apply Hn; lia.
Qed.

Lemma step_frames_range o st c st1 : bytes_ok (c_data c) -> from_slice_step o st c = Ok st1 ->
  Forall frame_in_range (fs_frames st) -> Forall frame_in_range (fs_frames st1).
Proof.
  intros Hok H HF. unfold from_slice_step in H.
  repeat match type of H with
  | (if ?b then _ else _) = _ => destruct b
  | bind ?x _ = _ => destruct x as [f|?|?] eqn:Efr; cbn [bind] in H
  end; try discriminate; try (injection H as <-; cbn [fs_frames]; exact HF).
  - injection H as <-. cbn [fs_frames]. constructor; [|exact HF]. eapply frame_from_fctl_range; eauto.
  - destruct (push_fdat (fs_frames st) _) as [fr|] eqn:Ep; [|discriminate]. injection H as <-. cbn [fs_frames].
    unfold push_fdat in Ep. destruct (fs_frames st) as [|f t]; [discriminate|]. injection Ep as <-.
    apply Forall_cons_iff in HF. destruct HF as [Hf Ht]. constructor; [|exact Ht]. exact Hf.
Qed.

Lemma fold_frames_range o : forall cs st st', Forall (fun c => bytes_ok (c_data c)) cs -> fold_steps o st cs = Ok st' ->
  Forall frame_in_range (fs_frames st) -> Forall frame_in_range (fs_frames st').
Proof.
  induction cs as [|c t IH]; intros st st' Hok H HF; cbn [fold_steps] in H; [injection H as <-; exact HF|].
  apply Forall_cons_iff in Hok. destruct Hok as [Hc Ht].
  destruct (from_slice_step o st c) as [st1|?|?] eqn:E; cbn [bind] in H; try discriminate.
  eapply IH; eauto. eapply step_frames_range; eauto.
Qed.

Lemma spec_parse_chunks_bytes_ok : forall fuel bytes cs, bytes_ok bytes -> spec_parse_chunks fuel bytes = Some cs ->
  Forall (fun c => bytes_ok (snd c)) cs.
Proof.
  induction fuel as [|f IH]; intros bytes cs Hok H; [discriminate|]. cbn [spec_parse_chunks] in H.
  destruct (length bytes <? 12)%nat; [discriminate|].
  destruct ((sbe32 bytes <? 0) || (lenZ bytes <? 12 + sbe32 bytes)); [discriminate|].
  match type of H with (if negb ?b then _ else _) = _ => destruct b end; cbn [negb] in H; [|discriminate].
  assert (Hd : bytes_ok (firstn (Z.to_nat (sbe32 bytes)) (skipn 8 bytes))) by (apply bytes_ok_firstn, bytes_ok_skipn; exact Hok).
  destruct (list_eqb Z.eqb (firstn 4 (skipn 4 bytes)) spec_IEND).
  - destruct (skipn 4 _); [|discriminate]. injection H as <-. constructor; [exact Hd|constructor].
  - destruct (spec_parse_chunks f _) as [t|] eqn:Et; [|discriminate]. injection H as <-. constructor; [exact Hd|].
    eapply IH; [|exact Et]. repeat apply bytes_ok_skipn. exact Hok.
Qed.

Lemma lrel_trans a b : lrel a b -> forall c, lrel b c -> lrel a c.
Proof.
  induction 1 as [|x l l' _ IH|x l l' D _ IH|x y l l' D B _ IH]; intros c H2.
  - exact H2.
  - inversion H2 as [|? ? l2 R2|? ? ? D2 R2|? z ? l2 D2 B2 R2]; subst.
    + apply lr_keep; auto.
    + apply lr_drop; auto.
    + apply lr_repl; auto.
  - apply lr_drop; auto.
  - assert (Dy : droppable y) by (destruct B as (B1 & _ & B3); split; assumption).
    inversion H2 as [|? ? l2 R2|? ? ? D2 R2|? z ? l2 D2 B2 R2]; subst.
    + apply lr_repl; auto.
    + apply lr_drop; auto.
    + apply lr_repl; auto.
Qed.

Lemma apng_fold_len cs : forall st st', apng_fold st cs = Some st' -> (length (as_frames st') <= length (as_frames st) + length cs)%nat.
Proof.
  induction cs as [|c t IH]; intros st st' H; cbn [apng_fold] in H; [injection H as <-; cbn; lia|].
  destruct (apng_step st c) as [st1|] eqn:E; [|discriminate]. apply IH in H. cbn [length].
  assert (length (as_frames st1) <= S (length (as_frames st)))%nat; [|lia].
  unfold apng_step in E.
  repeat match type of E with
  | (if ?b then _ else _) = _ => destruct b
  | (match ?x with _ => _ end) = _ => destruct x eqn:?
  end; try discriminate; injection E as <-; cbn [as_frames length]; try lia;
  try (match goal with H : as_frames st = _ |- _ => rewrite H end; cbn [length]; lia).
Qed.

Lemma split_first_idat (l : list chunk) :
  Forall (fun c => cname_eqb (c_name c) name_IDAT = false) l \/
  exists before idat after, l = before ++ idat :: after /\ Forall (fun c => cname_eqb (c_name c) name_IDAT = false) before /\
                            cname_eqb (c_name idat) name_IDAT = true.
Proof.
  induction l as [|c t IH]; [left; constructor|].
  destruct (cname_eqb (c_name c) name_IDAT) eqn:E.
  - right. exists [], c, t. split; [reflexivity|]. split; [constructor|exact E].
  - destruct IH as [H|(b & i & a & -> & Hb & Hi)]; [left; constructor; auto|].
    right. exists (c :: b), i, a. split; [reflexivity|]. split; [constructor; auto|exact Hi].
Qed.

Definition frame_rel (a b : sframe) : Prop :=
  sf_w a = sf_w b /\ sf_h a = sf_h b /\ sf_x a = sf_x b /\ sf_y a = sf_y b /\ sf_delay_num a = sf_delay_num b /\
  sf_delay_den a = sf_delay_den b /\ sf_dispose a = sf_dispose b /\ sf_blend a = sf_blend b /\ sf_default a = sf_default b /\
  (sf_data b = sf_data a \/ lenZ (sf_data b) < lenZ (sf_data a)).

Lemma frame_rel_refl a : frame_rel a a.
Proof. unfold frame_rel. repeat split; auto. Qed.

(* what from_slice keeps of the frames: fields in range *)
Lemma from_slice_frames_range e o bytes p cs : bytes_ok bytes ->
  from_slice e bytes o = Ok p -> spec_parse_png bytes = Some cs -> Forall frame_in_range (frames p).
Proof.
  intros Hok H Hparse.
  unfold spec_parse_png in Hparse. destruct (list_eqb Z.eqb (firstn 8 bytes) spec_signature) eqn:Esig; [|discriminate].
  unfold from_slice in H. destruct (Nat.ltb_spec (length bytes) 8) as [|Hl8]; [discriminate|].
  change PNG_SIG with spec_signature in H. rewrite Esig in H. cbn [negb] in H.
  destruct (loop_is_fold o (length bytes) (skipn 8 bytes) cs (bytes_ok_skipn 8 bytes Hok) Hparse) as [Hcnt Hloop].
  rewrite Hloop in H.
  2:{ rewrite skipn_length in Hcnt. assert (length cs <= length bytes / 12)%nat; [apply Nat.div_le_lower_bound; lia|lia]. }
  match type of H with bind ?X _ = _ => destruct X as [st|?|?] eqn:Efold end; cbn [bind] in H; try discriminate.
  pose proof (spec_parse_chunks_bytes_ok _ _ _ (bytes_ok_skipn 8 bytes Hok) Hparse) as Hcs.
  assert (Hcs' : Forall (fun c => bytes_ok (c_data c)) (map as_chunk (removelast cs))).
  { apply Forall_forall. intros c Hc. apply in_map_iff in Hc. destruct Hc as [x [<- Hx]]. rewrite Forall_forall in Hcs. apply Hcs.
    clear -Hx. induction cs as [|a [|b t] IH]; cbn [removelast] in Hx; [destruct Hx|destruct Hx|]. destruct Hx as [<-|Hx]; [left; reflexivity|right; auto]. }
  pose proof (fold_frames_range o _ _ _ Hcs' Efold ltac:(constructor)) as HF.
  destruct (fs_idat st); [discriminate|]. destruct (fs_ihdr st); [|discriminate].
  destruct (parse_ihdr_chunk _ _ _); cbn [bind] in H; try discriminate.
  destruct (png_image_new e _ _); cbn [bind] in H; try discriminate.
  injection H as <-. cbn [frames]. apply Forall_rev. exact HF.
Qed.

Lemma kept_at_props o ie c : kept_at o ie c = true ->
  cname_eqb (c_name c) name_fdAT = false /\ cname_eqb (c_name c) name_IDAT = false /\ (ie = false -> is_fctl c = false).
Proof.
  unfold kept_at, kept0, key_name, is_fctl. intros H. apply andb_true_iff in H. destruct H as [H1 H2].
  apply andb_true_iff in H1. destruct H1 as [H1 _]. apply andb_true_iff in H1. destruct H1 as [H1 _]. apply andb_true_iff in H1. destruct H1 as [H1 _].
  apply negb_true_iff in H1, H2. apply orb_false_iff in H2. destruct H2 as [H2 H3].
  destruct (cname_eqb (c_name c) name_IDAT); [discriminate|]. split; [exact H2|]. split; [reflexivity|].
  intros ->. cbn [negb] in H3. rewrite andb_true_r in H3. exact H3.
Qed.

Lemma from_slice_has_idat e o bytes p cs : bytes_ok bytes -> from_slice e bytes o = Ok p -> spec_parse_png bytes = Some cs ->
  ~ Forall (fun c => cname_eqb (c_name c) name_IDAT = false) (map as_chunk (removelast cs)).
Proof.
  intros Hok Ep Hparse Hnone.
  unfold spec_parse_png in Hparse. destruct (list_eqb Z.eqb (firstn 8 bytes) spec_signature) eqn:Esig; [|discriminate].
  unfold from_slice in Ep. destruct (Nat.ltb_spec (length bytes) 8) as [|Hl8]; [discriminate|].
  change PNG_SIG with spec_signature in Ep. rewrite Esig in Ep. cbn [negb] in Ep.
  destruct (loop_is_fold o (length bytes) (skipn 8 bytes) cs (bytes_ok_skipn 8 bytes Hok) Hparse) as [Hcnt Hloop].
  rewrite Hloop in Ep.
  2:{ rewrite skipn_length in Hcnt. assert (length cs <= length bytes / 12)%nat; [apply Nat.div_le_lower_bound; lia|lia]. }
  match type of Ep with bind ?X _ = _ => destruct X as [st|?|?] eqn:Efold end; cbn [bind] in Ep; try discriminate.
  destruct (fold_fields o _ _ _ Efold) as (F1 & _). cbn [fs_idat app] in F1.
  assert (En : List.filter (is_name name_IDAT) (map as_chunk (removelast cs)) = []).
  { clear -Hnone. induction Hnone as [|c t Hc _ IH]; [reflexivity|]. cbn [List.filter]. unfold is_name at 1. rewrite Hc. exact IH. }
  rewrite En in F1. cbn in F1. rewrite F1 in Ep. discriminate.
Qed.

Lemma parse_count bytes cs : bytes_ok bytes -> spec_parse_png bytes = Some cs -> (12 * length cs <= length bytes)%nat.
Proof.
  intros Hok Hparse. unfold spec_parse_png in Hparse. destruct (list_eqb Z.eqb (firstn 8 bytes) spec_signature); [|discriminate].
  destruct (loop_is_fold default_options (length bytes) (skipn 8 bytes) cs (bytes_ok_skipn 8 bytes Hok) Hparse) as [Hcnt _].
  rewrite skipn_length in Hcnt. lia.
Qed.

Lemma Forall2_length' {A B} (R : A -> B -> Prop) l l' : Forall2 R l l' -> length l = length l'.
Proof. induction 1; cbn; congruence. Qed.

Lemma apng_frames_count cs fr : spec_apng_frames cs = Some fr -> (length fr <= length cs)%nat.
Proof.
  unfold spec_apng_frames. destruct (apng_fold _ cs) as [st|] eqn:Es; [|discriminate]. intros [= <-].
  apply apng_fold_len in Es. cbn [as_frames length] in Es. rewrite rev_length. lia.
Qed.

Lemma in_removelast {A} (x : A) l : In x (removelast l) -> In x l.
Proof. induction l as [|a [|b t] IH]; cbn [removelast]; intros H; [destruct H|destruct H|]. destruct H as [<-|H]; [left; reflexivity|right; auto]. Qed.

(* C10, file to file: the animation the APNG specification reads from the input and from the written chunk sequence *)
Theorem apng_file_to_file e o bytes out cs fr :
  keeps_animation o -> bytes_ok bytes -> lenZ bytes < 2 ^ 32 ->
  spec_parse_png bytes = Some cs ->
  Forall (fun c => named spec_IDAT c = true -> snd c <> []) cs ->
  spec_apng_frames cs = Some fr ->
  optimize_from_memory e o bytes = Ok out ->
  out = bytes \/
  exists p', out = output p' /\ output p' = PNG_SIG ++ serialize (output_chunks p') /\
    exists fr', spec_apng_frames (output_chunks p') = Some fr' /\ Forall2 frame_rel fr fr'.
Proof.
  intros Hkeep Hok Hlen Hparse Hne Hfr H.
  destruct (chunk_flow e o bytes out cs Hok Hparse H) as [->|(p & p' & Ep & Eo & -> & Eser & Hflow)]; [left; reflexivity|right].
  cbn zeta in Hflow. destruct Hflow as (Eaux & Eaux' & Hframes).
  exists p'. split; [reflexivity|]. split; [exact Eser|].
  destruct (from_slice_animation e o bytes p cs fr Hkeep Hok Ep Hparse Hne Hfr) as [Efr Hseq].
  pose proof (from_slice_frames_range e o bytes p cs Hok Ep Hparse) as Hrange.
  (* the shape of the parsed ancillary list *)
  set (l := map as_chunk (removelast cs)) in *.
  assert (Hl_ne : forall c, In c l -> cname_eqb (c_name c) name_IDAT = true -> c_data c <> []).
  { intros c Hc Hn. unfold l in Hc. apply in_map_iff in Hc. destruct Hc as [x [<- Hx]]. rewrite Forall_forall in Hne. apply (Hne x).
    - apply in_removelast. exact Hx.
    - exact Hn. }
  destruct (split_first_idat l) as [Hnone|(before & idat & after & El & Hb & Hi)].
  { exfalso. exact (from_slice_has_idat e o bytes p cs Hok Ep Hparse Hnone). }
  assert (Hid : c_data idat <> []) by (apply Hl_ne; [rewrite El; apply in_or_app; right; left; reflexivity|exact Hi]).
  pose proof Eaux as Eaux0.
  rewrite El, (collect_aux_closed_form o before idat after Hb Hi Hid) in Eaux.
  set (pre := List.filter (kept_at o true) before) in *. set (post := List.filter (kept_at o false) after) in *.
  set (m := {| c_name := c_name idat; c_data := [] |}) in *.
  assert (Hm : cname_eqb (c_name m) name_IDAT = true) by exact Hi.
  assert (Hpre : Forall (fun c => cname_eqb (c_name c) name_fdAT = false /\ cname_eqb (c_name c) name_IDAT = false) pre).
  { apply Forall_forall. intros c Hc. apply filter_In in Hc. destruct (kept_at_props o true c (proj2 Hc)) as (A & B & _). auto. }
  assert (Hpost : Forall no_frame_chunk post).
  { apply Forall_forall. intros c Hc. apply filter_In in Hc. destruct (kept_at_props o false c (proj2 Hc)) as (A & B & C).
    split; [apply C; reflexivity|split; assumption]. }
  assert (Efc : List.filter is_fctl (aux_chunks p) = List.filter is_fctl pre).
  { rewrite Eaux, filter_app. cbn [List.filter]. unfold is_fctl at 2. apply cname_eqb_eq in Hm. rewrite Hm. change (cname_eqb name_IDAT name_fcTL) with false. cbv iota.
    assert (En : List.filter is_fctl post = []).
    { clear -Hpost. induction Hpost as [|c t [Hc _] _ IH]; [reflexivity|]. cbn [List.filter]. unfold is_fctl at 1. rewrite Hc. exact IH. }
    rewrite En, app_nil_r. reflexivity. }
  rewrite Efc in Efr, Hseq.
  (* the ancillary list of the result *)
  assert (Hrel : lrel (aux_chunks p) (aux_chunks p')).
  { rewrite <- Eaux0 in Eaux'. destruct Eaux' as [->| ->].
    - apply preprocess_lrel.
    - eapply lrel_trans; [|apply postprocess_lrel]. apply preprocess_lrel. }
  rewrite Eaux in Hrel. destruct (lrel_shape pre m post _ Hm Hrel) as (pre' & post' & Eaux2 & Rpre & Rpost).
  assert (Hpre' : Forall (fun c => cname_eqb (c_name c) name_fdAT = false /\ cname_eqb (c_name c) name_IDAT = false) pre').
  { apply (lrel_forall _ pre pre' Rpre); [|exact Hpre]. intros y (_ & B2 & B3). auto. }
  assert (Hpost' : Forall no_frame_chunk post').
  { apply (lrel_forall _ post post' Rpost); [|exact Hpost]. intros y B. exact B. }
  pose proof (lrel_fctl pre pre' Rpre) as Efc'.
  (* frames of the result *)
  assert (Hrange' : Forall frame_in_range (frames p')).
  { clear -Hframes Hrange. induction Hframes as [|a b ta tb [Hs _] _ IH]; [constructor|]. apply Forall_cons_iff in Hrange. destruct Hrange as [Ha Ht].
    constructor; [|apply IH; exact Ht]. unfold same_frame_fields in Hs. unfold frame_in_range in *.
    destruct Hs as (S1 & S2 & S3 & S4 & S5 & S6 & S7 & S8). rewrite <- S1, <- S2, <- S3, <- S4, <- S5, <- S6, <- S7, <- S8. exact Ha. }
  assert (Hcount : lenZ (List.filter is_fctl pre') + 2 * lenZ (frames p') < 2 ^ 32).
  { rewrite Efc'. assert (Hlf : length (frames p') = length (frames p)) by (symmetry; eapply Forall2_length'; eauto).
    pose proof (apng_frames_count cs fr Hfr) as Es. rewrite Efr, app_length, !map_length in Es.
    pose proof (parse_count bytes cs Hok Hparse) as Hcnt. clear -Es Hcnt Hlf Hlen. unfold lenZ in *. rewrite Hlf. change (2 ^ 32) with 4294967296 in *. lia. }
  rewrite <- Efc' in Hseq.
  exists (map default_of (List.filter is_fctl pre') ++ map sframe_of (frames p')). split.
  - apply (written_animation p' pre' m post' Eaux2 Hpre' Hm Hpost' Hseq Hrange' Hcount).
  - rewrite Efr, Efc'. apply Forall2_app.
    + clear. induction (List.filter is_fctl pre); constructor; auto. apply frame_rel_refl.
    + clear -Hframes. induction Hframes as [|a b ta tb [Hs Hd] _ IH]; [constructor|]. cbn [map]. constructor; [|exact IH].
      unfold same_frame_fields in Hs. destruct Hs as (S1 & S2 & S3 & S4 & S5 & S6 & S7 & S8).
      unfold frame_rel, sframe_of. cbn. repeat split; auto.
Qed.

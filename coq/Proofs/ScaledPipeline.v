(* C15 through the pipeline: with scale_16 on (bit-depth reduction enabled and the clock not expired at that step), the
   baseline and every candidate handed to the evaluator mean the input picture with every pixel rounded. *)
From OxiVerif Require Import Base.Common Spec.Adam7 Spec.Sem Model.Types Model.Options Model.ScanLines Model.Interlace
  Model.BitDepth Model.Color Model.Palette Model.Reductions
  Proofs.Bridge Proofs.PixelProofs Proofs.ImageLift Proofs.LiftReductions Proofs.LiftColor Proofs.LiftPalette Proofs.LiftLines Proofs.LiftBits Proofs.EffectProofs Proofs.ReductionInv
  Proofs.PipelineLossless.
From OxiVerif Require Import Proofs.ScaledPicture.

Definition scaled_picture (img : image) (pic : picture) : picture :=
  pic_map (scaled_px (spec_color_of (ctype (hdr img)))) pic.

Lemma key16_skey c : key16_ok c -> skey_ok (spec_color_of c).
Proof. destruct c as [[k|]|[[[r g] b]|]|pal| |]; cbn; auto. Qed.

Lemma sem_scaled_is_map img : key16_ok (ctype (hdr img)) -> depth (hdr img) = 16 ->
  sem_scaled img = option_map (scaled_picture img) (sem img).
Proof.
  intros Hk Hd. unfold sem_scaled, sem, scaled_picture. rewrite Hd. apply spec_sem_scaled_is_map. apply key16_skey. exact Hk.
Qed.

Lemma wf_ctype_scaled c : key16_ok c -> wf_ctype (color_type_16_to_8 c (fun v => Some (scale_16_to_8 v))) 8.
Proof.
  intros Hk. destruct c as [[k|]|[[[r g] b]|]|pal| |]; cbn [color_type_16_to_8 wf_ctype key16_ok] in *; try exact I; try contradiction.
  - change (2 ^ 8) with 256. apply scale_16_to_8_range. exact Hk.
  - destruct Hk as (Hr & Hg & Hb). change (2 ^ 8) with 256. repeat split; apply scale_16_to_8_range; assumption.
Qed.

Theorem scaled_16_to_8_means img img' pic : means pic img ->
  scaled_bit_depth_16_to_8 img = Some img' -> means (scaled_picture img pic) img'.
Proof.
  intros [Hwf Hsem] Hred.
  assert (Hd : depth (hdr img) = 16).
  { unfold scaled_bit_depth_16_to_8 in Hred. destruct (depth (hdr img) =? 16) eqn:E; [apply Z.eqb_eq; exact E|discriminate]. }
  pose proof (wf_key16 _ _ Hwf Hsem Hd) as Hk.
  split.
  - unfold scaled_bit_depth_16_to_8 in Hred. rewrite Hd in Hred. change (16 =? 16) with true in Hred. cbn [negb] in Hred.
    injection Hred as <-. destruct Hwf as [Hok Hwfc]. split.
    + cbn [data]. pose proof (bytes_ok_pairs _ Hok) as P. unfold bytes_ok. apply Forall_forall. intros b Hb.
      apply in_map_iff in Hb. destruct Hb as [p [<- Hp]]. rewrite Forall_forall in P. destruct (P p Hp) as [H1 H2].
      apply scale_16_to_8_range. unfold byte_ok, u16 in *. lia.
    + cbn [data hdr ctype depth with_ctype with_depth]. apply wf_ctype_scaled. exact Hk.
  - eapply scaled_16_to_8_sem; eauto; [apply Hwf|]. rewrite sem_scaled_is_map by assumption. rewrite Hsem. reflexivity.
Qed.

Definition cand_scaled (spic : picture) (ev : rd_event) : Prop :=
  match ev with EvSubmit i _ => means spic i /\ depth (hdr i) <= 8 | _ => True end.

Lemma eff_8_or_less_depth i r : bytes_ok (data i) -> reduced_bit_depth_8_or_less i = Ok (Some r) -> depth (hdr r) < 8.
Proof.
  intros Hok H. unfold reduced_bit_depth_8_or_less in H. cbv zeta in H.
  destruct (negb (depth (hdr i) =? 8) || negb (channels i =? 1)); [discriminate|].
  match type of H with (match ?mb with _ => _ end) = _ => destruct mb as [bits|] eqn:Emb; [|discriminate] end.
  destruct (scan_lines i false); cbn [bind] in H; try discriminate. injection H as <-. cbn [hdr depth with_depth].
  assert (Hb : In bits depths_lt8).
  { destruct (ctype (hdr i)) as [key|key|pal| |].
    - apply (gray_min_bits_spec (data i) 1 bits ltac:(cbn; auto) Hok Emb).
    - apply (gray_min_bits_spec (data i) 1 bits ltac:(cbn; auto) Hok Emb).
    - destruct (Nat.leb (length pal) 2); [injection Emb as <-; cbn; auto|].
      destruct (Nat.leb (length pal) 4); [injection Emb as <-; cbn; auto|].
      destruct (Nat.leb (length pal) 16); [injection Emb as <-; cbn; auto|discriminate].
    - apply (gray_min_bits_spec (data i) 1 bits ltac:(cbn; auto) Hok Emb).
    - apply (gray_min_bits_spec (data i) 1 bits ltac:(cbn; auto) Hok Emb). }
  destruct Hb as [<-|[<-|[<-|[]]]]; lia.
Qed.

(* ---------------------------------------------------------------- the pipeline *)
Section Scaled.
Variable e : env.
Variable o : options.
Hypothesis Ha : optimize_alpha o = false.
Hypothesis Hs : scale_16 o = true.
Hypothesis Hbd : bit_depth_reduction o = true.
Hypothesis Hdl : dl e S16to8 = false.
Variable spic : picture.
Let P := fun i : image => means spic i /\ depth (hdr i) <= 8.

(* before the baseline is retained: the current image is scaled, nothing was submitted *)
Record winv (st : rd_state) : Prop := {
  w_png : P (r_png st);
  w_idx : r_indexed st = None;
  w_evs : Forall (ev_ok P) (r_events st)
}.

Lemma winv_guard flag s st go st' : winv st -> guard e flag s st = (go, st') -> winv st'.
Proof.
  unfold guard. intros [A B C] H. destruct flag; injection H as <- <-; constructor; cbn; auto.
  constructor; cbn; auto.
Qed.

Lemma wstep_rgb_gray st st' : winv st -> s_rgb_gray e o st = Ok st' -> winv st'.
Proof.
  unfold s_rgb_gray. intros I H. destruct (guard e (color_type_reduction o && grayscale_reduction o) SRgbGray st) as [go st1] eqn:G.
  pose proof (winv_guard _ _ _ _ _ I G) as I1. injection H as <-.
  destruct go; [|exact I1]. destruct (reduced_rgb_to_grayscale (r_png st1)) as [x|] eqn:E; [|exact I1].
  destruct I1 as [[[Hwf Hsem] HD] B C]. constructor; cbn; auto.
  destruct (reduced_rgb_to_grayscale_sem _ _ _ Hwf E Hsem). destruct (eff_rgb_gray _ _ E) as (_ & D & _). split; [split; auto|lia].
Qed.

Lemma wstep_expand st st' : winv st -> s_expand e o st = Ok st' -> winv st'.
Proof.
  unfold s_expand. intros I H. destruct (guard e (bit_depth_reduction o) SExpand st) as [go st1] eqn:G.
  pose proof (winv_guard _ _ _ _ _ I G) as I1.
  destruct go; [|injection H as <-; exact I1].
  destruct (expanded_bit_depth_to_8 (r_png st1)) as [[r|]|?|?] eqn:E; cbn [bind] in H; try discriminate; injection H as <-; [|exact I1].
  destruct I1 as [[[Hwf Hsem] HD] B C]. constructor; cbn; auto.
  destruct (expanded_bit_depth_to_8_sem _ _ _ Hwf E Hsem). destruct (eff_expand _ _ E) as (_ & D & _). split; [split; auto|lia].
Qed.

Lemma wstep_baseline st st' : winv st -> s_baseline st = Ok st' -> inv P P st'.
Proof.
  unfold s_baseline. intros [A B C] H. injection H as <-. constructor; cbn; auto. intros i Hi. congruence.
Qed.

Theorem perform_reductions_scaled img pic baseline evs :
  means pic img -> depth (hdr img) = 16 -> spic = scaled_picture img pic ->
  perform_reductions e o img = Ok (baseline, evs) ->
  (means spic baseline /\ depth (hdr baseline) <= 8) /\ Forall (cand_scaled spic) evs.
Proof.
  intros Hm Hd Hsp H. unfold perform_reductions, s_interlace in H.
  destruct (match interlace o with
            | Some il => do r <- change_interlacing img il; Ok (match r with Some x => x | None => img end)
            | None => Ok img end) as [png|?|?] eqn:E0; cbn [bind] in H; try discriminate.
  assert (Hp : means pic png /\ depth (hdr png) = 16 /\ ctype (hdr png) = ctype (hdr img)).
  { destruct (interlace o) as [il|] eqn:Ei; [|injection E0 as <-; auto].
    destruct (change_interlacing img il) as [[r|]|?|?] eqn:Ec; cbn [bind] in E0; try discriminate; injection E0 as <-; auto.
    destruct (eff_interlace _ _ _ Ec) as (_ & _ & _ & D & C). split; [eapply leaf_interlace; eauto|]. split; congruence. }
  destruct Hp as (Hmp & Hdp & Hcp).
  match type of H with (do st <- run_steps _ ?s0; _) = _ => set (st0 := s0) in *; destruct (run_steps (reduction_steps e o) st0) as [st|?|?] eqn:Er end;
    cbn [bind] in H; try discriminate.
  injection H as <- <-.
  unfold reduction_steps in Er. cbn [run_steps] in Er.
  (* s_clean_alpha: switched off *)
  assert (E1 : s_clean_alpha e o st0 = Ok st0).
  { unfold s_clean_alpha, guard. rewrite Ha. reflexivity. }
  rewrite E1 in Er. cbn [bind] in Er.
  (* s_16_to_8: scales *)
  destruct (scaled_bit_depth_16_to_8 png) as [x|] eqn:Ex.
  2:{ unfold scaled_bit_depth_16_to_8 in Ex. rewrite Hdp in Ex. discriminate. }
  assert (E2 : s_16_to_8 e o st0 = Ok (set_png (log_site st0 S16to8 false) x true)).
  { unfold s_16_to_8, guard. rewrite Hbd, Hdl. cbn [negb]. unfold reduced_bit_depth_16_to_8.
    cbn [r_png log_site st0]. rewrite Hdp, Hs. change (negb (16 =? 16)) with false. cbv iota. rewrite Ex. reflexivity. }
  rewrite E2 in Er. cbn [bind] in Er.
  assert (W : winv (set_png (log_site st0 S16to8 false) x true)).
  { constructor; cbn.
    - unfold P. split.
      + rewrite Hsp. unfold scaled_picture. rewrite <- Hcp. apply scaled_16_to_8_means; auto.
      + unfold scaled_bit_depth_16_to_8 in Ex. destruct (negb (depth (hdr png) =? 16)); [discriminate|]. injection Ex as <-. cbn. lia.
    - reflexivity.
    - constructor; [exact I|constructor]. }
  repeat match type of Er with
         | (do x <- ?f ?s; _) = Ok _ =>
             let E := fresh "F" in destruct (f s) as [?st|?|?] eqn:E; cbn [bind] in Er; [|discriminate|discriminate]
         end.
  injection Er as <-.
  apply wstep_rgb_gray in F; auto. apply wstep_expand in F0; auto. apply wstep_baseline in F1; auto.
  assert (PP : forall i : image, P i -> P i) by auto.
  apply (step_palette P P PP e o) in F2; auto.
  2:{ intros _ i r Hr [[Hwf Hsem] HD]. rewrite Ha in Hr. destruct (reduced_palette_sem _ _ _ Hwf Hr Hsem). destruct (eff_reduced_palette _ _ _ Hr) as (_ & D & _). split; [split; auto|lia]. }
  2:{ intros _ i r Hr [[Hwf Hsem] HD]. destruct (sorted_palette_sem _ _ _ Hwf Hr Hsem). destruct (eff_sorted_palette _ _ Hr) as (_ & D & _). split; [split; auto|lia]. }
  apply (step_alpha P P PP e o) in F3; auto.
  2:{ intros _ i r Hr [[Hwf Hsem] HD]. rewrite Ha in Hr. destruct (reduced_alpha_channel_sem _ _ _ Hwf Hr Hsem). destruct (eff_alpha _ _ _ Hr) as (_ & D & _). split; [split; auto|lia]. }
  apply (step_to_channels P P e o) in F4; auto.
  2:{ intros _ i r Hr [[Hwf Hsem] HD]. rewrite Ha in Hr. destruct (indexed_to_channels_sem _ _ _ _ Hwf Hr Hsem). destruct (eff_to_channels _ _ _ _ Hr) as (_ & D & _). split; [split; auto|lia]. }
  apply (step_to_indexed P P PP e o) in F5; auto.
  2:{ intros _ i red Hr [[Hwf Hsem] HD]. destruct (reduced_to_indexed_sem _ _ _ _ Hwf Hr Hsem) as [S1 W1]. destruct (eff_to_indexed _ _ _ Hr) as (_ & D & _).
      split; [split; [split; auto|lia]|].
      intros r Hr2. destruct (sorted_palette_sem _ _ _ W1 Hr2 S1). destruct (eff_sorted_palette _ _ Hr2) as (_ & D2 & _). split; [split; auto|lia]. }
  apply (step_sorts P P PP e o) in F6; auto.
  2:{ intros _ i r Hr [Hi HD]. destruct (eff_battiato _ _ Hr) as (_ & D & _). split; [eapply leaf_battiato; eauto|lia]. }
  2:{ intros _ i r Hr [Hi HD]. destruct (eff_mzeng _ _ Hr) as (_ & D & _). split; [eapply leaf_mzeng; eauto|lia]. }
  apply (step_depth P P PP e o) in F7; auto.
  2:{ intros _ i r Hr [[Hwf Hsem] HD]. destruct (reduced_bit_depth_8_or_less_sem _ _ _ Hwf Hr Hsem). pose proof (eff_8_or_less_depth _ _ (proj1 Hwf) Hr). split; [split; auto|lia]. }
  apply (step_final P P PP) in F8; [|exact F7].
  split; [apply F8|]. apply Forall_rev. eapply Forall_impl; [|apply F8]. intros ev Hev. destruct ev; exact Hev.
Qed.
End Scaled.

(* Base definitions shared by Spec/ and Model/: result type, byte predicates, list helpers.
   No proofs about the code live here; only small general lemmas. *)
From Coq Require Export List ZArith Lia Bool Arith.
Export ListNotations.
Open Scope Z_scope.
Open Scope bool_scope.
Ltac Zify.zify_post_hook ::= Z.div_mod_to_equations.

(* Mirrors the kinds of oxipng's PngError that the checks distinguish *)
Inductive err :=
| ENotPNG | ETruncated | EInvalidData | EAPNGOutOfOrder | EChunkMissing | EInvalidDepthForType
| EIncorrectDataLength | EC2PA | EDeflatedTooLong | EOther.

(* Why the Rust code would panic at this point *)
Inductive panic := PAssert | PIndex | POverflow | PUnwrap | PFuel | PUnreachable.

Inductive res (A : Type) :=
| Ok (a : A)
| Err (e : err)
| Panic (p : panic).
Arguments Ok {A} a.
Arguments Err {A} e.
Arguments Panic {A} p.

Definition bind {A B} (r : res A) (f : A -> res B) : res B :=
  match r with Ok a => f a | Err e => Err e | Panic p => Panic p end.
Notation "'do' x <- r ; k" := (bind r (fun x => k)) (at level 200, x pattern, r at level 100, k at level 200).

Definition is_ok {A} (r : res A) := match r with Ok _ => true | _ => false end.
Definition is_panic {A} (r : res A) := match r with Panic _ => true | _ => false end.

(* ------------------------------------------------------------------ bytes *)
Definition byte_ok (b : Z) : Prop := 0 <= b < 256.
Definition bytes_ok (l : list Z) : Prop := Forall byte_ok l.
Definition byte_okb (b : Z) : bool := (0 <=? b) && (b <? 256).
Definition bytes_okb (l : list Z) : bool := forallb byte_okb l.

Lemma byte_okb_spec b : byte_okb b = true <-> byte_ok b.
Proof. unfold byte_okb, byte_ok. rewrite andb_true_iff, Z.leb_le, Z.ltb_lt. tauto. Qed.

Lemma bytes_okb_spec l : bytes_okb l = true <-> bytes_ok l.
Proof.
  unfold bytes_okb, bytes_ok. rewrite forallb_forall, Forall_forall.
  split; intros H x Hx; apply byte_okb_spec; auto.
Qed.

Lemma bytes_ok_app a b : bytes_ok (a ++ b) <-> bytes_ok a /\ bytes_ok b.
Proof. unfold bytes_ok. apply Forall_app. Qed.

Lemma bytes_ok_cons x l : bytes_ok (x :: l) <-> byte_ok x /\ bytes_ok l.
Proof. unfold bytes_ok. split; intros H; [inversion H; auto | destruct H; constructor; auto]. Qed.


Lemma In_firstn {A} n (l : list A) x : In x (firstn n l) -> In x l.
Proof. revert n; induction l as [|a t IH]; intros [|n]; simpl; try tauto. intros [->|H]; eauto. Qed.
Lemma In_skipn {A} n (l : list A) x : In x (skipn n l) -> In x l.
Proof. revert n; induction l as [|a t IH]; intros [|n]; simpl; try tauto. intros H; eauto. Qed.

Lemma bytes_ok_firstn n l : bytes_ok l -> bytes_ok (firstn n l).
Proof. unfold bytes_ok. rewrite !Forall_forall. intros H x Hx. apply H. eapply In_firstn; eauto. Qed.
Lemma bytes_ok_skipn n l : bytes_ok l -> bytes_ok (skipn n l).
Proof. unfold bytes_ok. rewrite !Forall_forall. intros H x Hx. apply H. eapply In_skipn; eauto. Qed.
Lemma bytes_ok_repeat b n : byte_ok b -> bytes_ok (repeat b n).
Proof. intros H. unfold bytes_ok. apply Forall_forall. intros x Hx. apply repeat_spec in Hx. subst; auto. Qed.

(* ------------------------------------------------------------------ list helpers *)
Definition lenZ {A} (l : list A) : Z := Z.of_nat (length l).

Fixpoint map2 {A B C} (f : A -> B -> C) (l1 : list A) (l2 : list B) : list C :=
  match l1, l2 with
  | a :: t1, b :: t2 => f a b :: map2 f t1 t2
  | _, _ => []
  end.

Lemma map2_length {A B C} (f : A -> B -> C) l1 l2 : length (map2 f l1 l2) = Nat.min (length l1) (length l2).
Proof. revert l2; induction l1 as [|a t IH]; intros [|b t2]; simpl; auto. Qed.

(* split a list into consecutive pieces of the given lengths (None if too short) *)
Fixpoint split_lens {A} (lens : list nat) (l : list A) : option (list (list A)) :=
  match lens with
  | [] => Some []
  | n :: r =>
      if (length l <? n)%nat then None
      else match split_lens r (skipn n l) with
           | Some t => Some (firstn n l :: t)
           | None => None
           end
  end.

(* chunks of exactly n (the remainder is dropped, as Rust's chunks_exact) *)
Fixpoint chunks_exact_fuel {A} (fuel : nat) (n : nat) (l : list A) : list (list A) :=
  match fuel with
  | O => []
  | S f => if (length l <? n)%nat then [] else firstn n l :: chunks_exact_fuel f n (skipn n l)
  end.
Definition chunks_exact {A} (n : nat) (l : list A) : list (list A) :=
  match n with O => [] | _ => chunks_exact_fuel (length l) n l end.

(* chunks of at most n (the last one may be shorter, as Rust's chunks) *)
Fixpoint chunks_fuel {A} (fuel : nat) (n : nat) (l : list A) : list (list A) :=
  match fuel with
  | O => []
  | S f => match l with [] => [] | _ => firstn n l :: chunks_fuel f n (skipn n l) end
  end.
Definition chunks {A} (n : nat) (l : list A) : list (list A) :=
  match n with O => [] | _ => chunks_fuel (length l) n l end.

Fixpoint set_nth {A} (n : nat) (x : A) (l : list A) : list A :=
  match l, n with
  | [], _ => []
  | _ :: t, O => x :: t
  | h :: t, S n => h :: set_nth n x t
  end.

Lemma set_nth_length {A} (l : list A) i x : length (set_nth i x l) = length l.
Proof. revert i; induction l as [|h t IH]; intros [|i]; simpl; auto. Qed.
Lemma nth_error_set_nth_eq {A} (l : list A) i x :
  (i < length l)%nat -> nth_error (set_nth i x l) i = Some x.
Proof. revert i; induction l as [|h t IH]; intros [|i] H; simpl in *; try lia; auto. apply IH; lia. Qed.
Lemma nth_error_set_nth_neq {A} (l : list A) i j x :
  i <> j -> nth_error (set_nth i x l) j = nth_error l j.
Proof. revert i j; induction l as [|h t IH]; intros [|i] [|j] H; simpl; auto; try congruence. Qed.

(* all elements present *)
Fixpoint all_some {A} (l : list (option A)) : option (list A) :=
  match l with
  | [] => Some []
  | Some a :: t => match all_some t with Some r => Some (a :: r) | None => None end
  | None :: _ => None
  end.

Fixpoint list_eqb {A} (eqb : A -> A -> bool) (l1 l2 : list A) : bool :=
  match l1, l2 with
  | [], [] => true
  | a :: t1, b :: t2 => eqb a b && list_eqb eqb t1 t2
  | _, _ => false
  end.

Lemma list_eqb_Z_spec l1 l2 : list_eqb Z.eqb l1 l2 = true <-> l1 = l2.
Proof.
  revert l2; induction l1 as [|a t IH]; intros [|b t2]; simpl; try (split; congruence).
  rewrite andb_true_iff, Z.eqb_eq, IH. split; [intros [-> ->]; auto | intros H; injection H; auto].
Qed.

Definition sumZ (l : list Z) : Z := fold_right Z.add 0 l.
Definition sum_nat (l : list nat) : nat := fold_right Nat.add O l.

Definition cdiv (a b : Z) : Z := (a + b - 1) / b.

(* big-endian integers *)
Definition be16 (hi lo : Z) : Z := hi * 256 + lo.
Definition be32 (a b c d : Z) : Z := ((a * 256 + b) * 256 + c) * 256 + d.
Definition to_be16 (v : Z) : list Z := [v / 256 mod 256; v mod 256].
Definition to_be32 (v : Z) : list Z := [v / 16777216 mod 256; v / 65536 mod 256; v / 256 mod 256; v mod 256].

(* CRC-32 (ISO 3309 / PNG annex D), bitwise, reflected polynomial 0xEDB88320. *)
From OxiVerif Require Import Base.Common.

Definition crc_poly : Z := 3988292384.  (* 0xEDB88320 *)

Fixpoint crc_bits (n : nat) (c : Z) : Z :=
  match n with
  | O => c
  | S n' => crc_bits n' (if Z.odd c then Z.lxor (c / 2) crc_poly else c / 2)
  end.

(* table entry for one byte value *)
Definition crc_entry (b : Z) : Z := crc_bits 8 b.
Definition crc_table : list Z := map (fun i => crc_entry (Z.of_nat i)) (seq 0 256).

Definition crc_update (table : list Z) (c : Z) (b : Z) : Z :=
  Z.lxor (nth (Z.to_nat (Z.land (Z.lxor c b) 255)) table 0) (c / 256).

Definition crc32_with (table : list Z) (data : list Z) : Z :=
  Z.lxor (fold_left (crc_update table) data 4294967295) 4294967295.

Definition crc32 (data : list Z) : Z := crc32_with crc_table data.

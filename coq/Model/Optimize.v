(* MODEL of src/lib.rs: optimize_raw, perform_trials, recompress_frames, optimize_png,
   optimize_from_memory, is_fully_optimized, RawImage.
   Written from the Rust source. Executable; no proofs. *)
From OxiVerif Require Import Base.Common Model.Types Model.Options Model.Headers Model.ScanLines Model.Filters
  Model.Evaluate Model.Reductions Model.PngData.

(* src/evaluate.rs: Candidate *)
Record candidate := {
  c_image : image;
  c_cdata : list Z;            (* filtered data, or IDAT data when c_compressed *)
  c_compressed : bool;
  c_est : Z;                   (* estimated_output_size *)
  c_filter : row_filter;
  c_nth : Z
}.

(* One trial of an evaluator: filter, compress without cap (the cap only decides survival) *)
Record trial_out := { to_trial : trial; to_cand : candidate }.

Definition run_trial (e : env) (ev : nat) (d : deflater) (alpha final_round : bool)
           (nth : nat) (img : image) (f : row_filter) : res trial_out :=
  let skip := dl e (STrial ev nth (filter_code f)) in
  if skip then
    Ok {| to_trial := {| tL := 0; tK := 0; tRaw := lenZ (data img); tFilter := filter_code f; tNth := Z.of_nat nth; tSkip := true |};
          to_cand := {| c_image := img; c_cdata := []; c_compressed := false; c_est := 0; c_filter := f; c_nth := Z.of_nat nth |} |}
  else
    do filtered <- filter_image (e_brute e img alpha) img f alpha;
    let idat := z_deflate e d filtered in
    let k := key_chunks_size img in
    Ok {| to_trial := {| tL := lenZ idat; tK := k; tRaw := lenZ (data img); tFilter := filter_code f;
                         tNth := Z.of_nat nth; tSkip := false |};
          to_cand := {| c_image := img; c_cdata := if final_round then idat else filtered;
                        c_compressed := final_round; c_est := lenZ idat + k; c_filter := f; c_nth := Z.of_nat nth |} |}.

Fixpoint all_res {A} (l : list (res A)) : res (list A) :=
  match l with
  | [] => Ok []
  | r :: t => do a <- r; do rest <- all_res t; Ok (a :: rest)
  end.

Fixpoint number_from {A} (n : nat) (l : list A) : list (nat * A) :=
  match l with [] => [] | a :: t => (n, a) :: number_from (S n) t end.

(* all trials of one evaluator over the submitted images (in submission order) *)
Definition evaluator_trials (e : env) (ev : nat) (filters : list row_filter) (d : deflater)
           (alpha final_round : bool) (images : list image) : res (list trial_out) :=
  all_res (flat_map (fun ni => map (fun f => run_trial e ev d alpha final_round (fst ni) (snd ni) f) filters)
                    (number_from 0 images)).

(* Evaluator::get_best_candidate: the schedule-free result (see Proofs/EvalProofs.v) *)
Definition evaluator_best (outs : list trial_out) (init : option Z) : option candidate :=
  match best_of init (map to_trial outs) with
  | None => None
  | Some m =>
      match find (fun o => (tNth (to_trial o) =? tNth m) && (tFilter (to_trial o) =? tFilter m)) outs with
      | Some o => Some (to_cand o)
      | None => None
      end
  end.

Definition filters_difference (a b : list row_filter) : list row_filter :=
  List.filter (fun f => negb (existsb (filter_eqb f) b)) a.

(* fn perform_trials *)
Definition perform_trials (e : env) (o : options) (img : image) (max_size : option Z)
           (eval_result : option candidate) (eval_filters : list row_filter) (eval_deflater : deflater)
  : res (option candidate) :=
  let filters := filter o in
  let fast_eval := fast_evaluation o && ((1 <? length filters)%nat || match eval_result with Some _ => true | None => false end) in
  if fast_eval then
    let filters := match eval_result with Some _ => filters_difference filters eval_filters | None => filters end in
    do eval_result <-
      (match filters with
       | [] => Ok eval_result
       | _ =>
           do outs <- evaluator_trials e 1 filters eval_deflater (optimize_alpha o)
                        (deflater_eqb (deflate o) eval_deflater) [img];
           let init := match eval_result with Some r => Some (c_est r) | None => None end in
           match evaluator_best outs init with
           | Some r =>
               let better := match eval_result with
                             | None => true
                             | Some prev => (c_est r <? c_est prev) ||
                                            ((c_est r =? c_est prev) && (filter_code (c_filter r) <? filter_code (c_filter prev)))
                             end in
               Ok (if better then Some r else eval_result)
           | None => Ok eval_result
           end
       end);
    match eval_result with
    | None => Ok None
    | Some r =>
        if c_compressed r then Ok (Some r)
        else
          match deflate_capped e (deflate o) (c_cdata r) max_size with
          | Ok idat => Ok (Some {| c_image := c_image r; c_cdata := idat; c_compressed := true;
                                   c_est := estimated_output_size (c_image r) idat;
                                   c_filter := c_filter r; c_nth := c_nth r |})
          | _ => Ok (Some r)
          end
    end
  else
    let filters := match filters with
                   | [] => if 8 <=? depth (hdr img) then [FBigrams] else [FNone]
                   | _ => filters
                   end in
    do outs <- evaluator_trials e 1 filters (deflate o) (optimize_alpha o) true [img];
    let result := evaluator_best outs max_size in
    (* a compressed result of the earlier evaluation is a completed trial too *)
    Ok (match result, eval_result with
        | Some new, Some prev =>
            if c_compressed prev &&
               ((c_est prev <? c_est new) ||
                ((c_est prev =? c_est new) && (filter_code (c_filter prev) <? filter_code (c_filter new))))
            then Some prev else Some new
        | None, Some prev => if c_compressed prev then Some prev else None
        | new, _ => new
        end).

Fixpoint submitted (evs : list rd_event) : list image :=
  match evs with
  | [] => []
  | EvSubmit img _ :: t => img :: submitted t
  | _ :: t => submitted t
  end.

(* fn optimize_raw(image, opts, deadline, max_size) -> Option<Candidate> *)
Definition optimize_raw (e : env) (o : options) (img : image) (max_size : option Z) : res (option candidate) :=
  let compression := match deflate o with
                     | Libdeflater c => Z.min (if fast_evaluation o then 7 else 8) c
                     | _ => 8
                     end in
  let eval_deflater := Libdeflater compression in
  let eval_filters := match filter o with [f] => [f] | _ => [FNone; FBigrams] end in
  do rd <- perform_reductions e o img;
  let '(baseline, evs) := rd in
  do outs <- evaluator_trials e 0 eval_filters eval_deflater false (deflater_eqb (deflate o) eval_deflater) (submitted evs);
  let eval_result := evaluator_best outs None in
  let new_image := match eval_result with Some r => c_image r | None => baseline end in
  let reduction_occurred :=
    negb (color_type_eqb (ctype (hdr new_image)) (ctype (hdr img)))
    || negb (depth (hdr new_image) =? depth (hdr img))
    || negb (Bool.eqb (interlaced (hdr new_image)) (interlaced (hdr img))) in
  do result <- (if idat_recoding o || reduction_occurred
                then perform_trials e o new_image max_size eval_result eval_filters eval_deflater
                else Ok eval_result);
  match result with
  | None => Ok None
  | Some r =>
      if c_compressed r && match max_size with Some m => c_est r <? m | None => true end
      then Ok (Some r) else Ok None
  end.

(* fn recompress_frames *)
Fixpoint recompress_frames_go (e : env) (o : options) (hd : ihdr) (f : row_filter) (i : nat) (fs : list frame)
  : res (list frame) :=
  match fs with
  | [] => Ok []
  | fr :: t =>
      do fr' <-
        (if dl e (SFrame i) then Ok fr else
         do img <- png_image_new e (with_dims hd (f_width fr) (f_height fr)) (f_data fr);
         do filtered <- filter_image (e_brute e img (optimize_alpha o)) img f (optimize_alpha o);
         match deflate_capped e (deflate o) filtered (Some (lenZ (f_data fr) - 1)) with
         | Ok d => Ok (with_fdata fr d)
         | _ => Ok fr
         end);
      do rest <- recompress_frames_go e o hd f (S i) t;
      Ok (fr' :: rest)
  end.
Definition recompress_frames (e : env) (o : options) (p : pngdata) (f : row_filter) : res (list frame) :=
  if negb (idat_recoding o) then Ok (frames p) else
  match frames p with
  | [] => Ok []
  | fs => recompress_frames_go e o (hdr (raw p)) f O fs
  end.

(* fn optimize_png(png, original_data, opts, deadline) -> output bytes *)
Definition optimize_png (e : env) (p : pngdata) (o : options) : res (list Z) :=
  let '(aux, o') := preprocess_chunks e (aux_chunks p) o in
  let p := {| raw := raw p; idat_data := idat_data p; aux_chunks := aux; frames := frames p |} in
  let max_size := if force o' then None else Some (estimated_output_size (raw p) (idat_data p)) in
  do r <- optimize_raw e o' (raw p) max_size;
  do p' <- (match r with
            | Some res_ =>
                let p1 := {| raw := c_image res_; idat_data := c_cdata res_; aux_chunks := aux; frames := frames p |} in
                do fr <- recompress_frames e o' p1 (c_filter res_);
                Ok {| raw := c_image res_; idat_data := c_cdata res_;
                      aux_chunks := postprocess_chunks aux (hdr (c_image res_)) (hdr (raw p)); frames := fr |}
            | None => Ok p
            end);
  Ok (output p').

(* fn is_fully_optimized *)
Definition is_fully_optimized (original_size optimized_size : Z) (o : options) : bool :=
  (original_size <=? optimized_size) && negb (force o).

(* pub fn optimize_from_memory(data, opts) *)
Definition optimize_from_memory (e : env) (o : options) (bytes : list Z) : res (list Z) :=
  do p <- from_slice e bytes o;
  do out <- optimize_png e p o;
  if is_fully_optimized (lenZ bytes) (lenZ out) o then Ok bytes else Ok out.

(* ------------------------------------------------------------------ RawImage *)
Record raw_image := { ri_png : image; ri_aux : list chunk }.

(* RawImage::new(width, height, color_type, bit_depth, data) (after the fix) *)
Definition raw_image_new (w h : Z) (c : color_type) (d : Z) (dat : list Z) : res raw_image :=
  let valid := match c with Gray _ => true | Indexed _ => d <=? 8 | _ => 8 <=? d end in
  if negb valid then Err EInvalidDepthForType else
  let bits := d * channels_per_pixel c in
  let row_bytes := cdiv (bits * w) 8 in
  let expected := sat_mul row_bytes h in
  if (w =? 0) || (h =? 0) || negb (lenZ dat =? expected) then Err EIncorrectDataLength else
  Ok {| ri_png := {| hdr := {| width := w; height := h; ctype := c; depth := d; interlaced := false |}; data := dat |};
        ri_aux := [] |}.

Definition raw_add_chunk (r : raw_image) (name : cname) (d : list Z) : raw_image :=
  {| ri_png := ri_png r; ri_aux := ri_aux r ++ [{| c_name := name; c_data := d |}] |}.

(* RawImage::add_icc_profile *)
Definition raw_add_icc (e : env) (r : raw_image) (icc : list Z) : raw_image :=
  match make_iccp e icc (Libdeflater 1) None with
  | Ok c => {| ri_png := ri_png r; ri_aux := ri_aux r ++ [c] |}
  | _ => r
  end.

(* RawImage::create_optimized_png *)
Definition raw_create (e : env) (r : raw_image) (o : options) : res (list Z) :=
  let aux0 := List.filter (fun c => strip_keep (strip o) (c_name c)) (ri_aux r) in
  let '(aux, o') := preprocess_chunks e aux0 o in
  do res_ <- optimize_raw e o' (ri_png r) None;
  match res_ with
  | None => Err EOther
  | Some c =>
      Ok (output {| raw := c_image c; idat_data := c_cdata c;
                    aux_chunks := postprocess_chunks aux (hdr (c_image c)) (hdr (ri_png r)); frames := [] |})
  end.

(* MODEL of src/filters.rs (filter_line, optimize_alpha, unfilter_line, paeth_predictor) and of
   PngImage::filter_image / unfilter_image in src/png/mod.rs.
   Written from the Rust source. Executable; no proofs. *)
From OxiVerif Require Import Base.Common Model.Types Model.ScanLines.

Definition wsub (a b : Z) : Z := (a - b) mod 256.      (* u8::wrapping_sub *)
Definition wadd (a b : Z) : Z := (a + b) mod 256.      (* u8::wrapping_add *)

(* fn paeth_predictor(a, b, c) — i32 arithmetic on bytes cannot overflow *)
Definition paeth_predictor (a b c : Z) : Z :=
  let p := a + b - c in
  let pa := Z.abs (p - a) in
  let pb := Z.abs (p - b) in
  let pc := Z.abs (p - c) in
  if (pa <=? pb) && (pa <=? pc) then a else if pb <=? pc then b else c.

(* `i.checked_sub(bpp)` then index: None for the first bpp positions *)
Definition opt_left (bpp : nat) (l : list Z) : list (option Z) := repeat None bpp ++ map Some l.

Fixpoint map4 {A B C D E} (f : A -> B -> C -> D -> E) (l1 : list A) (l2 : list B) (l3 : list C) (l4 : list D) : list E :=
  match l1, l2, l3, l4 with
  | a :: t1, b :: t2, c :: t3, d :: t4 => f a b c d :: map4 f t1 t2 t3 t4
  | _, _, _, _ => []
  end.

(* ---------------------------------------------------------------- optimize_alpha *)
Definition all_zero (l : list Z) : bool := forallb (fun b => b =? 0) l.
Definition alpha_part (color_bytes : nat) (px : list Z) : list Z := skipn color_bytes px.
Definition is_transparent (color_bytes : nat) (px : list Z) : bool := all_zero (alpha_part color_bytes px).

Fixpoint find_index {A} (f : A -> bool) (l : list A) (i : nat) : option nat :=
  match l with [] => None | a :: t => if f a then Some i else find_index f t (S i) end.

(* one pixel of optimize_alpha; out_prev = already processed pixel i-1 (None for i = 0),
   ref0 = the pixel used as "previous" for i = 0, pp = pixel above, pp_prev = pixel above-left *)
Definition alpha_pixel (f : row_filter) (color_bytes : nat)
           (out_prev : option (list Z)) (ref0 : list Z) (px pp : list Z) (pp_prev : list Z) : list Z :=
  if is_transparent color_bytes px then
    let alpha := skipn color_bytes px in
    let color :=
      match f with
      | FSub => firstn color_bytes (match out_prev with Some o => o | None => ref0 end)
      | FUp => firstn color_bytes pp
      | FAverage =>
          match out_prev with
          | None => map (fun u => u / 2) (firstn color_bytes pp)
          | Some o => map2 (fun l u => (l + u) / 2) (firstn color_bytes o) (firstn color_bytes pp)
          end
      | FPaeth =>
          match out_prev with
          | None => map2 Z.min (firstn color_bytes ref0) (firstn color_bytes pp)
          | Some o => map4 (fun l u ul (_ : Z) => paeth_predictor l u ul)
                           (firstn color_bytes o) (firstn color_bytes pp) (firstn color_bytes pp_prev)
                           (firstn color_bytes o)
          end
      | _ => firstn color_bytes px
      end in
    color ++ alpha
  else px.

Fixpoint alpha_go (f : row_filter) (color_bytes : nat) (out_prev : option (list Z)) (ref0 : list Z)
         (pixels prevs : list (list Z)) (pp_prev : list Z) : list (list Z) :=
  match pixels, prevs with
  | px :: t, pp :: tp =>
      let o := alpha_pixel f color_bytes out_prev ref0 px pp pp_prev in
      o :: alpha_go f color_bytes (Some o) ref0 t tp pp
  | _, _ => []
  end.

(* RowFilter::optimize_alpha(self, bpp, data, prev_line, color_bytes) -> new data *)
Definition optimize_alpha_line (f : row_filter) (bpp : nat) (data prev : list Z) (color_bytes : nat) : list Z :=
  match f with
  | FNone => data
  | _ =>
      let pixels := chunks_exact bpp data in
      let prevs := chunks_exact bpp prev in
      let ref0 :=
        match pixels with
        | [] => []
        | p0 :: _ =>
            match find_index (fun px => negb (is_transparent color_bytes px)) pixels O with
            | Some i => nth i pixels p0
            | None => p0
            end
        end in
      let out := alpha_go f color_bytes None ref0 pixels prevs [] in
      concat out ++ skipn (length (concat out)) data
  end.

(* ---------------------------------------------------------------- filter_line *)
Definition is_standard (f : row_filter) : bool := filter_code f <=? 4.

(* the per-byte loop of filter_line: rp / rq = reversed prefixes of data / prev_line, so that
   data[i - bpp] is `nth_error rp (bpp - 1)` (None when i < bpp, i.e. `i.checked_sub(bpp)` fails) *)
Fixpoint filter_go (f : row_filter) (bpp : nat) (rp rq : list Z) (data prev : list Z) : list Z :=
  match data, prev with
  | byte :: d, up :: p =>
      let left := nth_error rp (bpp - 1) in
      let left_up := nth_error rq (bpp - 1) in
      let y :=
        match f with
        | FNone => byte
        | FSub => match left with Some x => wsub byte x | None => byte end
        | FUp => wsub byte up
        | FAverage => match left with Some x => wsub byte ((x + up) / 2) | None => wsub byte (up / 2) end
        | _ => match left, left_up with
               | Some x, Some y => wsub byte (paeth_predictor x up y)
               | _, _ => wsub byte up
               end
        end in
      y :: filter_go f bpp (byte :: rp) (up :: rq) d p
  | _, _ => []
  end.

Definition filter_line_body (f : row_filter) (bpp : nat) (data prev : list Z) : res (list Z) :=
  if is_standard f then Ok (filter_go f bpp [] [] data prev) else Panic PUnreachable.

(* RowFilter::filter_line(self, bpp, data, prev_line, buf, alpha_bytes): returns (buf, data') *)
Definition filter_line (f : row_filter) (bpp : nat) (data prev : list Z) (alpha_bytes : nat)
  : res (list Z * list Z) :=
  if (length data <? bpp)%nat then Panic PAssert else
  if negb (length data =? length prev)%nat then Panic PAssert else
  let data' := match alpha_bytes with
               | O => data
               | _ => optimize_alpha_line f bpp data prev (bpp - alpha_bytes)
               end in
  do body <- filter_line_body f bpp data' prev;
  Ok (filter_code f :: body, data').

(* ---------------------------------------------------------------- unfilter_line *)
(* buf = reversed reconstructed prefix; rq = reversed prefix of prev_line *)
Fixpoint unfilter_go (f : row_filter) (bpp : nat) (buf rq : list Z) (data prev : list Z) : list Z :=
  match data, prev with
  | cur :: d, up :: p =>
      let left := nth_error buf (bpp - 1) in          (* buf.get(i - bpp) *)
      let left_up := nth_error rq (bpp - 1) in        (* prev_line.get(i - bpp) *)
      let x :=
        match f with
        | FNone => cur
        | FSub => match left with Some b => wadd cur b | None => cur end
        | FUp => wadd cur up
        | FAverage => match left with Some b => wadd cur ((b + up) / 2) | None => wadd cur (up / 2) end
        | _ => match left, left_up with
               | Some l, Some lu => wadd cur (paeth_predictor l up lu)
               | _, _ => wadd cur up
               end
        end in
      x :: unfilter_go f bpp (x :: buf) (up :: rq) d p
  | _, _ => []
  end.

(* RowFilter::unfilter_line(self, bpp, data, prev_line, buf) *)
Definition unfilter_line (f : row_filter) (bpp : nat) (data prev : list Z) : res (list Z) :=
  if (length data <? bpp)%nat then Panic PAssert else
  if negb (length data =? length prev)%nat then Panic PAssert else
  match bpp with O => Panic PAssert | _ =>   (* bpp = 0 cannot occur: bytes_per_channel * channels >= 1 *)
  if is_standard f then Ok (unfilter_go f bpp [] [] data prev) else Err EInvalidData
  end.

(* ---------------------------------------------------------------- heuristics' scores *)
Definition minsum_score (buf : list Z) : Z :=
  fold_left (fun acc x => acc + (if x <? 128 then x else 256 - x)) buf 0.

(* const fn ilog2i(i: u32) -> u32 *)
Definition ilog2i (i : Z) : Z :=
  let log := Z.log2 i in
  i * log + ((i - 2 ^ log) * 2).

(* multiset of values as sorted association list value -> count *)
Fixpoint count_insert (v : Z) (l : list (Z * Z)) : list (Z * Z) :=
  match l with
  | [] => [(v, 1)]
  | (k, c) :: t => if k =? v then (k, c + 1) :: t else if v <? k then (v, 1) :: l else (k, c) :: count_insert v t
  end.
Definition counts_of (l : list Z) : list (Z * Z) := fold_left (fun acc v => count_insert v acc) l [].

Definition entropy_score (buf : list Z) : Z :=
  fold_left (fun acc kc => acc + ilog2i (snd kc)) (counts_of buf) 0.

(* f_buf.windows(2) as 16-bit values *)
Fixpoint bigrams_of (l : list Z) : list Z :=
  match l with
  | a :: ((b :: _) as t) => (a * 256 + b) :: bigrams_of t
  | _ => []
  end.

Definition bigrams_score (buf : list Z) : Z := lenZ (counts_of (bigrams_of buf)).
Definition bigent_score (buf : list Z) : Z :=
  fold_left (fun acc kc => acc + ilog2i (snd kc)) (counts_of (bigrams_of buf)) 0.

(* ---------------------------------------------------------------- filter_image *)
(* The Brute strategy's per-row decision is an oracle: given the index of the row and the
   candidate filtered rows (in try order) it returns the index of the chosen candidate. *)
Definition brute_oracle := nat -> list (list Z) -> nat.

Definition standard_filters := [FNone; FSub; FUp; FAverage; FPaeth].
Definition single_line_filters := [FNone; FSub].

(* run try_filters in order on the (mutable) line_data; returns the candidates (buf, raw-at-that-time) *)
Fixpoint try_all (fs : list row_filter) (bpp : nat) (line_data prev : list Z) (alpha_bytes : nat)
  : res (list (list Z * list Z)) :=
  match fs with
  | [] => Ok []
  | f :: t =>
      do r <- filter_line f bpp line_data prev alpha_bytes;
      let '(buf, d') := r in
      do rest <- try_all t bpp d' prev alpha_bytes;
      Ok ((buf, d') :: rest)
  end.

(* first strict minimum / first strict maximum by score *)
Fixpoint pick_min (score : list Z -> Z) (cands : list (list Z * list Z)) (best : option (Z * (list Z * list Z)))
  : option (list Z * list Z) :=
  match cands with
  | [] => match best with Some (_, c) => Some c | None => None end
  | c :: t =>
      let s := score (fst c) in
      match best with
      | None => pick_min score t (Some (s, c))
      | Some (bs, _) => if s <? bs then pick_min score t (Some (s, c)) else pick_min score t best
      end
  end.
Fixpoint pick_max (score : list Z -> Z) (cands : list (list Z * list Z)) (best : option (Z * (list Z * list Z)))
  : option (list Z * list Z) :=
  match cands with
  | [] => match best with Some (_, c) => Some c | None => None end
  | c :: t =>
      let s := score (fst c) in
      match best with
      | None => pick_max score t (Some (s, c))
      | Some (bs, _) => if bs <? s then pick_max score t (Some (s, c)) else pick_max score t best
      end
  end.

Definition opt_Z_eqb (a b : option Z) : bool := opt_eqb Z.eqb a b.

(* loop state of filter_image *)
Record fi_state := { fi_out : list (list Z); (* filtered rows, reversed *)
                     fi_prev_line : list Z; fi_prev_pass : option Z; fi_row : nat }.

Definition filter_image_step (brute : brute_oracle) (f : row_filter) (bpp alpha_bytes : nat)
           (st : fi_state) (line : scanline) : res fi_state :=
  let ldata := l_data line in
  let same_pass := opt_Z_eqb (fi_prev_pass st) (l_pass line) in
  let prev_line :=
    if negb same_pass || negb (length ldata =? length (fi_prev_line st))%nat
    then repeat 0 (length ldata) else fi_prev_line st in
  if is_standard f then
    let f' := if same_pass || (filter_code f <=? 1) then f else FNone in
    do r <- filter_line f' bpp ldata prev_line alpha_bytes;
    let '(buf, d') := r in
    Ok {| fi_out := buf :: fi_out st; fi_prev_line := d'; fi_prev_pass := l_pass line; fi_row := S (fi_row st) |}
  else
    if all_zero ldata then
      (* `continue`: prev_pass is NOT updated *)
      Ok {| fi_out := (0 :: ldata) :: fi_out st; fi_prev_line := ldata;
            fi_prev_pass := fi_prev_pass st; fi_row := S (fi_row st) |}
    else
      let try_filters := if same_pass then standard_filters else single_line_filters in
      do cands <- try_all try_filters bpp ldata prev_line alpha_bytes;
      let best :=
        match f with
        | FMinSum => pick_min minsum_score cands None
        | FEntropy => pick_max entropy_score cands None
        | FBigrams => pick_min bigrams_score cands None
        | FBigEnt => pick_max bigent_score cands None
        | FBrute => nth_error cands (brute (fi_row st) (map fst cands))
        | _ => None
        end in
      match best with
      | None => Panic PUnreachable
      | Some (buf, raw) =>
          Ok {| fi_out := buf :: fi_out st; fi_prev_line := raw; fi_prev_pass := l_pass line;
                fi_row := S (fi_row st) |}
      end.

Fixpoint filter_image_go (brute : brute_oracle) (f : row_filter) (bpp alpha_bytes : nat)
         (st : fi_state) (lines : list scanline) : res fi_state :=
  match lines with
  | [] => Ok st
  | l :: t => do st' <- filter_image_step brute f bpp alpha_bytes st l;
              filter_image_go brute f bpp alpha_bytes st' t
  end.

Definition bpp_bytes (img : image) : nat := Z.to_nat (bytes_per_channel img * channels img).

(* PngImage::filter_image(&self, filter, optimize_alpha) as a list of filtered rows *)
Definition filter_image_rows (brute : brute_oracle) (img : image) (f : row_filter) (optimize_alpha : bool)
  : res (list (list Z)) :=
  let bpp := bpp_bytes img in
  let alpha_bytes := if optimize_alpha && has_alpha (ctype (hdr img))
                     then Z.to_nat (bytes_per_channel img) else O in
  do lines <- scan_lines img false;
  do st <- filter_image_go brute f bpp alpha_bytes
             {| fi_out := []; fi_prev_line := []; fi_prev_pass := None; fi_row := O |} lines;
  Ok (rev (fi_out st)).

Definition filter_image (brute : brute_oracle) (img : image) (f : row_filter) (optimize_alpha : bool)
  : res (list Z) :=
  do rows <- filter_image_rows brute img f optimize_alpha; Ok (concat rows).

(* ---------------------------------------------------------------- unfilter_image *)
Record ui_state := { ui_out : list (list Z); ui_last_line : list Z; ui_last_pass : option Z }.

Definition resize0 (l : list Z) (n : nat) : list Z := firstn n l ++ repeat 0 (n - length l).

Definition unfilter_image_step (bpp : nat) (st : ui_state) (line : scanline) : res ui_state :=
  let last :=
    if negb (opt_Z_eqb (ui_last_pass st) (l_pass line)) then [] else ui_last_line st in
  let last := resize0 last (length (l_data line)) in
  match filter_of_code (l_filter line) with
  | None => Err EInvalidData
  | Some f =>
      do u <- unfilter_line f bpp (l_data line) last;
      Ok {| ui_out := u :: ui_out st; ui_last_line := u; ui_last_pass := l_pass line |}
  end.

Fixpoint unfilter_image_go (bpp : nat) (st : ui_state) (lines : list scanline) : res ui_state :=
  match lines with
  | [] => Ok st
  | l :: t => do st' <- unfilter_image_step bpp st l; unfilter_image_go bpp st' t
  end.

(* PngImage::unfilter_image on an image whose data still contains the filter bytes *)
Definition unfilter_image (img : image) : res (list Z) :=
  do lines <- scan_lines img true;
  do st <- unfilter_image_go (bpp_bytes img) {| ui_out := []; ui_last_line := []; ui_last_pass := None |} lines;
  Ok (concat (rev (ui_out st))).

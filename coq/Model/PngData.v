(* MODEL of src/png/mod.rs (PngData::from_slice, PngData::output, PngImage::new, key_chunks_size,
   estimated_output_size, write_png_block) and src/apng.rs (Frame).
   Written from the Rust source. Executable; no proofs. *)
From OxiVerif Require Import Base.Common Base.Crc32 Model.Types Model.Options Model.Headers Model.ScanLines Model.Filters.

(* src/apng.rs: Frame *)
Record frame := {
  f_width : Z; f_height : Z; f_x : Z; f_y : Z;
  f_delay_num : Z; f_delay_den : Z; f_dispose : Z; f_blend : Z;
  f_data : list Z
}.

Definition with_fdata (f : frame) (d : list Z) : frame :=
  {| f_width := f_width f; f_height := f_height f; f_x := f_x f; f_y := f_y f;
     f_delay_num := f_delay_num f; f_delay_den := f_delay_den f; f_dispose := f_dispose f;
     f_blend := f_blend f; f_data := d |}.

(* Frame::from_fctl_data *)
Definition frame_from_fctl (b : list Z) : res frame :=
  if (length b <? 26)%nat then Err ETruncated else
  Ok {| f_width := be32_of (skipn 4 b); f_height := be32_of (skipn 8 b);
        f_x := be32_of (skipn 12 b); f_y := be32_of (skipn 16 b);
        f_delay_num := be16_of (skipn 20 b); f_delay_den := be16_of (skipn 22 b);
        f_dispose := nth 24 b 0; f_blend := nth 25 b 0; f_data := [] |}.

(* Frame::fctl_data / fdat_data *)
Definition fctl_data (f : frame) (seq : Z) : list Z :=
  to_be32 seq ++ to_be32 (f_width f) ++ to_be32 (f_height f) ++ to_be32 (f_x f) ++ to_be32 (f_y f)
  ++ to_be16 (f_delay_num f) ++ to_be16 (f_delay_den f) ++ [f_dispose f; f_blend f].
Definition fdat_data (f : frame) (seq : Z) : list Z := to_be32 seq ++ f_data f.

(* PngData *)
Record pngdata := { raw : image; idat_data : list Z; aux_chunks : list chunk; frames : list frame }.

(* PngImage::key_chunks_size *)
Fixpoint rposition_alpha (pal : list rgba8) (i : Z) (last : option Z) : option Z :=
  match pal with
  | [] => last
  | (_, _, _, a) :: t => rposition_alpha t (i + 1) (if a =? 255 then last else Some i)
  end.
Definition key_chunks_size (img : image) : Z :=
  match ctype (hdr img) with
  | Indexed pal =>
      let plte := 12 + lenZ pal * 3 in
      match rposition_alpha pal 0 None with
      | Some trns => plte + 12 + trns + 1
      | None => plte
      end
  | Gray (Some _) => 12 + 2
  | RGB (Some _) => 12 + 6
  | _ => 0
  end.
Definition estimated_output_size (img : image) (idat : list Z) : Z := lenZ idat + key_chunks_size img.

(* PngImage::new(ihdr, compressed_data) *)
Definition png_image_new (e : env) (hd : ihdr) (compressed : list Z) : res image :=
  if (width hd =? 0) || (height hd =? 0) then Err EInvalidData else
  let rs := raw_data_size hd in
  if lenZ compressed <? rs / 1032 then Err ETruncated else
  do raw_data <- z_inflate e compressed rs;
  if negb (lenZ raw_data =? rs) then Err ETruncated else
  do d <- unfilter_image {| hdr := hd; data := raw_data |};
  Ok {| hdr := hd; data := d |}.

(* loop state of from_slice *)
Record fs_state := {
  fs_idat : list Z;
  fs_ihdr : option (list Z); fs_plte : option (list Z); fs_trns : option (list Z);
  fs_aux : list chunk;        (* reversed *)
  fs_frames : list frame;     (* reversed *)
  fs_seq : Z
}.

Definition push_fdat (frames_rev : list frame) (d : list Z) : option (list frame) :=
  match frames_rev with
  | [] => None
  | f :: t => Some (with_fdata f (f_data f ++ d) :: t)
  end.

Definition from_slice_step (o : options) (st : fs_state) (c : chunk) : res fs_state :=
  let name := c_name c in
  let upd idat ih pl tr aux fr sq :=
    {| fs_idat := idat; fs_ihdr := ih; fs_plte := pl; fs_trns := tr; fs_aux := aux; fs_frames := fr; fs_seq := sq |} in
  if cname_eqb name name_IDAT then
    let aux := match fs_idat st with
               | [] => {| c_name := name; c_data := [] |} :: fs_aux st
               | _ => fs_aux st end in
    Ok (upd (fs_idat st ++ c_data c) (fs_ihdr st) (fs_plte st) (fs_trns st) aux (fs_frames st) (fs_seq st))
  else if cname_eqb name name_IHDR then
    Ok (upd (fs_idat st) (Some (c_data c)) (fs_plte st) (fs_trns st) (fs_aux st) (fs_frames st) (fs_seq st))
  else if cname_eqb name name_PLTE then
    Ok (upd (fs_idat st) (fs_ihdr st) (Some (c_data c)) (fs_trns st) (fs_aux st) (fs_frames st) (fs_seq st))
  else if cname_eqb name name_tRNS then
    Ok (upd (fs_idat st) (fs_ihdr st) (fs_plte st) (Some (c_data c)) (fs_aux st) (fs_frames st) (fs_seq st))
  else if strip_keep (strip o) name then
    (* the animation chunks are stripped together unless all three are kept *)
    if (cname_eqb name name_acTL || cname_eqb name name_fcTL || cname_eqb name name_fdAT)
       && negb (strip_keep (strip o) name_acTL && strip_keep (strip o) name_fcTL && strip_keep (strip o) name_fdAT)
    then Ok st else
    if is_c2pa name (c_data c) then
      (if strip_is_none (strip o) then Ok st else Err EC2PA)
    else if cname_eqb name name_fcTL || cname_eqb name name_fdAT then
      if (length (c_data c) <? 4)%nat then Err ETruncated else
      if negb (be32_of (c_data c) =? fs_seq st) then Err EAPNGOutOfOrder else
      let sq := fs_seq st + 1 in
      if cname_eqb name name_fcTL && negb (match fs_idat st with [] => true | _ => false end) then
        do f <- frame_from_fctl (c_data c);
        Ok (upd (fs_idat st) (fs_ihdr st) (fs_plte st) (fs_trns st) (fs_aux st) (f :: fs_frames st) sq)
      else if cname_eqb name name_fdAT then
        match push_fdat (fs_frames st) (skipn 4 (c_data c)) with
        | None => Err EAPNGOutOfOrder
        | Some fr => Ok (upd (fs_idat st) (fs_ihdr st) (fs_plte st) (fs_trns st) (fs_aux st) fr sq)
        end
      else
        Ok (upd (fs_idat st) (fs_ihdr st) (fs_plte st) (fs_trns st) (c :: fs_aux st) (fs_frames st) sq)
    else
      Ok (upd (fs_idat st) (fs_ihdr st) (fs_plte st) (fs_trns st) (c :: fs_aux st) (fs_frames st) (fs_seq st))
  else Ok st.

(* the `while let Some(chunk) = parse_next_chunk(..)?` loop; every chunk consumes >= 12 bytes *)
Fixpoint from_slice_loop (fuel : nat) (o : options) (rest : list Z) (st : fs_state) : res fs_state :=
  match fuel with
  | O => Panic PFuel
  | S f =>
      do nxt <- parse_next_chunk rest (fix_errors o);
      match nxt with
      | None => Ok st
      | Some (c, rest') => do st' <- from_slice_step o st c; from_slice_loop f o rest' st'
      end
  end.

Definition PNG_SIG : list Z := [137; 80; 78; 71; 13; 10; 26; 10].

(* PngData::from_slice(byte_data, opts) *)
Definition from_slice (e : env) (bytes : list Z) (o : options) : res pngdata :=
  if (length bytes <? 8)%nat then Err ETruncated else
  if negb (list_eqb Z.eqb (firstn 8 bytes) PNG_SIG) then Err ENotPNG else
  do st <- from_slice_loop (S (length bytes / 12)) o (skipn 8 bytes)
            {| fs_idat := []; fs_ihdr := None; fs_plte := None; fs_trns := None; fs_aux := []; fs_frames := []; fs_seq := 0 |};
  match fs_idat st with
  | [] => Err EChunkMissing
  | _ =>
      match fs_ihdr st with
      | None => Err EChunkMissing
      | Some ih =>
          do hd <- parse_ihdr_chunk ih (fs_plte st) (fs_trns st);
          do img <- png_image_new e hd (fs_idat st);
          Ok {| raw := img; idat_data := fs_idat st; aux_chunks := rev (fs_aux st); frames := rev (fs_frames st) |}
      end
  end.

(* fn write_png_block(key, chunk, output) *)
Definition write_png_block (key : cname) (data : list Z) : list Z :=
  to_be32 (lenZ data) ++ key ++ data ++ to_be32 (crc32 (key ++ data)).

(* self.aux_chunks.split(|c| c.name == "IDAT") *)
Fixpoint split_idat (l : list chunk) (cur : list chunk) : list (list chunk) :=
  match l with
  | [] => [rev cur]
  | c :: t => if cname_eqb (c_name c) name_IDAT then rev cur :: split_idat t [] else split_idat t (c :: cur)
  end.

Definition after_plte (c : chunk) : bool :=
  cname_eqb (c_name c) name_bKGD || cname_eqb (c_name c) name_hIST || cname_eqb (c_name c) name_tRNS
  || cname_eqb (c_name c) name_fcTL.

(* chunks re-emitted after PLTE; a histogram only alongside the palette it belongs to *)
Definition write_special (hd : ihdr) (c : chunk) : bool :=
  after_plte c && (negb (cname_eqb (c_name c) name_hIST) || is_indexed (ctype hd)).

Fixpoint write_frames (fs : list frame) (seq : Z) : list Z :=
  match fs with
  | [] => []
  | f :: t => write_png_block name_fcTL (fctl_data f seq) ++ write_png_block name_fdAT (fdat_data f (seq + 1))
              ++ write_frames t (seq + 2)
  end.

(* PngData::output *)
Definition output (p : pngdata) : list Z :=
  let hd := hdr (raw p) in
  let ihdr_data := to_be32 (width hd) ++ to_be32 (height hd) ++
                   [depth hd; png_header_code (ctype hd); 0; 0; if interlaced hd then 1 else 0] in
  let parts := split_idat (aux_chunks p) [] in
  let aux_pre := match parts with x :: _ => x | [] => [] end in
  let aux_post := match parts with _ :: t => t | [] => [] end in
  let pre1 := flat_map (fun c => write_png_block (c_name c) (c_data c)) (List.filter (fun c => negb (after_plte c)) aux_pre) in
  let key :=
    match ctype hd with
    | Indexed pal =>
        write_png_block name_PLTE (flat_map (fun c : rgba8 => let '(r, g, b, _) := c in [r; g; b]) pal)
        ++ match rposition_alpha pal 0 None with
           | Some last => write_png_block name_tRNS (map (fun c : rgba8 => let '(_, _, _, a) := c in a)
                                                        (firstn (Z.to_nat (last + 1)) pal))
           | None => []
           end
    | Gray (Some t) => write_png_block name_tRNS (to_be16 t)
    | RGB (Some (r, g, b)) => write_png_block name_tRNS (to_be16 r ++ to_be16 g ++ to_be16 b)
    | _ => []
    end in
  let specials := List.filter (write_special hd) aux_pre in
  let pre2 := flat_map (fun c => write_png_block (c_name c) (c_data c)) specials in
  let seq0 := lenZ (List.filter (fun c => cname_eqb (c_name c) name_fcTL) specials) in
  PNG_SIG ++ write_png_block name_IHDR ihdr_data ++ pre1 ++ key ++ pre2
  ++ write_png_block name_IDAT (idat_data p)
  ++ write_frames (frames p) seq0
  ++ flat_map (fun part => flat_map (fun c => write_png_block (c_name c) (c_data c)) part) aux_post
  ++ write_png_block name_IEND [].

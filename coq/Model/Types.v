(* MODEL: data types mirroring src/colors.rs, src/headers.rs (IhdrData), src/png/mod.rs (PngImage).
   Written from the Rust source. Executable; no proofs. *)
From OxiVerif Require Import Base.Common.

Definition rgba8 : Type := (Z * Z * Z * Z)%type.          (* rgb::RGBA8 *)
Definition rgb16 : Type := (Z * Z * Z)%type.              (* rgb::RGB16 *)

(* src/colors.rs: ColorType *)
Inductive color_type :=
| Gray (key : option Z)                 (* Grayscale { transparent_shade } *)
| RGB (key : option rgb16)              (* RGB { transparent_color } *)
| Indexed (pal : list rgba8)            (* Indexed { palette } *)
| GrayAlpha
| RGBA.

Definition png_header_code (c : color_type) : Z :=
  match c with Gray _ => 0 | RGB _ => 2 | Indexed _ => 3 | GrayAlpha => 4 | RGBA => 6 end.

Definition channels_per_pixel (c : color_type) : Z :=
  match c with Gray _ | Indexed _ => 1 | GrayAlpha => 2 | RGB _ => 3 | RGBA => 4 end.

Definition is_rgb (c : color_type) := match c with RGB _ | RGBA => true | _ => false end.
Definition is_gray (c : color_type) := match c with Gray _ | GrayAlpha => true | _ => false end.
Definition has_alpha (c : color_type) := match c with GrayAlpha | RGBA => true | _ => false end.
Definition has_trns (c : color_type) :=
  match c with Gray (Some _) => true | RGB (Some _) => true | _ => false end.
Definition is_indexed (c : color_type) := match c with Indexed _ => true | _ => false end.

(* src/headers.rs: IhdrData; depth is the numeric value of BitDepth (1,2,4,8,16) *)
Record ihdr := {
  width : Z;
  height : Z;
  ctype : color_type;
  depth : Z;
  interlaced : bool           (* Interlacing::Adam7 = true *)
}.

Definition bpp (h : ihdr) : Z := depth h * channels_per_pixel (ctype h).

(* src/png/mod.rs: PngImage (data = unfiltered packed samples) *)
Record image := { hdr : ihdr; data : list Z }.

Definition bytes_per_channel (img : image) : Z := if depth (hdr img) =? 16 then 2 else 1.
Definition channels (img : image) : Z := channels_per_pixel (ctype (hdr img)).

Definition with_ctype (h : ihdr) (c : color_type) : ihdr :=
  {| width := width h; height := height h; ctype := c; depth := depth h; interlaced := interlaced h |}.
Definition with_depth (h : ihdr) (d : Z) : ihdr :=
  {| width := width h; height := height h; ctype := ctype h; depth := d; interlaced := interlaced h |}.
Definition with_interlaced (h : ihdr) (i : bool) : ihdr :=
  {| width := width h; height := height h; ctype := ctype h; depth := depth h; interlaced := i |}.
Definition with_dims (h : ihdr) (w hh : Z) : ihdr :=
  {| width := w; height := hh; ctype := ctype h; depth := depth h; interlaced := interlaced h |}.

(* equality tests used where the Rust compares with == / != *)
Definition rgba8_eqb (a b : rgba8) : bool :=
  let '(r1,g1,b1,a1) := a in let '(r2,g2,b2,a2) := b in
  (r1 =? r2) && (g1 =? g2) && (b1 =? b2) && (a1 =? a2).
Definition rgb16_eqb (a b : rgb16) : bool :=
  let '(r1,g1,b1) := a in let '(r2,g2,b2) := b in (r1 =? r2) && (g1 =? g2) && (b1 =? b2).
Definition opt_eqb {A} (eqb : A -> A -> bool) (a b : option A) : bool :=
  match a, b with Some x, Some y => eqb x y | None, None => true | _, _ => false end.
Definition color_type_eqb (a b : color_type) : bool :=
  match a, b with
  | Gray k1, Gray k2 => opt_eqb Z.eqb k1 k2
  | RGB k1, RGB k2 => opt_eqb rgb16_eqb k1 k2
  | Indexed p1, Indexed p2 => list_eqb rgba8_eqb p1 p2
  | GrayAlpha, GrayAlpha => true
  | RGBA, RGBA => true
  | _, _ => false
  end.

(* src/filters.rs: RowFilter *)
Inductive row_filter :=
| FNone | FSub | FUp | FAverage | FPaeth | FMinSum | FEntropy | FBigrams | FBigEnt | FBrute.

Definition filter_code (f : row_filter) : Z :=
  match f with
  | FNone => 0 | FSub => 1 | FUp => 2 | FAverage => 3 | FPaeth => 4
  | FMinSum => 5 | FEntropy => 6 | FBigrams => 7 | FBigEnt => 8 | FBrute => 9
  end.

(* RowFilter::try_from(u8) *)
Definition filter_of_code (c : Z) : option row_filter :=
  match c with
  | 0 => Some FNone | 1 => Some FSub | 2 => Some FUp | 3 => Some FAverage | 4 => Some FPaeth
  | 5 => Some FMinSum | 6 => Some FEntropy | 7 => Some FBigrams | 8 => Some FBigEnt | 9 => Some FBrute
  | _ => None
  end.

Definition filter_eqb (a b : row_filter) : bool := filter_code a =? filter_code b.

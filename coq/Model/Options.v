(* MODEL of src/options.rs (Options, presets), src/deflate/mod.rs (Deflaters) and the oracles the
   model is parameterised by. Written from the Rust source. Executable; no proofs. *)
From OxiVerif Require Import Base.Common Model.Types.
From OxiVerif Require Gen.SrcConsts.

(* src/deflate/mod.rs: Deflaters *)
Inductive deflater := Libdeflater (compression : Z) | Zopfli (iterations : Z).
Definition deflater_eqb (a b : deflater) : bool :=
  match a, b with
  | Libdeflater x, Libdeflater y => x =? y
  | Zopfli x, Zopfli y => x =? y
  | _, _ => false
  end.

(* src/headers.rs: StripChunks; chunk names are lists of 4 bytes *)
Definition cname := list Z.
Definition cname_eqb : cname -> cname -> bool := list_eqb Z.eqb.
Inductive strip_chunks :=
| StripNone | StripStrip (names : list cname) | StripSafe | StripKeep (names : list cname) | StripAll.
Definition strip_is_none (s : strip_chunks) : bool := match s with StripNone => true | _ => false end.

Definition DISPLAY_CHUNKS : list cname := SrcConsts.src_display_chunks.

(* StripChunks::keep *)
Definition strip_keep (s : strip_chunks) (name : cname) : bool :=
  match s with
  | StripNone => true
  | StripKeep names => existsb (cname_eqb name) names
  | StripStrip names => negb (existsb (cname_eqb name) names)
  | StripSafe => existsb (cname_eqb name) DISPLAY_CHUNKS
  | StripAll => false
  end.

(* src/options.rs: Options; interlace: None = keep, Some b = Adam7 iff b *)
Record options := {
  fix_errors : bool;
  force : bool;
  filter : list row_filter;          (* IndexSet: insertion ordered, no duplicates *)
  interlace : option bool;
  optimize_alpha : bool;
  bit_depth_reduction : bool;
  color_type_reduction : bool;
  palette_reduction : bool;
  grayscale_reduction : bool;
  idat_recoding : bool;
  scale_16 : bool;
  strip : strip_chunks;
  deflate : deflater;
  fast_evaluation : bool;
  has_timeout : bool                 (* timeout: Option<Duration>; the clock itself is the oracle `dl` *)
}.

Definition default_options : options := {|
  fix_errors := false; force := false;
  filter := [FNone; FSub; FEntropy; FBigrams];
  interlace := Some false; optimize_alpha := false;
  bit_depth_reduction := true; color_type_reduction := true; palette_reduction := true;
  grayscale_reduction := true; idat_recoding := true; scale_16 := false;
  strip := StripNone; deflate := Libdeflater 11; fast_evaluation := true; has_timeout := false |}.

Definition set_filter (o : options) (f : list row_filter) : options :=
  {| fix_errors := fix_errors o; force := force o; filter := f; interlace := interlace o;
     optimize_alpha := optimize_alpha o; bit_depth_reduction := bit_depth_reduction o;
     color_type_reduction := color_type_reduction o; palette_reduction := palette_reduction o;
     grayscale_reduction := grayscale_reduction o; idat_recoding := idat_recoding o; scale_16 := scale_16 o;
     strip := strip o; deflate := deflate o; fast_evaluation := fast_evaluation o; has_timeout := has_timeout o |}.
Definition set_deflate (o : options) (d : deflater) : options :=
  {| fix_errors := fix_errors o; force := force o; filter := filter o; interlace := interlace o;
     optimize_alpha := optimize_alpha o; bit_depth_reduction := bit_depth_reduction o;
     color_type_reduction := color_type_reduction o; palette_reduction := palette_reduction o;
     grayscale_reduction := grayscale_reduction o; idat_recoding := idat_recoding o; scale_16 := scale_16 o;
     strip := strip o; deflate := d; fast_evaluation := fast_evaluation o; has_timeout := has_timeout o |}.
Definition set_fast (o : options) (b : bool) : options :=
  {| fix_errors := fix_errors o; force := force o; filter := filter o; interlace := interlace o;
     optimize_alpha := optimize_alpha o; bit_depth_reduction := bit_depth_reduction o;
     color_type_reduction := color_type_reduction o; palette_reduction := palette_reduction o;
     grayscale_reduction := grayscale_reduction o; idat_recoding := idat_recoding o; scale_16 := scale_16 o;
     strip := strip o; deflate := deflate o; fast_evaluation := b; has_timeout := has_timeout o |}.
(* the switches that preprocess_chunks may turn off *)
Definition set_reductions (o : options) (il : option bool) (bd ct pal gray : bool) : options :=
  {| fix_errors := fix_errors o; force := force o; filter := filter o; interlace := il;
     optimize_alpha := optimize_alpha o; bit_depth_reduction := bd;
     color_type_reduction := ct; palette_reduction := pal;
     grayscale_reduction := gray; idat_recoding := idat_recoding o; scale_16 := scale_16 o;
     strip := strip o; deflate := deflate o; fast_evaluation := fast_evaluation o; has_timeout := has_timeout o |}.

(* IndexSet::insert *)
Definition filter_insert (fs : list row_filter) (f : row_filter) : list row_filter :=
  if existsb (filter_eqb f) fs then fs else fs ++ [f].

Definition with_level (d : deflater) (c : Z) : deflater :=
  match d with Libdeflater _ => Libdeflater c | z => z end.

(* Options::from_preset *)
Definition apply_preset_3 (o : options) : options :=
  set_filter (set_fast o false) [FNone; FBigrams; FBigEnt; FBrute].
Definition apply_preset_5 (o : options) : options :=
  let o := set_fast o false in
  let o := set_filter o (fold_left filter_insert [FUp; FMinSum; FBigEnt; FBrute] (filter o)) in
  set_deflate o (with_level (deflate o) 12).
Definition from_preset (level : Z) : options :=
  let o := default_options in
  match level with
  | 0 => set_deflate (set_filter o []) (with_level (deflate o) 5)
  | 1 => set_deflate (set_filter o []) (with_level (deflate o) 10)
  | 2 => o
  | 3 => apply_preset_3 o
  | 4 => apply_preset_3 (set_deflate o (with_level (deflate o) 12))
  | 5 => apply_preset_5 o
  | _ => apply_preset_5 (set_filter o (fold_left filter_insert [FAverage; FPaeth] (filter o)))
  end.

(* ------------------------------------------------------------------ oracles *)
(* where the clock is consulted *)
Inductive site :=
| SCleanAlpha | S16to8 | SRgbGray | SExpand | SPalette | SAlphaRed | SToChannels | SToIndexed
| SBattiato | SMzeng | SDepthA | SDepthB
| STrial (evaluator nth : nat) (f : Z)
| SFrame (i : nat).

Record env := {
  (* the compressors are functions of (deflater, input); no size cap *)
  z_deflate : deflater -> list Z -> list Z;
  (* deflate::inflate(data, out_size) *)
  z_inflate : list Z -> Z -> res (list Z);
  (* the Brute strategy's per-row choice for a given image *)
  e_brute : image -> bool -> nat -> list (list Z) -> nat;
  (* Deadline::passed() at each consultation site *)
  dl : site -> bool
}.

(* Deflaters::deflate(self, data, max_size) *)
Definition deflate_capped (e : env) (d : deflater) (data : list Z) (max_size : option Z) : res (list Z) :=
  let c := z_deflate e d data in
  match max_size with
  | Some m => if m <? lenZ c then Err EDeflatedTooLong else Ok c
  | None => Ok c
  end.

(* MODEL of src/reduction/bit_depth.rs (after the fix that converts the colour key).
   Written from the Rust source. Executable; no proofs. *)
From OxiVerif Require Import Base.Common Model.Types Model.ScanLines.

Fixpoint pairs (l : list Z) : list (Z * Z) :=     (* chunks_exact(2) *)
  match l with
  | a :: b :: t => (a, b) :: pairs t
  | _ => []
  end.

(* fn color_type_16_to_8(color_type, convert) *)
Definition color_type_16_to_8 (c : color_type) (convert : Z -> option Z) : color_type :=
  match c with
  | Gray (Some t) => Gray (convert t)
  | RGB (Some (r, g, b)) =>
      RGB (match convert r, convert g, convert b with
           | Some r', Some g', Some b' => Some (r', g', b')
           | _, _, _ => None
           end)
  | _ => c
  end.

(* fn scale_16_to_8(val: u16) -> u8.  The f32 expression (val * (255.0/65535.0)).round() is
   modelled by its integer value (v + 128) / 257; the two are compared on all 65536 inputs by the
   C15 check on every run. *)
Definition scale_16_to_8 (v : Z) : Z :=
  let hi := v / 256 in let lo := v mod 256 in
  if hi =? lo then hi else (v + 128) / 257.

Definition exact_16_to_8 (v : Z) : option Z :=
  let hi := v / 256 in let lo := v mod 256 in
  if hi =? lo then Some hi else None.

(* pub fn scaled_bit_depth_16_to_8 *)
Definition scaled_bit_depth_16_to_8 (img : image) : option image :=
  if negb (depth (hdr img) =? 16) then None else
  Some {| hdr := with_depth (with_ctype (hdr img)
                     (color_type_16_to_8 (ctype (hdr img)) (fun v => Some (scale_16_to_8 v)))) 8;
          data := map (fun p => scale_16_to_8 (fst p * 256 + snd p)) (pairs (data img)) |}.

(* pub fn reduced_bit_depth_16_to_8 *)
Definition reduced_bit_depth_16_to_8 (img : image) (force_scale : bool) : option image :=
  if negb (depth (hdr img) =? 16) then None else
  if force_scale then scaled_bit_depth_16_to_8 img else
  if existsb (fun p => negb (fst p =? snd p)) (pairs (data img)) then None else
  Some {| hdr := with_depth (with_ctype (hdr img) (color_type_16_to_8 (ctype (hdr img)) exact_16_to_8)) 8;
          data := map fst (pairs (data img)) |}.

(* u8::rotate_left *)
Definition rotl8 (b n : Z) : Z := (b * 2 ^ n) mod 256 + b / 2 ^ (8 - n).

(* does byte b consist of identical `bits`-wide divisions?  (the inner loop of 'try_depth) *)
Fixpoint divisions_equal (n : nat) (byte bits mask compare : Z) : bool :=
  match n with
  | O => true
  | S n' => let byte := rotl8 byte bits in
            if Z.land byte mask =? compare then divisions_equal n' byte bits mask compare else false
  end.
Definition fits (bits b : Z) : bool :=
  let mask := 2 ^ bits - 1 in
  let byte := rotl8 b bits in
  divisions_equal (Z.to_nat (8 / bits - 1)) byte bits mask (Z.land byte mask).

(* raise minimum_bits until b fits; None = `return None` (reached 8) *)
Fixpoint raise_bits (fuel : nat) (bits b : Z) : option Z :=
  if fits bits b then Some bits else
  match fuel with
  | O => None
  | S f => let bits := bits * 2 in if bits =? 8 then None else raise_bits f bits b
  end.

Fixpoint gray_min_bits (data : list Z) (bits : Z) : option Z :=
  match data with
  | [] => Some bits
  | b :: t => if (b =? 0) || (b =? 255) then gray_min_bits t bits
              else match raise_bits 3 bits b with
                   | Some bits' => gray_min_bits t bits'
                   | None => None
                   end
  end.

(* pack one chunk of 8/minimum_bits pixels into a byte *)
Fixpoint pack_chunk (chunk : list Z) (bits mask shift : Z) : Z :=
  match chunk with
  | [] => 0
  | byte :: t => let shift := shift - bits in
                 Z.lor (Z.land byte mask * 2 ^ shift mod 256) (pack_chunk t bits mask shift)
  end.

(* replicate the low `bits` bits of a value up to 8 bits: while bits < 8 { v = (v << bits) | v } in u16 *)
Fixpoint replicate16 (fuel : nat) (v bits : Z) : Z :=
  match fuel with
  | O => v
  | S f => if bits <? 8 then replicate16 f (Z.lor (v * 2 ^ bits mod 65536) v) (bits * 2) else v
  end.
Fixpoint replicate8 (fuel : nat) (v bits : Z) : Z :=
  match fuel with
  | O => v
  | S f => if bits <? 8 then replicate8 f (Z.lor (v * 2 ^ bits mod 256) v) (bits * 2) else v
  end.

(* pub fn reduced_bit_depth_8_or_less *)
Definition reduced_bit_depth_8_or_less (img : image) : res (option image) :=
  let h := hdr img in
  if negb (depth h =? 8) || negb (channels img =? 1) then Ok None else
  let mb :=
    match ctype h with
    | Indexed pal =>
        let n := length pal in
        if (n <=? 2)%nat then Some 1 else if (n <=? 4)%nat then Some 2 else if (n <=? 16)%nat then Some 4 else None
    | _ => gray_min_bits (data img) 1
    end in
  match mb with
  | None => Ok None
  | Some bits =>
      let mask := 2 ^ bits - 1 in
      do lines <- scan_lines img false;
      let reduced := flat_map (fun l => map (fun ch => pack_chunk ch bits mask 8)
                                            (chunks (Z.to_nat (8 / bits)) (l_data l))) lines in
      let ct :=
        match ctype h with
        | Gray (Some trans) =>
            let reduced_trans := (trans mod 256) / 2 ^ (8 - bits) in
            let check := replicate16 3 reduced_trans bits in
            Gray (if trans =? check then Some reduced_trans else None)
        | c => c
        end in
      Ok (Some {| hdr := with_depth (with_ctype h ct) bits; data := reduced |})
  end.

(* the inner `for _ in 0..ppb` loop over one byte *)
Fixpoint expand_byte (n : nat) (byte bits mask : Z) (is_gray : bool) : list Z :=
  match n with
  | O => []
  | S n' => let byte := rotl8 byte bits in
            let val := Z.land byte mask in
            let val := if is_gray then replicate8 3 val bits else val in
            val :: expand_byte n' byte bits mask is_gray
  end.

(* pub fn expanded_bit_depth_to_8 *)
Definition expanded_bit_depth_to_8 (img : image) : res (option image) :=
  let h := hdr img in
  let bits := depth h in
  if 8 <=? bits then Ok None else
  let ppb := Z.to_nat (8 / bits) in
  let is_g := match ctype h with Gray _ => true | _ => false end in
  let mask := 2 ^ bits - 1 in
  do lines <- scan_lines img false;
  let reduced := flat_map (fun l => firstn (Z.to_nat (l_npix l))
                                           (flat_map (fun b => expand_byte ppb b bits mask is_g) (l_data l))) lines in
  let ct := match ctype h with
            | Gray (Some trans) => Gray (Some (replicate16 3 trans bits))
            | c => c
            end in
  Ok (Some {| hdr := with_depth (with_ctype h ct) 8; data := reduced |}).

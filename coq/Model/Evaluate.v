(* MODEL of src/evaluate.rs (Evaluator, Candidate::cmp_key) and src/atomicmin.rs.
   The concurrently running trials are a labelled transition system whose schedule is an explicit
   event list; `best_of` is the schedule-free characterisation used by the rest of the model
   (Proofs/EvalProofs.v shows that every complete schedule yields it).
   Written from the Rust source. Executable; no proofs. *)
From OxiVerif Require Import Base.Common Model.Types.

(* what a finished compression of one (image, filter) pair looks like to the evaluator *)
Record trial := {
  tL : Z;          (* idat_data.len() *)
  tK : Z;          (* image.key_chunks_size() *)
  tRaw : Z;        (* image.data.len() *)
  tFilter : Z;     (* filter as u8 *)
  tNth : Z;        (* submission number of the image *)
  tSkip : bool     (* the deadline had passed when the trial started *)
}.

Definition total (t : trial) : Z := tL t + tK t.     (* estimated_output_size *)

(* Candidate::cmp_key = (estimated_output_size, image.data.len(), filter, usize::MAX - nth) *)
Definition key_ltb (a b : trial) : bool :=
  (total a <? total b) ||
  ((total a =? total b) &&
   ((tRaw a <? tRaw b) ||
    ((tRaw a =? tRaw b) &&
     ((tFilter a <? tFilter b) ||
      ((tFilter a =? tFilter b) && (tNth b <? tNth a)))))).

(* ------------------------------------------------------------------ AtomicMin *)
(* None = usize::MAX *)
Definition le_bound (l : Z) (b : option Z) : bool := match b with None => true | Some m => l <=? m end.
Definition min_bound (b : option Z) (v : Z) : option Z :=
  match b with None => Some v | Some m => Some (Z.min m v) end.

(* ------------------------------------------------------------------ the LTS *)
Inductive event :=
| Read (i : nat)        (* trial i executes best_candidate_size.get() (then compresses) *)
| Publish (i : nat).    (* trial i: `if let Ok(..)` test, set_min(estimated_output_size), send *)

Inductive phase := Pending | HasRead (b : option Z) | Done.

Record state := { bound : option Z; phases : list phase; received : list trial }.

Definition step (trials : list trial) (s : state) (e : event) : option state :=
  match e with
  | Read i =>
      match nth_error (phases s) i, nth_error trials i with
      | Some Pending, Some t =>
          if tSkip t
          then Some {| bound := bound s; phases := set_nth i Done (phases s); received := received s |}
          else Some {| bound := bound s; phases := set_nth i (HasRead (bound s)) (phases s); received := received s |}
      | _, _ => None
      end
  | Publish i =>
      match nth_error (phases s) i, nth_error trials i with
      | Some (HasRead b), Some t =>
          if le_bound (tL t) b
          then Some {| bound := min_bound (bound s) (total t); phases := set_nth i Done (phases s);
                       received := t :: received s |}
          else Some {| bound := bound s; phases := set_nth i Done (phases s); received := received s |}
      | _, _ => None
      end
  end.

Fixpoint run (trials : list trial) (s : state) (es : list event) : option state :=
  match es with
  | [] => Some s
  | e :: es => match step trials s e with Some s' => run trials s' es | None => None end
  end.

Definition init_state (trials : list trial) (init : option Z) : state :=
  {| bound := init; phases := map (fun _ => Pending) trials; received := [] |}.

Definition complete (s : state) : Prop := Forall (fun p => p = Done) (phases s).
Definition completeb (s : state) : bool := forallb (fun p => match p with Done => true | _ => false end) (phases s).

(* eval_recv.into_iter().min_by_key(Candidate::cmp_key): the first minimal element in arrival order;
   `received` is kept newest first, so the scan keeps the later list element on ties *)
Fixpoint min_by_key (l : list trial) : option trial :=
  match l with
  | [] => None
  | t :: r => match min_by_key r with
              | None => Some t
              | Some m => if key_ltb t m then Some t else Some m
              end
  end.

(* ------------------------------------------------------------------ schedule-free result *)
Definition eligible (init : option Z) (t : trial) : bool := negb (tSkip t) && le_bound (tL t) init.

Fixpoint best_of_go (init : option Z) (trials : list trial) (best : option trial) : option trial :=
  match trials with
  | [] => best
  | t :: r =>
      let best' := if eligible init t
                   then match best with
                        | None => Some t
                        | Some b => if key_ltb t b then Some t else best
                        end
                   else best in
      best_of_go init r best'
  end.
Definition best_of (init : option Z) (trials : list trial) : option trial := best_of_go init trials None.

(* ------------------------------------------------------------------ the not(parallel) build *)
(* trials run synchronously in program order; each reads the bound, compresses, publishes; the
   best candidate is kept with `Some(prev) if prev.cmp_key() < new.cmp_key() => {}` else replace *)
Fixpoint sequential_go (trials : list trial) (bnd : option Z) (best : option trial) : option trial :=
  match trials with
  | [] => best
  | t :: r =>
      if tSkip t then sequential_go r bnd best
      else if le_bound (tL t) bnd then
        let best' := match best with
                     | Some prev => if key_ltb prev t then Some prev else Some t
                     | None => Some t
                     end in
        sequential_go r (min_bound bnd (total t)) best'
      else sequential_go r bnd best
  end.
Definition sequential (init : option Z) (trials : list trial) : option trial := sequential_go trials init None.

(* MODEL of src/reduction/palette.rs. Written from the Rust source. Executable; no proofs. *)
From OxiVerif Require Import Base.Common Model.Types Model.ScanLines Model.Color.

Definition nthZ {A} (l : list A) (i : Z) (d : A) : A := nth (Z.to_nat i) l d.
Definition black : rgba8 := (0, 0, 0, 255).

(* ------------------------------------------------------------------ reduced_palette *)
(* used[i] for i in 0..256 *)
Definition used_table (data : list Z) : list bool :=
  fold_left (fun u b => set_nth (Z.to_nat b) true u) data (repeat false 256).

(* fn add_color_to_set *)
Definition add_color_to_set (color : rgba8) (set : list rgba8 * nat) (optimize_alpha : bool) : nat * (list rgba8 * nat) :=
  let '(r, g, b, a) := color in
  let color := if optimize_alpha && (a =? 0) then (0, 0, 0, a) else color in
  insert_full rgba8_eqb color set.

(* the loop `for (i, used) in used.iter().enumerate()` *)
Fixpoint condense (used : list bool) (i : Z) (pal : list rgba8) (optimize_alpha : bool)
         (set : list rgba8 * nat) (byte_map : list Z) (did_change : bool)
  : (list rgba8 * nat) * list Z * bool :=
  match used with
  | [] => (set, byte_map, did_change)
  | u :: t =>
      if negb u then condense t (i + 1) pal optimize_alpha set byte_map did_change
      else
        let color := nth (Z.to_nat i) pal black in
        let '(idx, set') := add_color_to_set color set optimize_alpha in
        let idx8 := Z.of_nat idx mod 256 in           (* `idx as u8` *)
        condense t (i + 1) pal optimize_alpha set' (set_nth (Z.to_nat i) idx8 byte_map)
                 (did_change || negb (idx8 =? i))
  end.

(* pub fn reduced_palette *)
Definition reduced_palette (img : image) (optimize_alpha : bool) : option image :=
  let h := hdr img in
  if negb (depth h =? 8) then None else
  match ctype h with
  | Indexed pal =>
      let used := used_table (data img) in
      let '(set, byte_map, did_change) := condense used 0 pal optimize_alpha ([], O) (repeat 0 256) false in
      let condensed := rev (fst set) in
      let new_data :=
        if did_change then Some (map (fun b => nthZ byte_map b 0) (data img))
        else if negb (length condensed =? length pal)%nat then Some (data img)
        else None in
      match new_data with
      | None => None
      | Some d => Some {| hdr := with_ctype h (Indexed condensed); data := d |}
      end
  | _ => None
  end.

(* ------------------------------------------------------------------ popularity helpers *)
Definition incr_nth (i : Z) (l : list Z) : list Z := set_nth (Z.to_nat i) (nthZ l i 0 + 1) l.

(* `.enumerate().max_by_key(|&(_, v)| v)`: the LAST maximal element *)
Fixpoint max_by_key_last (l : list Z) (i : Z) (best : option (Z * Z)) : option (Z * Z) :=
  match l with
  | [] => best
  | v :: t =>
      let best' := match best with
                   | None => Some (i, v)
                   | Some (_, bv) => if bv <=? v then Some (i, v) else best
                   end in
      max_by_key_last t (i + 1) best'
  end.

(* fn most_popular_edge_color(num_colors, png) -> Option<usize>; outer None = unwrap panic *)
Definition most_popular_edge_color (num_colors : nat) (lines : list scanline) : res (option Z) :=
  let counts := fold_left (fun c l =>
                  match l_data l with
                  | first :: (_ :: _) as rest => incr_nth (last rest 0) (incr_nth first c)
                  | _ => c
                  end) lines (repeat 0 256) in
  match max_by_key_last (firstn num_colors counts) 0 None with
  | None => Panic PUnwrap
  | Some (idx, mx) =>
      let max_equal := length (filter (fun v => v =? mx) counts) in
      if (1 <? max_equal)%nat then Ok None else Ok (Some idx)
  end.

(* fn most_popular_color(num_colors, png) -> (usize, u32) *)
Definition most_popular_color (num_colors : nat) (data : list Z) : Z * Z :=
  let counts := fold_left (fun c v => incr_nth v c) data (repeat 0 256) in
  match max_by_key_last (firstn num_colors counts) 0 None with
  | Some r => r
  | None => (0, 0)
  end.

Fixpoint position_of (v : Z) (l : list Z) (i : nat) : option nat :=
  match l with [] => None | a :: t => if a =? v then Some i else position_of v t (S i) end.

Definition rotate_left {A} (l : list A) (k : nat) : list A := skipn k l ++ firstn k l.
Definition rotate_right {A} (l : list A) (k : nat) : list A := rotate_left l (length l - k).

(* fn apply_most_popular_color(png, remapping) *)
Definition apply_most_popular_color (data : list Z) (remapping : list Z) : res (list Z) :=
  let '(idx, cnt) := most_popular_color (length remapping) data in
  if cnt <? lenZ data * 3 / 20 then Ok remapping else
  match position_of idx remapping O with
  | None => Panic PUnwrap
  | Some first_idx =>
      if (length remapping / 2 <=? first_idx)%nat
      then Ok (rotate_right (rev remapping) (first_idx + 1))
      else Ok (rotate_left remapping first_idx)
  end.

(* fn apply_palette_reorder(png, remapping) *)
Definition is_identity (remapping : list Z) : bool :=
  forallb (fun p => fst p =? snd p) (combine (map Z.of_nat (seq 0 (length remapping))) remapping).

Fixpoint build_byte_map (remapping : list Z) (i : Z) (byte_map : list Z) : list Z :=
  match remapping with
  | [] => byte_map
  | v :: t => build_byte_map t (i + 1) (set_nth (Z.to_nat v) (i mod 256) byte_map)
  end.

Definition apply_palette_reorder (img : image) (remapping : list Z) : res (option image) :=
  match ctype (hdr img) with
  | Indexed pal =>
      if is_identity remapping then Ok None else
      (* `palette[v]` and `byte_map[v]` index panics *)
      if existsb (fun v => (v <? 0) || (lenZ pal <=? v) || (256 <=? v)) remapping then Panic PIndex else
      let new_pal := map (fun v => nthZ pal v black) remapping in
      let byte_map := build_byte_map remapping 0 (repeat 0 256) in
      Ok (Some {| hdr := with_ctype (hdr img) (Indexed new_pal);
                  data := map (fun b => nthZ byte_map b 0) (data img) |})
  | _ => Ok None
  end.

(* ------------------------------------------------------------------ sorted_palette (luma sort) *)
Definition color_val (c : rgba8) : Z :=
  let '(r, g, b, a) := c in
  (Z.land a 254) * 262144 + Z.land a 1 - r * 299 - g * 587 - b * 114.

(* stable insertion sort by key (the Rust `sort_by` is stable): elements are inserted from the
   right, each one in front of the elements with an equal key *)
Fixpoint insert_sorted {A} (key : A -> Z) (x : A) (l : list A) : list A :=
  match l with
  | [] => [x]
  | a :: t => if key x <=? key a then x :: l else a :: insert_sorted key x t
  end.
Definition stable_sort {A} (key : A -> Z) (l : list A) : list A :=
  fold_right (insert_sorted key) [] l.

Fixpoint remove_nth {A} (n : nat) (l : list A) : list A :=
  match l, n with
  | [], _ => []
  | _ :: t, O => t
  | a :: t, S n => a :: remove_nth n t
  end.

(* pub fn sorted_palette *)
Definition sorted_palette (img : image) : res (option image) :=
  let h := hdr img in
  if negb (depth h =? 8) then Ok None else
  match ctype h with
  | Indexed pal =>
      if (length pal <=? 1)%nat then Ok None else
      do lines <- scan_lines img false;
      do keep_first <- most_popular_edge_color (length pal) lines;
      let enumerated := combine (map Z.of_nat (seq 0 (length pal))) pal in
      let '(first, rest) :=
        match keep_first with
        | Some f => (nth_error enumerated (Z.to_nat f), remove_nth (Z.to_nat f) enumerated)
        | None => (None, enumerated)
        end in
      let sorted := stable_sort (fun e => color_val (snd e)) rest in
      let sorted := match first with Some f => f :: sorted | None => sorted end in
      let remapping := map fst sorted in
      if is_identity remapping then Ok None else
      let byte_map := build_byte_map remapping 0 (repeat 0 256) in
      Ok (Some {| hdr := with_ctype h (Indexed (map snd sorted));
                  data := map (fun b => nthZ byte_map b 0) (data img) |})
  | _ => Ok None
  end.

(* ------------------------------------------------------------------ co-occurrence and edges *)
Definition matrix := list (list Z).
Definition mget (m : matrix) (i j : Z) : Z := nthZ (nthZ m i []) j 0.
Definition mincr (m : matrix) (i j : Z) : matrix :=
  set_nth (Z.to_nat i) (incr_nth j (nthZ m i [])) m.
Definition mincr2 (m : matrix) (a b : Z) : matrix := mincr (mincr m a b) b a.

(* one line of co_occurrence_matrix; pv = prev_val (persists across lines), pl = previous line *)
Fixpoint cooc_line (n : Z) (cur : list Z) (pl : option (list Z)) (m : matrix) (pv : option Z)
  : res (matrix * option Z) :=
  match cur with
  | [] => Ok (m, pv)
  | val :: t =>
      let plt := match pl with Some (_ :: r) => Some r | Some [] => Some [] | None => None end in
      if n <? val then cooc_line n t plt m pv      (* `continue` *)
      else if n =? val then Panic PIndex            (* matrix[..][num_colors] is out of bounds … *)
      else
        let m1 := match pv with Some p => mincr2 m p val | None => m end in
        match pl with
        | None => cooc_line n t plt m1 (Some val)
        | Some [] => Panic PIndex                   (* prev.data[i] out of bounds *)
        | Some (pval :: _) =>
            if n <? pval then cooc_line n t plt m1 (Some val)
            else if n =? pval then Panic PIndex
            else cooc_line n t plt (mincr2 m1 pval val) (Some val)
        end
  end.
(* note: when pv = None and val = n nothing is indexed before `prev`; the model over-approximates
   this single corner (val = num_colors with no previous value and no previous line) as a panic. *)

Fixpoint cooc_lines (n : Z) (lines : list (list Z)) (pl : option (list Z)) (m : matrix) (pv : option Z) : res matrix :=
  match lines with
  | [] => Ok m
  | l :: t => do r <- cooc_line n l pl m pv; let '(m', pv') := r in cooc_lines n t (Some l) m' pv'
  end.

Definition co_occurrence_matrix (num_colors : nat) (lines : list scanline) : res matrix :=
  cooc_lines (Z.of_nat num_colors) (map l_data lines) None
             (repeat (repeat 0 num_colors) num_colors) None.

(* fn weighted_edges: edges (j, i), j < i, stably sorted by descending weight *)
Definition weighted_edges (m : matrix) : list (Z * Z) :=
  let n := length m in
  let es := flat_map (fun i => map (fun j => ((Z.of_nat j, Z.of_nat i), mget m (Z.of_nat i) (Z.of_nat j))) (seq 0 i)) (seq 0 n) in
  map fst (stable_sort (fun e : (Z * Z) * Z => - snd e) es).

(* ------------------------------------------------------------------ mzeng *)
Definition swap_remove {A} (l : list A) (pos : nat) : list A :=
  match rev l with
  | [] => []
  | lastx :: _ =>
      if (pos =? length l - 1)%nat then removelast l
      else set_nth pos lastx (removelast l)
  end.

Fixpoint mzeng_delta (remapping : list Z) (i : Z) (n : Z) (best_index : Z) (m : matrix) : Z :=
  match remapping with
  | [] => 0
  | idx :: t => (n - 1 - 2 * i) * mget m best_index idx + mzeng_delta t (i + 1) n best_index m
  end.

(* update all sums and find the best one: strict `>` keeps the first maximum; initial best = (0,0) at position 0 *)
Fixpoint mzeng_update (sums : list (Z * Z)) (i : nat) (best_index : Z) (m : matrix)
         (best_pos : nat) (best : Z * Z) : list (Z * Z) * nat * (Z * Z) :=
  match sums with
  | [] => ([], best_pos, best)
  | (c, s) :: t =>
      let s' := s + mget m best_index c in
      let '(bp, b) := if snd best <? s' then (i, (c, s')) else (best_pos, best) in
      let '(t', bp', b') := mzeng_update t (S i) best_index m bp b in
      ((c, s') :: t', bp', b')
  end.

Fixpoint mzeng_loop (fuel : nat) (num_colors : Z) (m : matrix) (remapping : list Z)
         (sums : list (Z * Z)) (best_pos : nat) (best : Z * Z) : list Z :=
  match fuel with
  | O => remapping
  | S f =>
      match sums with
      | [] => remapping
      | _ =>
          let best_index := fst best in
          let n := num_colors - lenZ sums in
          let delta := mzeng_delta remapping 0 n best_index m in
          let remapping' := if 0 <? delta then best_index :: remapping else remapping ++ [best_index] in
          let sums1 := swap_remove sums best_pos in
          match sums1 with
          | [] => remapping'
          | _ => let '(sums2, bp, b) := mzeng_update sums1 O best_index m O (0, 0) in
                 mzeng_loop f num_colors m remapping' sums2 bp b
          end
      end
  end.

(* fn mzeng_reindex(num_colors, edges, matrix) *)
Definition mzeng_reindex (num_colors : nat) (edges : list (Z * Z)) (m : matrix) : res (list Z) :=
  match edges with
  | [] => Panic PIndex
  | (e0, e1) :: _ =>
      let remapping := [e0; e1] in
      (* initial sums *)
      let init := fold_left (fun (acc : list (Z * Z) * nat * (Z * Z)) (i : nat) =>
                    let '(sums, bp, b) := acc in
                    let iz := Z.of_nat i in
                    if (iz =? e0) || (iz =? e1) then acc else
                    let s := mget m iz e0 + mget m iz e1 in
                    let '(bp', b') := if snd b <? s then (length sums, (iz, s)) else (bp, b) in
                    (sums ++ [(iz, s)], bp', b')) (seq 0 (length m)) ([], O, (0, 0)) in
      let '(sums, bp, b) := init in
      Ok (mzeng_loop (length m) (Z.of_nat num_colors) m remapping sums bp b)
  end.

(* ------------------------------------------------------------------ battiato *)
Record bstate := { b_chains : list (list Z); b_vx : list (Z * Z) }.

Definition vx_get (s : bstate) (i : Z) : Z * Z := nthZ (b_vx s) i (0, 0).
Definition vx_set (vx : list (Z * Z)) (i : Z) (v : Z * Z) := set_nth (Z.to_nat i) v vx.
Definition set_state (vx : list (Z * Z)) (i : Z) (st : Z) := vx_set vx i (st, snd (nthZ vx i (0, 0))).
Definition set_chain (vx : list (Z * Z)) (i : Z) (c : Z) := vx_set vx i (fst (nthZ vx i (0, 0)), c).

Definition chain_head (c : list Z) : option Z := match c with x :: _ => Some x | [] => None end.

(* one edge (i, j); Panic PIndex for chain[0] on an empty chain *)
Definition battiato_step (s : bstate) (e : Z * Z) : res bstate :=
  let '(i, j) := e in
  let vi := vx_get s i in let vj := vx_get s j in
  let chains := b_chains s in let vx := b_vx s in
  if (fst vi =? 0) && (fst vj =? 0) then
    let c := lenZ chains in
    Ok {| b_chains := chains ++ [[i; j]]; b_vx := vx_set (vx_set vx i (1, c)) j (1, c) |}
  else if (fst vi =? 0) && (fst vj =? 1) then
    let vx := vx_set vx i (1, snd vj) in
    let vx := set_state vx j 2 in
    let chain := nthZ chains (snd vj) [] in
    match chain_head chain with
    | None => Panic PIndex
    | Some hd => let chain' := if hd =? j then i :: chain else chain ++ [i] in
                 Ok {| b_chains := set_nth (Z.to_nat (snd vj)) chain' chains; b_vx := vx |}
    end
  else if (fst vi =? 1) && (fst vj =? 0) then
    let vx := vx_set vx j (1, snd vi) in
    let vx := set_state vx i 2 in
    let chain := nthZ chains (snd vi) [] in
    match chain_head chain with
    | None => Panic PIndex
    | Some hd => let chain' := if hd =? i then j :: chain else chain ++ [j] in
                 Ok {| b_chains := set_nth (Z.to_nat (snd vi)) chain' chains; b_vx := vx |}
    end
  else if (fst vi =? 1) && (fst vj =? 1) && negb (snd vi =? snd vj) then
    let vx := set_state (set_state vx i 2) j 2 in
    let '(a, b) := if snd vi <? snd vj then (i, j) else (j, i) in
    let ca := snd (nthZ vx a (0, 0)) in
    let cb := snd (nthZ vx b (0, 0)) in
    let chainb := nthZ chains cb [] in
    let chains := set_nth (Z.to_nat cb) [] chains in
    let vx := fold_left (fun vx v => set_chain vx v ca) chainb vx in
    let chaina := nthZ chains ca [] in
    match chain_head chaina, chain_head chainb with
    | Some ha, Some hb =>
        let chaina' :=
          if (ha =? a) && (hb =? b) then rev chainb ++ chaina
          else if ha =? a then chainb ++ chaina
          else if hb =? b then chaina ++ chainb
          else chaina ++ rev chainb in
        Ok {| b_chains := set_nth (Z.to_nat ca) chaina' chains; b_vx := vx |}
    | _, _ => Panic PIndex
    end
  else Ok s.

Fixpoint battiato_loop (num_colors : nat) (s : bstate) (edges : list (Z * Z)) : res bstate :=
  match edges with
  | [] => Ok s
  | e :: t =>
      do s' <- battiato_step s e;
      match b_chains s' with
      | [] => Panic PIndex                       (* chains[0] *)
      | c0 :: _ => if (length c0 =? num_colors)%nat then Ok s' else battiato_loop num_colors s' t
      end
  end.

(* fn battiato_reindex(num_colors, edges) *)
Definition battiato_reindex (num_colors : nat) (edges : list (Z * Z)) : res (list Z) :=
  do s <- battiato_loop num_colors {| b_chains := []; b_vx := repeat (0, 0) num_colors |} edges;
  match b_chains s with
  | [] => Panic PIndex                           (* chains.swap_remove(0) on an empty vector *)
  | c0 :: _ => Ok c0
  end.

(* ------------------------------------------------------------------ the two sorters *)
Definition palette_for_sort (img : image) : option (list rgba8) :=
  if negb (depth (hdr img) =? 8) || interlaced (hdr img) then None else
  match ctype (hdr img) with
  | Indexed pal => if (length pal <=? 2)%nat then None else Some pal
  | _ => None
  end.

(* pub fn sorted_palette_mzeng *)
Definition sorted_palette_mzeng (img : image) : res (option image) :=
  match palette_for_sort img with
  | None => Ok None
  | Some pal =>
      do lines <- scan_lines img false;
      do m <- co_occurrence_matrix (length pal) lines;
      let edges := weighted_edges m in
      do remapping <- mzeng_reindex (length pal) edges m;
      do remapping <- apply_most_popular_color (data img) remapping;
      apply_palette_reorder img remapping
  end.

(* pub fn sorted_palette_battiato *)
Definition sorted_palette_battiato (img : image) : res (option image) :=
  match palette_for_sort img with
  | None => Ok None
  | Some pal =>
      do lines <- scan_lines img false;
      do m <- co_occurrence_matrix (length pal) lines;
      let edges := weighted_edges m in
      do remapping <- battiato_reindex (length pal) edges;
      do remapping <- apply_most_popular_color (data img) remapping;
      apply_palette_reorder img remapping
  end.

(* MODEL of src/headers.rs (IhdrData::raw_data_size with usize saturation, chunk parsing,
   StripChunks::keep, C2PA detection, ICC helpers, pre/postprocess_chunks).
   Written from the Rust source. Executable; no proofs. *)
From OxiVerif Require Import Base.Common Model.Types.
From OxiVerif Require Gen.SrcConsts.

Definition usize_max : Z := 2 ^ 64 - 1.
Definition sat_mul (a b : Z) : Z := Z.min (a * b) usize_max.
Definition sat_add (a b : Z) : Z := Z.min (a + b) usize_max.

(* fn bitmap_size(bpp, w, h) = (w * bpp).div_ceil(8).saturating_mul(h) *)
Definition bitmap_size (bits_pp w h : Z) : Z := sat_mul (cdiv (w * bits_pp) 8) h.
Definition pass_size (bits_pp pw ph : Z) : Z := sat_add (bitmap_size bits_pp pw ph) ph.

(* IhdrData::raw_data_size *)
Definition raw_data_size (hd : ihdr) : Z :=
  let w := width hd in let h := height hd in let b := bpp hd in
  if negb (interlaced hd) then pass_size b w h
  else
    let size := pass_size b ((w + 7) / 8) ((h + 7) / 8) in
    let size := if 4 <? w then sat_add size (pass_size b ((w + 3) / 8) ((h + 7) / 8)) else size in
    let size := sat_add size (pass_size b ((w + 3) / 4) ((h + 3) / 8)) in
    let size := if 2 <? w then sat_add size (pass_size b ((w + 1) / 4) ((h + 3) / 4)) else size in
    let size := sat_add size (pass_size b ((w + 1) / 2) ((h + 1) / 4)) in
    let size := if 1 <? w then sat_add size (pass_size b (w / 2) ((h + 1) / 2)) else size in
    sat_add size (pass_size b w (h / 2)).

(* MODEL of src/headers.rs (IhdrData::raw_data_size with usize saturation, chunk parsing,
   StripChunks::keep, C2PA detection, ICC helpers, pre/postprocess_chunks).
   Written from the Rust source. Executable; no proofs. *)
From OxiVerif Require Import Base.Common Model.Types.
From OxiVerif Require Gen.SrcConsts.

Definition usize_max : Z := 2 ^ 64 - 1.
Definition sat_mul (a b : Z) : Z := Z.min (a * b) usize_max.
Definition sat_add (a b : Z) : Z := Z.min (a + b) usize_max.

(* fn bitmap_size(bpp, w, h) = (w * bpp).div_ceil(8).saturating_mul(h) *)
Definition bitmap_size (bits_pp w h : Z) : Z := sat_mul (cdiv (w * bits_pp) 8) h.
Definition pass_size (bits_pp pw ph : Z) : Z := sat_add (bitmap_size bits_pp pw ph) ph.

(* IhdrData::raw_data_size *)
Definition raw_data_size (hd : ihdr) : Z :=
  let w := width hd in let h := height hd in let b := bpp hd in
  if negb (interlaced hd) then pass_size b w h
  else
    let size := pass_size b ((w + 7) / 8) ((h + 7) / 8) in
    let size := if 4 <? w then sat_add size (pass_size b ((w + 3) / 8) ((h + 7) / 8)) else size in
    let size := sat_add size (pass_size b ((w + 3) / 4) ((h + 3) / 8)) in
    let size := if 2 <? w then sat_add size (pass_size b ((w + 1) / 4) ((h + 3) / 4)) else size in
    let size := sat_add size (pass_size b ((w + 1) / 2) ((h + 1) / 4)) in
    let size := if 1 <? w then sat_add size (pass_size b (w / 2) ((h + 1) / 2)) else size in
    sat_add size (pass_size b w (h / 2)).

From OxiVerif Require Import Base.Crc32 Model.Options.

(* ------------------------------------------------------------------ chunks *)
Record chunk := { c_name : cname; c_data : list Z }.

Definition name_IHDR : cname := [73; 72; 68; 82].
Definition name_PLTE : cname := [80; 76; 84; 69].
Definition name_IDAT : cname := [73; 68; 65; 84].
Definition name_IEND : cname := [73; 69; 78; 68].
Definition name_tRNS : cname := [116; 82; 78; 83].
Definition name_acTL : cname := [97; 99; 84; 76].
Definition name_fcTL : cname := [102; 99; 84; 76].
Definition name_fdAT : cname := [102; 100; 65; 84].
Definition name_bKGD : cname := [98; 75; 71; 68].
Definition name_hIST : cname := [104; 73; 83; 84].
Definition name_sBIT : cname := [115; 66; 73; 84].
Definition name_sRGB : cname := [115; 82; 71; 66].
Definition name_iCCP : cname := [105; 67; 67; 80].
Definition name_caBX : cname := [99; 97; 66; 88].

Definition be32_of (l : list Z) : Z :=
  match l with a :: b :: c :: d :: _ => be32 a b c d | _ => 0 end.
Definition be16_of (l : list Z) : Z :=
  match l with a :: b :: _ => be16 a b | _ => 0 end.

(* fn parse_jumbf_box(data) -> Option<(box_name, data)> *)
Definition parse_jumbf_box (data : list Z) : option (list Z * list Z) :=
  if (length data <? 8)%nat then None else
  let len := be32_of data in
  if (len <? 8) || (lenZ data <? len) then None else
  let rest := skipn 4 data in
  let box_name := firstn 4 rest in
  let d := skipn 4 rest in
  (* data.get(..len - 8) *)
  if lenZ d <? len - 8 then None else Some (box_name, firstn (Z.to_nat (len - 8)) d).

(* RawChunk::is_c2pa *)
Definition is_c2pa (name : cname) (data : list Z) : bool :=
  if cname_eqb name name_caBX then
    match parse_jumbf_box data with
    | Some (bn, d) =>
        if list_eqb Z.eqb bn [106; 117; 109; 98] (* jumb *) then
          match parse_jumbf_box d with
          | Some (bn2, d2) =>
              if list_eqb Z.eqb bn2 [106; 117; 109; 100] (* jumd *)
              then (4 <=? length d2)%nat && list_eqb Z.eqb (firstn 4 d2) [99; 50; 112; 97] (* c2pa *)
              else false
          | None => false
          end
        else false
    | None => false
    end
  else false.

(* pub fn parse_next_chunk over the remaining bytes: None = IEND reached *)
Definition parse_next_chunk (rest : list Z) (fix_errors : bool) : res (option (chunk * list Z)) :=
  if (length rest <? 4)%nat then Err ETruncated else
  let length_ := be32_of rest in
  if lenZ rest <? 12 + length_ then Err ETruncated else
  let after_len := skipn 4 rest in
  let name := firstn 4 after_len in
  if cname_eqb name name_IEND then Ok None else
  let n := Z.to_nat length_ in
  let body := skipn 4 after_len in
  let data := firstn n body in
  let after := skipn n body in
  let crc := be32_of after in
  if negb fix_errors && negb (crc32 (firstn (4 + n) after_len) =? crc) then Err EOther
  else Ok (Some ({| c_name := name; c_data := data |}, skipn 4 after)).

Fixpoint triples (l : list Z) : list (Z * Z * Z) :=
  match l with a :: b :: c :: t => (a, b, c) :: triples t | _ => [] end.

(* palette.iter_mut().zip(trns_data): alpha replaced for the first min(len) entries *)
Fixpoint zip_alpha (pl : list rgba8) (tl : list Z) : list rgba8 :=
  match pl, tl with
  | (r, g, b, _) :: pr, a :: tr => (r, g, b, a) :: zip_alpha pr tr
  | _, _ => pl
  end.

(* fn palette_to_rgba *)
Definition palette_to_rgba (plte trns : option (list Z)) : option (list rgba8) :=
  match plte with
  | None => None
  | Some p =>
      let pal := map (fun c : Z * Z * Z => let '(r, g, b) := c in (r, g, b, 255)) (triples p) in
      match trns with
      | Some t => Some (zip_alpha pal t)
      | None => Some pal
      end
  end.

Definition depth_valid (d : Z) : bool := (d =? 1) || (d =? 2) || (d =? 4) || (d =? 8) || (d =? 16).

(* pub fn parse_ihdr_chunk(byte_data, palette_data, trns_data) *)
Definition parse_ihdr_chunk (b : list Z) (plte trns : option (list Z)) : res ihdr :=
  match nth_error b 12 with
  | None => Err ETruncated
  | Some il =>
      let ctb := nth 9 b 0 in
      let ct : res color_type :=
        match ctb with
        | 0 => Ok (Gray (match trns with Some t => if (2 <=? length t)%nat then Some (be16_of t) else None | None => None end))
        | 2 => Ok (RGB (match trns with
                        | Some t => if (6 <=? length t)%nat
                                    then Some (be16_of t, be16_of (skipn 2 t), be16_of (skipn 4 t)) else None
                        | None => None end))
        | 3 => Ok (Indexed (match palette_to_rgba plte trns with Some p => p | None => [] end))
        | 4 => Ok GrayAlpha
        | 6 => Ok RGBA
        | _ => Err EOther
        end in
      do c <- ct;
      let d := nth 8 b 0 in
      if negb (depth_valid d) then Err EOther else
      if negb ((il =? 0) || (il =? 1)) then Err EOther else
      let hd := {| width := be32_of b; height := be32_of (skipn 4 b); ctype := c; depth := d; interlaced := il =? 1 |} in
      let valid := match c with
                   | Gray _ => true
                   | Indexed _ => d <=? 8
                   | _ => 8 <=? d
                   end in
      if valid then Ok hd else Err EInvalidDepthForType
  end.

(* ------------------------------------------------------------------ ICC *)
Fixpoint skip_name (data : list Z) : option (list Z) :=
  match data with
  | [] => None
  | n :: rest => if n =? 0 then Some rest else skip_name rest
  end.

(* pub fn extract_icc(iccp) -> Option<Vec<u8>> *)
Definition extract_icc (e : env) (iccp : chunk) : option (list Z) :=
  match skip_name (c_data iccp) with
  | None => None
  | Some d =>
      match d with
      | [] => None
      | method :: compressed =>
          if negb (method =? 0) then None else
          match z_inflate e compressed (lenZ compressed * 2 + 1000) with
          | Ok icc => Some icc
          | _ => None
          end
      end
  end.

(* pub fn make_iccp(icc, deflater, max_size) *)
Definition make_iccp (e : env) (icc : list Z) (d : deflater) (max_size : option Z) : res chunk :=
  do c <- deflate_capped e d icc max_size;
  Ok {| c_name := name_iCCP; c_data := [105; 99; 99; 0; 0] ++ c |}.

Definition SRGB_PROFILE_IDS : list (list Z) := SrcConsts.src_srgb_profile_ids.
Definition SRGB_BAD_CRCS : list (Z * Z) := SrcConsts.src_srgb_bad_crcs.

(* pub fn srgb_rendering_intent(icc_data) -> Option<u8> *)
Definition srgb_rendering_intent (icc : list Z) : option Z :=
  match nth_error icc 67 with
  | None => None
  | Some intent =>
      if (length icc <? 100)%nat then None else
      let id := firstn 16 (skipn 84 icc) in
      if existsb (list_eqb Z.eqb id) SRGB_PROFILE_IDS then Some intent
      else if forallb (fun b => b =? 0) id then
        (if existsb (fun cl : Z * Z => (fst cl =? crc32 icc) && (snd cl =? lenZ icc)) SRGB_BAD_CRCS
         then Some intent else None)
      else None
  end.

Definition has_chunk (name : cname) (l : list chunk) : bool := existsb (fun c => cname_eqb (c_name c) name) l.

Fixpoint chunk_position (name : cname) (l : list chunk) (i : nat) : option nat :=
  match l with
  | [] => None
  | c :: t => if cname_eqb (c_name c) name then Some i else chunk_position name t (S i)
  end.

Definition remove_nth_chunk (n : nat) (l : list chunk) : list chunk := firstn n l ++ skipn (S n) l.

(* pub fn preprocess_chunks(aux_chunks, opts) *)
Definition preprocess_chunks (e : env) (aux : list chunk) (o : options) : list chunk * options :=
  let has_srgb := has_chunk name_sRGB aux in
  let allow_gray0 := negb has_srgb || negb (strip_is_none (strip o)) in
  let '(aux1, allow_gray) :=
    match chunk_position name_iCCP aux O with
    | None => (aux, allow_gray0)
    | Some idx =>
        let may_replace := negb (strip_is_none (strip o)) && strip_keep (strip o) name_sRGB in
        if may_replace && has_srgb then (remove_nth_chunk idx aux, true)
        else
          match nth_error aux idx with
          | None => (aux, false)
          | Some iccp =>
              match extract_icc e iccp with
              | None => (aux, false)
              | Some icc =>
                  let intent := if may_replace then srgb_rendering_intent icc else None in
                  match intent with
                  | Some i => (set_nth idx {| c_name := name_sRGB; c_data := [i] |} aux, true)
                  | None =>
                      if idat_recoding o then
                        let cur_len := lenZ (c_data iccp) in
                        match make_iccp e icc (deflate o) (Some (cur_len - 1)) with
                        | Ok n => (set_nth idx n aux, false)
                        | _ => (aux, false)
                        end
                      else (aux, false)
                  end
              end
          end
    end in
  let o1 := if negb allow_gray && grayscale_reduction o
            then set_reductions o (interlace o) (bit_depth_reduction o) (color_type_reduction o) (palette_reduction o) false
            else o in
  let o2 := if has_chunk name_acTL aux1
            then set_reductions o1 None false false false false
            else o1 in
  (aux1, o2).

(* pub fn postprocess_chunks(aux_chunks, ihdr, orig_ihdr) *)
Definition postprocess_chunks (aux : list chunk) (hd orig : ihdr) : list chunk :=
  let aux1 :=
    if negb (depth orig =? depth hd) || negb (color_type_eqb (ctype orig) (ctype hd))
    then List.filter (fun c => negb (cname_eqb (c_name c) name_bKGD || cname_eqb (c_name c) name_sBIT || cname_eqb (c_name c) name_hIST)) aux
    else aux in
  if negb (Bool.eqb (is_gray (ctype orig)) (is_gray (ctype hd)))
  then List.filter (fun c => negb (cname_eqb (c_name c) name_sRGB || cname_eqb (c_name c) name_iCCP)) aux1
  else aux1.

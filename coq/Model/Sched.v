(* MODEL of the collector / task protocol of src/evaluate.rs (parallel build):
     try_image_with_description : nth.fetch_add; eval_send.clone(); rayon::spawn(task)
     task                       : executed.fetch_add; for each filter { trial; maybe send }; drop(sender clone)
     get_best_candidate         : drop(eval_send); while executed < nth { rayon::yield_local() }; recv until disconnected
   as a labelled transition system whose moves are taken by the caller, by the tasks and by the
   ENVIRONMENT (rayon starting a spawned job on some worker, or on the caller inside yield_local).
   Written from the Rust source. Executable; no proofs. *)
From OxiVerif Require Import Base.Common.

Inductive cphase :=
| CSubmit (remaining : nat)   (* the caller is still submitting images (perform_reductions / perform_trials) *)
| CSpin                       (* sender dropped; `while executed < nth { yield_local() }` *)
| CRecv                       (* `eval_recv.into_iter()`: blocks until a message arrives or every sender is gone *)
| CDone.

Inductive tstate :=
| TSpawned                    (* rayon::spawn called, closure not yet started *)
| TRunning (k : nat)          (* started; k filter trials left *)
| TFinished.                  (* closure returned: its Sender clone is dropped *)

Record sstate := {
  cph : cphase;
  tasks : list tstate;
  s_nth : nat;        (* self.nth *)
  s_executed : nat;   (* self.executed *)
  senders : nat;      (* live Sender handles of the channel *)
  queue : nat;        (* messages in the channel *)
  recvd : nat         (* messages taken out by the caller *)
}.

Inductive sevent :=
| ESubmit                          (* caller: try_image *)
| EDropSender                      (* caller: get_best_candidate begins *)
| EStart (i : nat) (by_caller : bool)   (* environment: task i begins to run, on a worker or inside the caller's yield_local *)
| ETrial (i : nat) (sends : bool)  (* task i: one filter trial; it sends a candidate or not *)
| EFinish (i : nat)                (* task i: closure returns *)
| ESpinExit                        (* caller: observes executed >= nth *)
| ERecv                            (* caller: takes one message *)
| ERecvEnd.                        (* caller: channel empty and disconnected *)

(* where the call is made *)
Record scfg := {
  n_filters : nat;          (* trials per task = opts.filter.len() (at least one) *)
  caller_is_worker : bool;  (* the calling thread belongs to the pool rayon::spawn targets: yield_local can run jobs *)
  others : bool             (* some other worker of that pool can (eventually) pick up a spawned job *)
}.

Definition sstep (c : scfg) (s : sstate) (e : sevent) : option sstate :=
  match e with
  | ESubmit =>
      match cph s with
      | CSubmit (S m) => Some {| cph := CSubmit m; tasks := tasks s ++ [TSpawned]; s_nth := S (s_nth s); s_executed := s_executed s;
                                 senders := S (senders s); queue := queue s; recvd := recvd s |}
      | _ => None
      end
  | EDropSender =>
      match cph s with
      | CSubmit O => Some {| cph := CSpin; tasks := tasks s; s_nth := s_nth s; s_executed := s_executed s;
                             senders := pred (senders s); queue := queue s; recvd := recvd s |}
      | _ => None
      end
  | EStart i by_caller =>
      let allowed := if by_caller then caller_is_worker c && match cph s with CSpin => true | _ => false end else others c in
      match nth_error (tasks s) i with
      | Some TSpawned =>
          if allowed then Some {| cph := cph s; tasks := set_nth i (TRunning (n_filters c)) (tasks s); s_nth := s_nth s;
                                  s_executed := S (s_executed s); senders := senders s; queue := queue s; recvd := recvd s |}
          else None
      | _ => None
      end
  | ETrial i sends =>
      match nth_error (tasks s) i with
      | Some (TRunning (S k)) => Some {| cph := cph s; tasks := set_nth i (TRunning k) (tasks s); s_nth := s_nth s; s_executed := s_executed s;
                                         senders := senders s; queue := if sends then S (queue s) else queue s; recvd := recvd s |}
      | _ => None
      end
  | EFinish i =>
      match nth_error (tasks s) i with
      | Some (TRunning O) => Some {| cph := cph s; tasks := set_nth i TFinished (tasks s); s_nth := s_nth s; s_executed := s_executed s;
                                     senders := pred (senders s); queue := queue s; recvd := recvd s |}
      | _ => None
      end
  | ESpinExit =>
      match cph s with
      | CSpin => if (s_nth s <=? s_executed s)%nat
                 then Some {| cph := CRecv; tasks := tasks s; s_nth := s_nth s; s_executed := s_executed s;
                              senders := senders s; queue := queue s; recvd := recvd s |}
                 else None
      | _ => None
      end
  | ERecv =>
      match cph s, queue s with
      | CRecv, S q => Some {| cph := CRecv; tasks := tasks s; s_nth := s_nth s; s_executed := s_executed s;
                              senders := senders s; queue := q; recvd := S (recvd s) |}
      | _, _ => None
      end
  | ERecvEnd =>
      match cph s, queue s, senders s with
      | CRecv, O, O => Some {| cph := CDone; tasks := tasks s; s_nth := s_nth s; s_executed := s_executed s;
                               senders := 0; queue := 0; recvd := recvd s |}
      | _, _, _ => None
      end
  end.

Fixpoint srun (c : scfg) (s : sstate) (es : list sevent) : option sstate :=
  match es with
  | [] => Some s
  | e :: t => match sstep c s e with Some s' => srun c s' t | None => None end
  end.

(* Evaluator::new: the evaluator itself holds one Sender *)
Definition sinit (images : nat) : sstate :=
  {| cph := CSubmit images; tasks := []; s_nth := 0; s_executed := 0; senders := 1; queue := 0; recvd := 0 |}.

(* index of the first task in a given class, for the enabledness witness *)
Fixpoint find_task (p : tstate -> bool) (l : list tstate) : option nat :=
  match l with [] => None | t :: r => if p t then Some O else option_map S (find_task p r) end.

Definition is_spawned (t : tstate) : bool := match t with TSpawned => true | _ => false end.
Definition is_running (t : tstate) : bool := match t with TRunning _ => true | _ => false end.

(* an event that is enabled in s, if there is one (the witness function of `no stuck state`) *)
Definition some_enabled (c : scfg) (s : sstate) : option sevent :=
  match cph s with
  | CSubmit (S _) => Some ESubmit
  | CSubmit O => Some EDropSender
  | CSpin =>
      if (s_nth s <=? s_executed s)%nat then Some ESpinExit
      else match find_task is_spawned (tasks s) with
           | Some i => if caller_is_worker c then Some (EStart i true) else if others c then Some (EStart i false) else None
           | None => None
           end
  | CRecv =>
      match queue s with
      | S _ => Some ERecv
      | O => match find_task is_running (tasks s) with
             | Some i => match nth_error (tasks s) i with
                         | Some (TRunning (S _)) => Some (ETrial i false)
                         | _ => Some (EFinish i)
                         end
             | None => Some ERecvEnd
             end
      end
  | CDone => None
  end.

(* the variant WITHOUT the wait for `executed >= nth` (what the comment in the source warns about):
   the caller goes from dropping its sender straight to the blocking receive *)
Definition sstep_nospin (c : scfg) (s : sstate) (e : sevent) : option sstate :=
  match e with
  | ESpinExit => match cph s with
                 | CSpin => Some {| cph := CRecv; tasks := tasks s; s_nth := s_nth s; s_executed := s_executed s;
                                    senders := senders s; queue := queue s; recvd := recvd s |}
                 | _ => None end
  | EStart i true => None       (* no yield_local: the caller never runs a spawned job *)
  | _ => sstep c s e
  end.

(* termination measure *)
Definition task_mu (c : scfg) (t : tstate) : nat :=
  match t with TSpawned => 2 * n_filters c + 2 | TRunning k => 2 * k + 1 | TFinished => 0 end.
Definition phase_mu (c : scfg) (p : cphase) : nat :=
  match p with CSubmit m => 3 + m * (2 * n_filters c + 3) | CSpin => 2 | CRecv => 1 | CDone => 0 end.
Definition mu (c : scfg) (s : sstate) : nat :=
  phase_mu c (cph s) + list_sum (map (task_mu c) (tasks s)) + queue s.

(* keep taking the witness move *)
Fixpoint drive (c : scfg) (fuel : nat) (s : sstate) : sstate :=
  match fuel with
  | O => s
  | S f => match some_enabled c s with
           | Some e => match sstep c s e with Some s' => drive c f s' | None => s end
           | None => s
           end
  end.

(* MODEL of src/reduction/color.rs and src/reduction/alpha.rs.
   Written from the Rust source. Executable; no proofs. *)
From OxiVerif Require Import Base.Common Model.Types Model.ScanLines.
From OxiVerif Require Gen.SrcConsts.

Definition INDEXED_MAX_DIFF : Z := SrcConsts.src_indexed_max_diff.

(* ------------------------------------------------------------------ insertion-ordered set (IndexSet) *)
Fixpoint index_of {A} (eqb : A -> A -> bool) (x : A) (l : list A) (i : nat) : option nat :=
  match l with
  | [] => None
  | a :: t => if eqb a x then Some i else index_of eqb x t (S i)
  end.

(* insert_full: returns (index, set'); the set is kept in reverse insertion order together with
   its size so that insertion is O(1) and lookup O(n) *)
Definition insert_full {A} (eqb : A -> A -> bool) (x : A) (set : list A * nat) : nat * (list A * nat) :=
  let '(rev_items, n) := set in
  match index_of eqb x rev_items O with
  | Some j => ((n - 1 - j)%nat, set)
  | None => (n, (x :: rev_items, S n))
  end.

(* fn build_palette: None when a 257th distinct colour appears *)
Fixpoint build_palette {A} (eqb : A -> A -> bool) (pixels : list A) (set : list A * nat) (rev_data : list Z)
  : option (list A * list Z) :=
  match pixels with
  | [] => Some (rev (fst set), rev rev_data)
  | px :: t =>
      let '(idx, set') := insert_full eqb px set in
      if (idx =? 256)%nat then None
      else build_palette eqb t set' (Z.of_nat idx :: rev_data)
  end.

Definition list_Z_eqb := list_eqb Z.eqb.

(* pub fn reduced_to_indexed *)
Definition reduced_to_indexed (img : image) (allow_grayscale : bool) : option image :=
  let h := hdr img in
  if negb (depth h =? 8) then None else
  if is_indexed (ctype h) then None else
  if negb allow_grayscale && is_gray (ctype h) then None else
  let pixels := chunks_exact (Z.to_nat (channels img)) (data img) in
  match build_palette list_Z_eqb pixels ([], O) [] with
  | None => None
  | Some (pmap, raw) =>
      let palette : list rgba8 :=
        match ctype h with
        | Gray key =>
            let tp := match key with Some t => Some (t mod 256) | None => None end in
            map (fun px => match px with
                           | [g] => (g, g, g, if opt_eqb Z.eqb (Some g) tp then 0 else 255)
                           | _ => (0, 0, 0, 255) end) pmap
        | RGB key =>
            let tp := match key with Some (r, g, b) => Some (r mod 256, g mod 256, b mod 256) | None => None end in
            map (fun px => match px with
                           | [r; g; b] => (r, g, b, if opt_eqb rgb16_eqb (Some (r, g, b)) tp then 0 else 255)
                           | _ => (0, 0, 0, 255) end) pmap
        | GrayAlpha => map (fun px => match px with [g; a] => (g, g, g, a) | _ => (0, 0, 0, 255) end) pmap
        | RGBA => map (fun px => match px with [r; g; b; a] => (r, g, b, a) | _ => (0, 0, 0, 255) end) pmap
        | Indexed _ => []
        end in
      Some {| hdr := with_ctype h (Indexed palette); data := raw |}
  end.

(* pub fn reduced_rgb_to_grayscale *)
Definition reduced_rgb_to_grayscale (img : image) : option image :=
  let h := hdr img in
  if negb (is_rgb (ctype h)) then None else
  let bd := Z.to_nat (bytes_per_channel img) in
  let bpp := (Z.to_nat (channels img) * bd)%nat in
  let pixels := chunks_exact bpp (data img) in
  let gray_px (px : list Z) : bool :=
    list_Z_eqb (firstn bd px) (firstn bd (skipn bd px)) && list_Z_eqb (firstn bd (skipn bd px)) (firstn bd (skipn (2 * bd) px)) in
  if negb (forallb gray_px pixels) then None else
  let ct := match ctype h with
            | RGB key => Gray (match key with
                               | Some (r, g, b) => if (r =? g) && (g =? b) then Some r else None
                               | None => None end)
            | _ => GrayAlpha
            end in
  Some {| hdr := with_ctype h ct; data := flat_map (fun px => skipn (2 * bd) px) pixels |}.

(* pub fn indexed_to_channels *)
Definition indexed_to_channels (img : image) (allow_grayscale optimize_alpha : bool) : option image :=
  let h := hdr img in
  if negb (depth h =? 8) then None else
  match ctype h with
  | Indexed pal0 =>
      let pal := if optimize_alpha
                 then map (fun c : rgba8 => let '(r, g, b, a) := c in if a =? 0 then (0, 0, 0, a) else c) pal0
                 else pal0 in
      let is_g := if allow_grayscale
                  then forallb (fun c : rgba8 => let '(r, g, b, _) := c in (r =? g) && (g =? b)) pal else false in
      let has_a := existsb (fun c : rgba8 => let '(_, _, _, a) := c in negb (a =? 255)) pal in
      let ct := match is_g, has_a with
                | false, true => RGBA
                | false, false => RGB None
                | true, true => GrayAlpha
                | true, false => Gray None
                end in
      let out_size := channels_per_pixel ct * lenZ (data img) in
      if INDEXED_MAX_DIFF <? out_size - lenZ (data img) then None else
      let conv (b : Z) : list Z :=
        let '(r, g, bl, a) := nth (Z.to_nat b) pal (0, 0, 0, 255) in
        (if is_g then [bl] else [r; g; bl]) ++ (if has_a then [a] else []) in
      Some {| hdr := with_ctype h ct; data := flat_map conv (data img) |}
  | _ => None
  end.

(* ------------------------------------------------------------------ alpha.rs *)
Definition all_eq (v : Z) (l : list Z) : bool := forallb (fun b => b =? v) l.

(* pub fn cleaned_alpha_channel *)
Definition cleaned_alpha_channel (img : image) : option image :=
  let h := hdr img in
  if negb (has_alpha (ctype h)) then None else
  let bd := Z.to_nat (bytes_per_channel img) in
  let bpp := (Z.to_nat (channels img) * bd)%nat in
  let colored := (bpp - bd)%nat in
  Some {| hdr := h;
          data := flat_map (fun px => if all_eq 0 (skipn colored px) then repeat 0 bpp else px)
                           (chunks_exact bpp (data img)) |}.

Inductive scan_result := SRFail | SRok (has_transparency : bool) (used : list bool).

Fixpoint alpha_scan (optimize_alpha : bool) (colored : nat) (pixels : list (list Z)) (ht : bool) (used : list bool) : scan_result :=
  match pixels with
  | [] => SRok ht used
  | px :: t =>
      let alpha := skipn colored px in
      if optimize_alpha && all_eq 0 alpha then alpha_scan optimize_alpha colored t true used
      else if existsb (fun b => negb (b =? 255)) alpha then SRFail
      else match px with
           | p0 :: _ =>
               if optimize_alpha && all_eq p0 (firstn colored px)
               then alpha_scan optimize_alpha colored t ht (set_nth (Z.to_nat p0) true used)
               else alpha_scan optimize_alpha colored t ht used
           | [] => alpha_scan optimize_alpha colored t ht used
           end
  end.

Fixpoint first_unused (used : list bool) (i : Z) : option Z :=
  match used with [] => None | u :: t => if u then first_unused t (i + 1) else Some i end.

(* pub fn reduced_alpha_channel *)
Definition reduced_alpha_channel (img : image) (optimize_alpha : bool) : option image :=
  let h := hdr img in
  if negb (has_alpha (ctype h)) then None else
  let bd := Z.to_nat (bytes_per_channel img) in
  let bpp := (Z.to_nat (channels img) * bd)%nat in
  let colored := (bpp - bd)%nat in
  let pixels := chunks_exact bpp (data img) in
  match alpha_scan optimize_alpha colored pixels false (repeat false 256) with
  | SRFail => None
  | SRok ht used =>
      let tp : option (option Z) :=     (* None = `unused?` failed *)
        if ht then
          let pref := match ctype h with
                      | GrayAlpha => find (fun v => negb (nth (Z.to_nat v) used true)) [0; 255; 85; 170]
                      | _ => None
                      end in
          match pref with
          | Some v => Some (Some v)
          | None => match first_unused used 0 with Some v => Some (Some v) | None => None end
          end
        else Some None in
      match tp with
      | None => None
      | Some trns =>
          let raw := flat_map (fun px =>
                         match trns with
                         | Some t => if all_eq 0 (skipn colored px) then repeat t colored else firstn colored px
                         | None => firstn colored px
                         end) pixels in
          let transparent := match trns with
                             | Some t => Some (if depth h =? 16 then t * 256 + t else t)
                             | None => None
                             end in
          let ct := match ctype h with
                    | GrayAlpha => Gray transparent
                    | _ => RGB (match transparent with Some t => Some (t, t, t) | None => None end)
                    end in
          Some {| hdr := with_ctype h ct; data := raw |}
      end
  end.

(* MODEL of `optimize` in src/lib.rs (and PngData::read_file) as a program over an abstract file
   system with a fault plan. Apart from faults the control flow is determined by the file system and
   by what the optimiser returns, so the program is given as a PLAN (the operations it performs in
   order, each with its effect, and the outcome if none of them fails) and a generic executor that
   applies a fault plan: the k-th operation fails with an I/O error, or the process is killed at it.
   Written from the Rust source. Executable. *)
From OxiVerif Require Import Base.Common.

Definition path := Z.                    (* abstract file names *)

Record file := { f_content : list Z; f_mode : Z; f_mtime : Z; f_atime : Z }.
Definition fsys := list (path * file).   (* association list: a path maps to its first entry *)

Fixpoint lookup (fs : fsys) (p : path) : option file :=
  match fs with [] => None | (q, f) :: t => if q =? p then Some f else lookup t p end.
Fixpoint remove (fs : fsys) (p : path) : fsys :=
  match fs with [] => [] | (q, f) :: t => if q =? p then remove t p else (q, f) :: remove t p end.
Definition update (fs : fsys) (p : path) (f : file) : fsys := (p, f) :: remove fs p.

Inductive op :=
| OStat (p : path)            (* input_path.metadata() *)
| OOpenRead (p : path)        (* File::open *)
| ORead (p : path)            (* read_exact + read_to_end *)
| OReadStdin
| OCompute                    (* from_slice + optimize_png: no file-system access *)
| OWriteStdout | OFlushStdout
| OCreate (p : path)          (* File::create: creates or truncates *)
| OChmod (p : path)           (* set_permissions *)
| OWrite (p : path) | OFlush (p : path) | OClose (p : path)
| OUtimes (p : path).         (* filetime::set_file_times *)

Inductive io_in := IPath (p : path) | IStdin.
Inductive io_out := ONone | OStdout | OPath (p : option path) (preserve : bool).

Inductive fault := NoFault | FailAt (k : nat) | KillAt (k : nat).
Inductive outcome := Done_ok | Done_err | Killed.

(* the world an operation acts on: the file system and what has been written to standard output *)
Definition world : Type := (fsys * list Z)%type.
Record pop := { p_op : op; p_eff : world -> world }.
Definition noeff (o : op) : pop := {| p_op := o; p_eff := fun w => w |}.

Record io_run := { r_trace : list op; r_world : world; r_result : outcome }.

(* generic executor: a failed or killed operation has no effect *)
Fixpoint exec (flt : fault) (k : nat) (ops : list pop) (final : outcome) (w : world) (tr : list op) : io_run :=
  match ops with
  | [] => {| r_trace := tr; r_world := w; r_result := final |}
  | o :: t =>
      match flt with
      | KillAt n => if (n =? k)%nat then {| r_trace := tr ++ [p_op o]; r_world := w; r_result := Killed |}
                    else exec flt (S k) t final (p_eff o w) (tr ++ [p_op o])
      | FailAt n => if (n =? k)%nat then {| r_trace := tr ++ [p_op o]; r_world := w; r_result := Done_err |}
                    else exec flt (S k) t final (p_eff o w) (tr ++ [p_op o])
      | NoFault => exec flt (S k) t final (p_eff o w) (tr ++ [p_op o])
      end
  end.

(* the optimiser as seen from `optimize`: error, or the bytes to write and whether
   is_fully_optimized holds for them *)
Inductive computed := CErr | COut (bytes : list Z) (fully_optimized : bool).

Section Prog.
Variable compute : list Z -> computed.
Variable stdin_data : list Z.
Variable now : Z.            (* time stamp given to files that are written *)

Definition eff_create (p : path) : world -> world := fun w =>
  let old := lookup (fst w) p in
  (update (fst w) p {| f_content := []; f_mode := match old with Some f => f_mode f | None => 420 end; f_mtime := now; f_atime := now |}, snd w).
Definition eff_chmod (p : path) (src : file) : world -> world := fun w =>
  match lookup (fst w) p with
  | Some g => (update (fst w) p {| f_content := f_content g; f_mode := f_mode src; f_mtime := f_mtime g; f_atime := f_atime g |}, snd w)
  | None => w end.
Definition eff_write (p : path) (bytes : list Z) : world -> world := fun w =>
  match lookup (fst w) p with
  | Some g => (update (fst w) p {| f_content := bytes; f_mode := f_mode g; f_mtime := now; f_atime := now |}, snd w)
  | None => w end.
Definition eff_utimes (p : path) (src : file) : world -> world := fun w =>
  match lookup (fst w) p with
  | Some g => (update (fst w) p {| f_content := f_content g; f_mode := f_mode g; f_mtime := f_mtime src; f_atime := f_atime src |}, snd w)
  | None => w end.
Definition eff_stdout (bytes : list Z) : world -> world := fun w => (fst w, snd w ++ bytes).

(* the read phase: operations and the bytes read (None = the input cannot be opened) *)
Definition read_plan (fs : fsys) (inp : io_in) (preserve : bool) : list pop * option (list Z) :=
  match inp with
  | IStdin => ([noeff OReadStdin], Some stdin_data)
  | IPath p =>
      match lookup fs p with
      | None => (if preserve then [noeff (OStat p)] else [noeff (OOpenRead p)], None)
      | Some f => ((if preserve then [noeff (OStat p)] else []) ++ [noeff (OOpenRead p); noeff (ORead p)], Some (f_content f))
      end
  end.

(* the write phase for a file destination. Closing the file is not an operation of the plan: the
   result of close() is discarded by the Rust standard library, so its failure cannot be reported. *)
Definition file_plan (p : path) (src : option file) (preserve : bool) (bytes : list Z) : list pop :=
  [{| p_op := OCreate p; p_eff := eff_create p |}]
  ++ match src, preserve with Some f, true => [{| p_op := OChmod p; p_eff := eff_chmod p f |}] | _, _ => [] end
  ++ [{| p_op := OWrite p; p_eff := eff_write p bytes |}; noeff (OFlush p)]
  ++ match src, preserve with Some f, true => [{| p_op := OUtimes p; p_eff := eff_utimes p f |}] | _, _ => [] end.

Definition stdout_plan (bytes : list Z) : list pop :=
  [{| p_op := OWriteStdout; p_eff := eff_stdout bytes |}; noeff OFlushStdout].

(* what happens after the computation *)
Definition write_plan (fs : fsys) (inp : io_in) (outp : io_out) (in_data : list Z) : list pop * outcome :=
  let preserve := match outp with OPath _ true => true | _ => false end in
  match compute in_data with
  | CErr => ([], Done_err)
  | COut out fo =>
      let same_as_input := match outp, inp with
                           | OPath None _, IPath _ => true
                           | OPath (Some p) _, IPath q => p =? q
                           | _, _ => false
                           end in
      if fo && same_as_input then ([], Done_ok) else
      let bytes := if fo then in_data else out in
      match outp, inp with
      | ONone, _ => ([], Done_ok)
      | OStdout, _ => (stdout_plan bytes, Done_ok)
      | OPath None _, IStdin => (stdout_plan bytes, Done_ok)
      | OPath (Some p) _, IPath q => (file_plan p (lookup fs q) preserve bytes, Done_ok)
      | OPath (Some p) _, IStdin => (file_plan p None preserve bytes, Done_ok)
      | OPath None _, IPath q => (file_plan q (lookup fs q) preserve bytes, Done_ok)
      end
  end.

Definition plan (fs : fsys) (inp : io_in) (outp : io_out) : list pop * outcome :=
  let preserve := match outp with OPath _ true => true | _ => false end in
  let '(reads, data) := read_plan fs inp preserve in
  match data with
  | None => (reads, Done_err)
  | Some in_data =>
      let '(writes, final) := write_plan fs inp outp in_data in
      (reads ++ [noeff OCompute] ++ writes, final)
  end.

Definition optimize_io (flt : fault) (fs : fsys) (inp : io_in) (outp : io_out) : io_run :=
  let '(ops, final) := plan fs inp outp in exec flt O ops final (fs, []) [].
End Prog.

(* MODEL of src/reduction/mod.rs: perform_reductions. The images handed to the evaluator and the
   consultations of the clock are returned as an event list (in program order).
   Written from the Rust source. Executable; no proofs. *)
From OxiVerif Require Import Base.Common Model.Types Model.Options Model.ScanLines Model.Interlace
  Model.BitDepth Model.Color Model.Palette.

Inductive rd_event :=
| EvSite (s : site) (passed : bool)       (* deadline.passed() consulted at s *)
| EvSubmit (img : image) (desc : Z).      (* eval.try_image…(img): 0 plain, 1 luma, 2 battiato, 3 mzeng *)

Record rd_state := {
  r_png : image; r_baseline : image;
  r_same : bool;                 (* Arc::ptr_eq(&png, &baseline) *)
  r_added : bool;                (* evaluation_added *)
  r_indexed : option image;      (* the `indexed` variable *)
  r_events : list rd_event       (* reversed *)
}.

Definition is_cheap (o : options) : bool :=
  match deflate o with Libdeflater c => (c <? 12) && fast_evaluation o | _ => false end.

Definition log_site (st : rd_state) (s : site) (p : bool) : rd_state :=
  {| r_png := r_png st; r_baseline := r_baseline st; r_same := r_same st; r_added := r_added st;
     r_indexed := r_indexed st; r_events := EvSite s p :: r_events st |}.

(* `flag && !deadline.passed()`: the clock is consulted only when flag holds *)
Definition guard (e : env) (flag : bool) (s : site) (st : rd_state) : bool * rd_state :=
  if flag then let p := dl e s in (negb p, log_site st s p) else (false, st).

Definition set_png (st : rd_state) (p : image) (same : bool) : rd_state :=
  {| r_png := p; r_baseline := r_baseline st; r_same := same; r_added := r_added st;
     r_indexed := r_indexed st; r_events := r_events st |}.
Definition set_baseline (st : rd_state) (b : image) (same : bool) : rd_state :=
  {| r_png := r_png st; r_baseline := b; r_same := same; r_added := r_added st;
     r_indexed := r_indexed st; r_events := r_events st |}.
Definition set_indexed (st : rd_state) (i : option image) : rd_state :=
  {| r_png := r_png st; r_baseline := r_baseline st; r_same := r_same st; r_added := r_added st;
     r_indexed := i; r_events := r_events st |}.
Definition submit (st : rd_state) (img : image) (desc : Z) : rd_state :=
  {| r_png := r_png st; r_baseline := r_baseline st; r_same := r_same st; r_added := true;
     r_indexed := r_indexed st; r_events := EvSubmit img desc :: r_events st |}.

Definition palette_of (img : image) : option (list rgba8) :=
  match ctype (hdr img) with Indexed p => Some p | _ => None end.
Definition pal_eqb := list_eqb rgba8_eqb.

(* ---- the blocks of perform_reductions, in program order ---- *)

(* Interlacing must be processed first *)
Definition s_interlace (o : options) (png0 : image) : res rd_state :=
  do png <- match interlace o with
            | Some il => do r <- change_interlacing png0 il; Ok (match r with Some x => x | None => png0 end)
            | None => Ok png0
            end;
  Ok {| r_png := png; r_baseline := png; r_same := true; r_added := false; r_indexed := None; r_events := [] |}.

Definition s_clean_alpha (e : env) (o : options) (st : rd_state) : res rd_state :=
  let '(go, st) := guard e (optimize_alpha o) SCleanAlpha st in
  Ok (if go then match cleaned_alpha_channel (r_png st) with Some x => set_png st x true | None => st end else st).

Definition s_16_to_8 (e : env) (o : options) (st : rd_state) : res rd_state :=
  let '(go, st) := guard e (bit_depth_reduction o) S16to8 st in
  Ok (if go then match reduced_bit_depth_16_to_8 (r_png st) (scale_16 o) with Some x => set_png st x true | None => st end else st).

Definition s_rgb_gray (e : env) (o : options) (st : rd_state) : res rd_state :=
  let '(go, st) := guard e (color_type_reduction o && grayscale_reduction o) SRgbGray st in
  Ok (if go then match reduced_rgb_to_grayscale (r_png st) with Some x => set_png st x true | None => st end else st).

Definition s_expand (e : env) (o : options) (st : rd_state) : res rd_state :=
  let '(go, st) := guard e (bit_depth_reduction o) SExpand st in
  if go then do r <- expanded_bit_depth_to_8 (r_png st);
             Ok (match r with Some x => set_png st x true | None => st end)
  else Ok st.

(* "Now retain the current png for the evaluator baseline" *)
Definition s_baseline (st : rd_state) : res rd_state := Ok (set_baseline st (r_png st) true).

Definition s_palette (e : env) (o : options) (st : rd_state) : res rd_state :=
  let '(go, st) := guard e (palette_reduction o) SPalette st in
  if go then
    let st := match reduced_palette (r_png st) (optimize_alpha o) with
              | Some x => if list_eqb Z.eqb (data x) (data (r_baseline st))
                          then set_baseline (set_png st x true) x true
                          else set_png st x false
              | None => st
              end in
    do r <- sorted_palette (r_png st);
    let st := match r with Some x => set_png st x false | None => st end in
    Ok (if negb (r_same st) then submit st (r_png st) 1 else st)
  else Ok st.

Definition s_alpha (e : env) (o : options) (st : rd_state) : res rd_state :=
  let '(go, st) := guard e (color_type_reduction o) SAlphaRed st in
  if go then
    match reduced_alpha_channel (r_png st) (optimize_alpha o) with
    | Some x =>
        let diff := lenZ (data (r_baseline st)) - lenZ (data x) in
        if has_trns (ctype (hdr x)) then
          (if diff <? 0 then Panic POverflow
           else if diff <=? 1000 then Ok (submit (set_png st x false) x 0)
           else Ok (set_baseline (set_png st x true) x true))
        else Ok (set_baseline (set_png st x true) x true)
    | None => Ok st
    end
  else Ok st.

Definition s_to_channels (e : env) (o : options) (st : rd_state) : res rd_state :=
  let '(go, st) := guard e (negb (is_cheap o) && color_type_reduction o) SToChannels st in
  Ok (if go then match indexed_to_channels (r_png st) (grayscale_reduction o) (optimize_alpha o) with
                 | Some x => submit st x 0 | None => st end else st).

Definition s_to_indexed (e : env) (o : options) (st : rd_state) : res rd_state :=
  let '(go, st) := guard e (color_type_reduction o) SToIndexed st in
  if go then
    match reduced_to_indexed (r_png st) (grayscale_reduction o) with
    | Some red =>
        do sp <- sorted_palette red;
        let new := match sp with Some x => x | None => red end in
        let diff := lenZ (data (r_png st)) - lenZ (data new) in
        if diff <? 0 then Panic POverflow
        else if diff <=? INDEXED_MAX_DIFF then Ok (set_indexed (submit st new 1) (Some new))
        else Ok (set_indexed (set_baseline st new false) (Some new))
    | None => Ok st
    end
  else Ok st.

Definition s_sorts (e : env) (o : options) (st : rd_state) : res rd_state :=
  if negb (is_cheap o) && palette_reduction o then
    let palettes := match palette_of (r_baseline st) with Some p => [p] | None => [] end in
    let input := match r_indexed st with Some i => i | None => r_png st end in
    let '(go, st) := guard e true SBattiato st in
    do r1 <- (if go then
                do r <- sorted_palette_battiato input;
                match r with
                | Some red =>
                    match palette_of red with
                    | Some p => if existsb (pal_eqb p) palettes then Ok (st, palettes)
                                else Ok (submit st red 2, palettes ++ [p])
                    | None => Ok (st, palettes)
                    end
                | None => Ok (st, palettes)
                end
              else Ok (st, palettes));
    let '(st, palettes) := r1 in
    let '(go, st) := guard e true SMzeng st in
    if go then
      do r <- sorted_palette_mzeng input;
      match r with
      | Some red =>
          match palette_of red with
          | Some p => if existsb (pal_eqb p) palettes then Ok st else Ok (submit st red 3)
          | None => Ok st
          end
      | None => Ok st
      end
    else Ok st
  else Ok st.

Definition s_depth (e : env) (o : options) (st : rd_state) : res rd_state :=
  let '(go, st) := guard e (bit_depth_reduction o) SDepthA st in
  if go then
    do reduced <- reduced_bit_depth_8_or_less (r_png st);
    let '(go2, st) := guard e (negb (is_cheap o) || match reduced with None => true | _ => false end) SDepthB st in
    do st <- (if go2 then
                match r_indexed st with
                | Some ix =>
                    do ri <- reduced_bit_depth_8_or_less ix;
                    match ri with
                    | Some x =>
                        if match reduced with
                           | Some r0 => negb (list_eqb Z.eqb (data r0) (data x))
                           | None => true end
                        then Ok (submit st x 0) else Ok st
                    | None => Ok st
                    end
                | None => Ok st
                end
              else Ok st);
    Ok (match reduced with Some r0 => submit st r0 0 | None => st end)
  else Ok st.

Definition s_final (st : rd_state) : res rd_state :=
  Ok (if r_added st then submit st (r_baseline st) 0 else st).

(* the blocks after interlacing, composed *)
Definition reduction_steps (e : env) (o : options) : list (rd_state -> res rd_state) :=
  [s_clean_alpha e o; s_16_to_8 e o; s_rgb_gray e o; s_expand e o; s_baseline;
   s_palette e o; s_alpha e o; s_to_channels e o; s_to_indexed e o; s_sorts e o; s_depth e o; s_final].

Fixpoint run_steps (steps : list (rd_state -> res rd_state)) (st : rd_state) : res rd_state :=
  match steps with
  | [] => Ok st
  | f :: t => do st' <- f st; run_steps t st'
  end.

(* pub(crate) fn perform_reductions(png, opts, deadline, eval) -> baseline, with the event log *)
Definition perform_reductions (e : env) (o : options) (png0 : image) : res (image * list rd_event) :=
  do st0 <- s_interlace o png0;
  do st <- run_steps (reduction_steps e o) st0;
  Ok (r_baseline st, rev (r_events st)).

(* MODEL of src/reduction/mod.rs: perform_reductions. The images handed to the evaluator and the
   consultations of the clock are returned as an event list (in program order).
   Written from the Rust source. Executable; no proofs. *)
From OxiVerif Require Import Base.Common Model.Types Model.Options Model.ScanLines Model.Interlace
  Model.BitDepth Model.Color Model.Palette.

Inductive rd_event :=
| EvSite (s : site) (passed : bool)       (* deadline.passed() consulted at s *)
| EvSubmit (img : image) (desc : Z).      (* eval.try_image…(img): 0 plain, 1 luma, 2 battiato, 3 mzeng *)

Record rd_state := {
  r_png : image; r_baseline : image;
  r_same : bool;                 (* Arc::ptr_eq(&png, &baseline) *)
  r_added : bool;                (* evaluation_added *)
  r_events : list rd_event       (* reversed *)
}.

Definition is_cheap (o : options) : bool :=
  match deflate o with Libdeflater c => (c <? 12) && fast_evaluation o | _ => false end.

(* `flag && !deadline.passed()`: the clock is consulted only when flag holds *)
Definition guard (e : env) (flag : bool) (s : site) (st : rd_state) : bool * rd_state :=
  if flag then
    let p := dl e s in
    (negb p, {| r_png := r_png st; r_baseline := r_baseline st; r_same := r_same st; r_added := r_added st;
                r_events := EvSite s p :: r_events st |})
  else (false, st).

Definition set_png (st : rd_state) (p : image) (same : bool) : rd_state :=
  {| r_png := p; r_baseline := r_baseline st; r_same := same; r_added := r_added st; r_events := r_events st |}.
Definition set_baseline (st : rd_state) (b : image) (same : bool) : rd_state :=
  {| r_png := r_png st; r_baseline := b; r_same := same; r_added := r_added st; r_events := r_events st |}.
Definition submit (st : rd_state) (img : image) (desc : Z) : rd_state :=
  {| r_png := r_png st; r_baseline := r_baseline st; r_same := r_same st; r_added := true;
     r_events := EvSubmit img desc :: r_events st |}.

Definition palette_of (img : image) : option (list rgba8) :=
  match ctype (hdr img) with Indexed p => Some p | _ => None end.
Definition pal_eqb := list_eqb rgba8_eqb.

(* pub(crate) fn perform_reductions(png, opts, deadline, eval) -> baseline, with the event log *)
Definition perform_reductions (e : env) (o : options) (png0 : image) : res (image * list rd_event) :=
  let cheap := is_cheap o in
  (* interlacing *)
  do png <- match interlace o with
            | Some il => do r <- change_interlacing png0 il; Ok (match r with Some x => x | None => png0 end)
            | None => Ok png0
            end;
  let st := {| r_png := png; r_baseline := png; r_same := true; r_added := false; r_events := [] |} in
  (* alpha cleaning *)
  let '(go, st) := guard e (optimize_alpha o) SCleanAlpha st in
  let st := if go then match cleaned_alpha_channel (r_png st) with Some x => set_png st x true | None => st end else st in
  (* 16 -> 8 *)
  let '(go, st) := guard e (bit_depth_reduction o) S16to8 st in
  let st := if go then match reduced_bit_depth_16_to_8 (r_png st) (scale_16 o) with Some x => set_png st x true | None => st end else st in
  (* rgb -> gray *)
  let '(go, st) := guard e (color_type_reduction o && grayscale_reduction o) SRgbGray st in
  let st := if go then match reduced_rgb_to_grayscale (r_png st) with Some x => set_png st x true | None => st end else st in
  (* expand to 8 *)
  let '(go, st) := guard e (bit_depth_reduction o) SExpand st in
  do st <- (if go then do r <- expanded_bit_depth_to_8 (r_png st);
                        Ok (match r with Some x => set_png st x true | None => st end)
            else Ok st);
  (* baseline = png *)
  let st := set_baseline st (r_png st) true in
  (* palette *)
  let '(go, st) := guard e (palette_reduction o) SPalette st in
  do st <- (if go then
              let st := match reduced_palette (r_png st) (optimize_alpha o) with
                        | Some x => if list_eqb Z.eqb (data x) (data (r_baseline st))
                                    then set_baseline (set_png st x true) x true
                                    else set_png st x false
                        | None => st
                        end in
              do r <- sorted_palette (r_png st);
              let st := match r with Some x => set_png st x false | None => st end in
              Ok (if negb (r_same st) then submit st (r_png st) 1 else st)
            else Ok st);
  (* alpha removal *)
  let '(go, st) := guard e (color_type_reduction o) SAlphaRed st in
  do st <- (if go then
              match reduced_alpha_channel (r_png st) (optimize_alpha o) with
              | Some x =>
                  let diff := lenZ (data (r_baseline st)) - lenZ (data x) in
                  if has_trns (ctype (hdr x)) then
                    (if diff <? 0 then Panic POverflow
                     else if diff <=? 1000 then Ok (submit (set_png st x false) x 0)
                     else Ok (set_baseline (set_png st x true) x true))
                  else Ok (set_baseline (set_png st x true) x true)
              | None => Ok st
              end
            else Ok st);
  (* indexed -> channels *)
  let '(go, st) := guard e (negb cheap && color_type_reduction o) SToChannels st in
  let st := if go then match indexed_to_channels (r_png st) (grayscale_reduction o) (optimize_alpha o) with
                       | Some x => submit st x 0 | None => st end else st in
  (* -> indexed *)
  let '(go, st) := guard e (color_type_reduction o) SToIndexed st in
  do r <- (if go then
             match reduced_to_indexed (r_png st) (grayscale_reduction o) with
             | Some red =>
                 do sp <- sorted_palette red;
                 let new := match sp with Some x => x | None => red end in
                 let diff := lenZ (data (r_png st)) - lenZ (data new) in
                 if diff <? 0 then Panic POverflow
                 else if diff <=? INDEXED_MAX_DIFF then Ok (submit st new 1, Some new)
                 else Ok (set_baseline st new false, Some new)
             | None => Ok (st, None)
             end
           else Ok (st, None));
  let '(st, indexed) := r in
  (* additional palette sorting *)
  do st <- (if negb cheap && palette_reduction o then
              let palettes := match palette_of (r_baseline st) with Some p => [p] | None => [] end in
              let input := match indexed with Some i => i | None => r_png st end in
              let '(go, st) := guard e true SBattiato st in
              do r1 <- (if go then
                          do r <- sorted_palette_battiato input;
                          match r with
                          | Some red =>
                              match palette_of red with
                              | Some p => if existsb (pal_eqb p) palettes then Ok (st, palettes)
                                          else Ok (submit st red 2, palettes ++ [p])
                              | None => Ok (st, palettes)
                              end
                          | None => Ok (st, palettes)
                          end
                        else Ok (st, palettes));
              let '(st, palettes) := r1 in
              let '(go, st) := guard e true SMzeng st in
              if go then
                do r <- sorted_palette_mzeng input;
                match r with
                | Some red =>
                    match palette_of red with
                    | Some p => if existsb (pal_eqb p) palettes then Ok st else Ok (submit st red 3)
                    | None => Ok st
                    end
                | None => Ok st
                end
              else Ok st
            else Ok st);
  (* lower bit depth *)
  let '(go, st) := guard e (bit_depth_reduction o) SDepthA st in
  do st <- (if go then
              do reduced <- reduced_bit_depth_8_or_less (r_png st);
              let '(go2, st) := guard e (negb cheap || match reduced with None => true | _ => false end) SDepthB st in
              do st <- (if go2 then
                          match indexed with
                          | Some ix =>
                              do ri <- reduced_bit_depth_8_or_less ix;
                              match ri with
                              | Some x =>
                                  if match reduced with
                                     | Some r0 => negb (list_eqb Z.eqb (data r0) (data x))
                                     | None => true end
                                  then Ok (submit st x 0) else Ok st
                              | None => Ok st
                              end
                          | None => Ok st
                          end
                        else Ok st);
              Ok (match reduced with Some r0 => submit st r0 0 | None => st end)
            else Ok st);
  let st := if r_added st then submit st (r_baseline st) 0 else st in
  Ok (r_baseline st, rev (r_events st)).

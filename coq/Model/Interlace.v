(* MODEL of src/interlace.rs: interlace_image, deinterlace_image (bits and bytes variants),
   increment_pass, interlaced_constants, and PngImage::change_interlacing.
   Written from the Rust source at pixel granularity: a pixel is the group of `bpp` bits (or
   bytes-per-pixel bytes) that the Rust loops move one bit / byte at a time with the same index
   arithmetic ((i / bpp) selects the pixel, (i % bpp) the position inside it). Executable; no proofs. *)
From OxiVerif Require Import Base.Common Model.Types Model.ScanLines.

(* ------------------------------------------------------------------ bits (Msb0) *)
Definition bits_of_byte (b : Z) : list bool :=
  [Z.testbit b 7; Z.testbit b 6; Z.testbit b 5; Z.testbit b 4;
   Z.testbit b 3; Z.testbit b 2; Z.testbit b 1; Z.testbit b 0].
Definition bits_of_bytes (l : list Z) : list bool := flat_map bits_of_byte l.

Definition b2z (b : bool) : Z := if b then 1 else 0.
Fixpoint val_of_bits (l : list bool) (acc : Z) : Z :=
  match l with [] => acc | b :: t => val_of_bits t (acc * 2 + b2z b) end.

(* `while pass.len() % 8 != 0 { pass.push(false) }` then as_raw_slice *)
Fixpoint bytes_of_bits_fuel (fuel : nat) (l : list bool) : list Z :=
  match fuel with
  | O => []
  | S f =>
      match l with
      | [] => []
      | _ => let chunk := firstn 8 l in
             let chunk := chunk ++ repeat false (8 - length chunk) in
             val_of_bits chunk 0 :: bytes_of_bits_fuel f (skipn 8 l)
      end
  end.
Definition bytes_of_bits (l : list bool) : list Z := bytes_of_bits_fuel (length l) l.

(* ------------------------------------------------------------------ interlace_image *)
(* the `match index % 8 { … match pix_modulo { … } }` routing; result = pass number 1..7 *)
Definition route (y8 x8 : Z) : Z :=
  match y8 with
  | 0 => match x8 with 0 => 1 | 4 => 2 | 2 | 6 => 4 | _ => 6 end
  | 4 => match x8 with 0 | 4 => 3 | 2 | 6 => 4 | _ => 6 end
  | 2 | 6 => match x8 mod 2 with 0 => 5 | _ => 6 end
  | _ => 7
  end.

Section Pix.
Context {A : Type}.

Fixpoint sel_route (p y : Z) (i : Z) (l : list A) : list A :=
  match l with
  | [] => []
  | a :: t => if route (y mod 8) (i mod 8) =? p then a :: sel_route p y (i + 1) t else sel_route p y (i + 1) t
  end.

Definition is_nil (l : list A) := match l with [] => true | _ => false end.

(* one input line: every pass buffer receives the pixels routed to it (then is padded to a byte
   boundary, so those pixels form one scan line of that pass; nothing is appended when none) *)
Definition push_line (y : Z) (r : list A) (passes : list (list (list A))) : list (list (list A)) :=
  map (fun pb => let mine := sel_route (fst pb) y 0 r in
                 if is_nil mine then snd pb else snd pb ++ [mine])
      (combine [1; 2; 3; 4; 5; 6; 7] passes).

Fixpoint interlace_go (y : Z) (rows : list (list A)) (passes : list (list (list A))) :=
  match rows with [] => passes | r :: t => interlace_go (y + 1) t (push_line y r passes) end.

Definition model_interlace (rows : list (list A)) : list (list (list A)) :=
  interlace_go 0 rows [[]; []; []; []; []; []; []].

End Pix.

(* pixels of one non-interlaced line: `if i >= width * bits_per_pixel { break }` *)
Definition line_pixels_bits (bits_pp : nat) (w : nat) (line : list Z) : list (list bool) :=
  firstn w (chunks bits_pp (bits_of_bytes line)).

Definition interlace_image (img : image) : res image :=
  let h := hdr img in
  let bits_pp := Z.to_nat (bpp h) in
  do lines <- scan_lines img false;
  let rows := map (fun l => line_pixels_bits bits_pp (Z.to_nat (width h)) (l_data l)) lines in
  let passes := model_interlace rows in
  Ok {| hdr := with_interlaced h true;
        data := flat_map (fun pass => flat_map (fun ln => bytes_of_bits (concat ln)) pass) passes |}.

(* ------------------------------------------------------------------ deinterlace *)
(* fn interlaced_constants(pass) -> (x_shift, y_shift, x_step, y_step); None = unreachable!() *)
Definition interlaced_constants (p : Z) : option (Z * Z * Z * Z) :=
  match p with
  | 1 => Some (0, 0, 8, 8) | 2 => Some (4, 0, 8, 8) | 3 => Some (0, 4, 4, 8) | 4 => Some (2, 0, 4, 4)
  | 5 => Some (0, 2, 2, 4) | 6 => Some (1, 0, 2, 2) | 7 => Some (0, 1, 1, 2) | _ => None
  end.

(* fn increment_pass(current_pass, ihdr) -> bool; returns the new pass, None for `false` *)
Definition increment_pass (p w h : Z) : option Z :=
  if p =? 7 then None else
  let p := p + 1 in
  let p := if (p =? 2) && (w <=? 4) then p + 1 else p in
  let p := if (p =? 3) && (h <=? 4) then p + 1 else p in
  let p := if (p =? 4) && (w <=? 2) then p + 1 else p in
  let p := if (p =? 5) && (h <=? 2) then p + 1 else p in
  let p := if (p =? 6) && (w =? 1) then p + 1 else p in
  if (p =? 7) && (h =? 1) then None else Some p.

Section Deint.
Context {A : Type}.

(* lines[y][x_shift + k * x_step] = pixel k, for all pixels of the scan line; None = index panic *)
Fixpoint scatter (row : list A) (x xstep : Z) (pixels : list A) : option (list A) :=
  match pixels with
  | [] => Some row
  | px :: t =>
      if (x <? 0) || (lenZ row <=? x) then None
      else scatter (set_nth (Z.to_nat x) px row) (x + xstep) xstep t
  end.

Record di_state := { di_lines : list (list A); di_pass : Z; di_y : Z; di_stop : bool }.

(* one iteration of `for line in png.scan_lines(false)`; npix_limit = Some n for the bits variant
   (`bits_in_line`), None for the bytes variant *)
Definition deinterlace_step (w h : Z) (limit : bool) (st : di_state) (pixels : list A) : res di_state :=
  if di_stop st then Ok st else
  match interlaced_constants (di_pass st) with
  | None => Panic PUnreachable
  | Some (xs, ys, xstep, ystep) =>
      (* (width - x_shift): u32 subtraction *)
      if limit && (w <? xs) then Panic POverflow else
      let pixels := if limit then firstn (Z.to_nat (cdiv (w - xs) xstep)) pixels else pixels in
      match nth_error (di_lines st) (Z.to_nat (di_y st)) with
      | None => match pixels with [] => (* no write happens *)
                  Ok st | _ => Panic PIndex end
      | Some row =>
          match scatter row xs xstep pixels with
          | None => Panic PIndex
          | Some row' =>
              let lines' := set_nth (Z.to_nat (di_y st)) row' (di_lines st) in
              let y' := di_y st + ystep in
              if h <=? y' then
                match increment_pass (di_pass st) w h with
                | None => Ok {| di_lines := lines'; di_pass := di_pass st; di_y := y'; di_stop := true |}
                | Some p' =>
                    match interlaced_constants p' with
                    | None => Panic PUnreachable
                    | Some (_, ys', _, _) => Ok {| di_lines := lines'; di_pass := p'; di_y := ys'; di_stop := false |}
                    end
                end
              else Ok {| di_lines := lines'; di_pass := di_pass st; di_y := y'; di_stop := false |}
          end
      end
  end.

Fixpoint deinterlace_go (w h : Z) (limit : bool) (st : di_state) (lines : list (list A)) : res di_state :=
  match lines with
  | [] => Ok st
  | l :: t => do st' <- deinterlace_step w h limit st l; deinterlace_go w h limit st' t
  end.

Definition model_deinterlace (blank : A) (w h : Z) (limit : bool) (lines : list (list A)) : res (list (list A)) :=
  do st <- deinterlace_go w h limit
        {| di_lines := repeat (repeat blank (Z.to_nat w)) (Z.to_nat h); di_pass := 1; di_y := 0; di_stop := false |}
        lines;
  Ok (di_lines st).

End Deint.

Definition deinterlace_bits (img : image) : res (list Z) :=
  let h := hdr img in
  let bits_pp := Z.to_nat (bpp h) in
  do lines <- scan_lines img false;
  let pls := map (fun l => chunks_exact bits_pp (bits_of_bytes (l_data l))) lines in
  do rows <- model_deinterlace (repeat false bits_pp) (width h) (height h) true pls;
  Ok (flat_map (fun r => bytes_of_bits (concat r)) rows).

Definition deinterlace_bytes (img : image) : res (list Z) :=
  let h := hdr img in
  let bytes_pp := Z.to_nat (bpp h / 8) in
  do lines <- scan_lines img false;
  let pls := map (fun l => chunks bytes_pp (l_data l)) lines in
  do rows <- model_deinterlace (repeat 0 bytes_pp) (width h) (height h) false pls;
  Ok (concat (map (@concat Z) rows)).

Definition deinterlace_image (img : image) : res image :=
  do d <- (if 8 <=? bpp (hdr img) then deinterlace_bytes img else deinterlace_bits img);
  Ok {| hdr := with_interlaced (hdr img) false; data := d |}.

(* PngImage::change_interlacing(&self, interlace) -> Option<Self> *)
Definition change_interlacing (img : image) (target : bool) : res (option image) :=
  if Bool.eqb target (interlaced (hdr img)) then Ok None
  else if target then do r <- interlace_image img; Ok (Some r)
  else do r <- deinterlace_image img; Ok (Some r).

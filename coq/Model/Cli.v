(* MODEL of src/main.rs: parse_opts_into_struct (after clap has accepted the command line),
   collect_files, the exit status fold; and the routing decision of `optimize` in src/lib.rs.
   Written from the Rust source. Executable; no proofs. *)
From OxiVerif Require Import Base.Common Model.Types Model.Options.
From OxiVerif Require Gen.SrcConsts.

Inductive strip_arg := SaSafe | SaAll | SaList (names : list cname).
Inductive keep_item := KiDisplay | KiName (n : cname).

(* the command line as clap presents it: each documented flag absent / present (/ value) *)
Record flags := {
  fl_opt : option Z;                       (* -o: Some 7 stands for "max"; None = not given (default_value 2) *)
  fl_filters : option (list Z);            (* -f, already expanded by parse_numeric_range_opts *)
  fl_timeout : option Z;
  fl_alpha : bool; fl_scale16 : bool; fl_fast : bool; fl_force : bool; fl_fix : bool;
  fl_nb : bool; fl_nc : bool; fl_np : bool; fl_ng : bool; fl_nx : bool; fl_nz : bool;
  fl_interlace : option (option bool);     (* -i: Some None = keep *)
  fl_keep : option (list keep_item);
  fl_strip : option strip_arg;
  fl_strip_safe : bool;                    (* -s *)
  fl_zopfli : bool; fl_zi : Z;             (* --zi has default_value 15 *)
  fl_zc : option Z
}.

Definition FORBIDDEN_CHUNKS : list cname := SrcConsts.src_forbidden_chunks.

Definition set_opts (o : options) (f : options -> options) := f o.

Definition with_flags1 (o : options) (alpha scale16 fast frc fx : bool) : options :=
  {| fix_errors := fx; force := frc; filter := filter o; interlace := interlace o;
     optimize_alpha := alpha; bit_depth_reduction := bit_depth_reduction o;
     color_type_reduction := color_type_reduction o; palette_reduction := palette_reduction o;
     grayscale_reduction := grayscale_reduction o; idat_recoding := idat_recoding o; scale_16 := scale16;
     strip := strip o; deflate := deflate o; fast_evaluation := if fast then true else fast_evaluation o;
     has_timeout := has_timeout o |}.

Definition with_recoding (o : options) (b : bool) : options :=
  {| fix_errors := fix_errors o; force := force o; filter := filter o; interlace := interlace o;
     optimize_alpha := optimize_alpha o; bit_depth_reduction := bit_depth_reduction o;
     color_type_reduction := color_type_reduction o; palette_reduction := palette_reduction o;
     grayscale_reduction := grayscale_reduction o; idat_recoding := b; scale_16 := scale_16 o;
     strip := strip o; deflate := deflate o; fast_evaluation := fast_evaluation o; has_timeout := has_timeout o |}.

Definition with_strip_policy (o : options) (s : strip_chunks) : options :=
  {| fix_errors := fix_errors o; force := force o; filter := filter o; interlace := interlace o;
     optimize_alpha := optimize_alpha o; bit_depth_reduction := bit_depth_reduction o;
     color_type_reduction := color_type_reduction o; palette_reduction := palette_reduction o;
     grayscale_reduction := grayscale_reduction o; idat_recoding := idat_recoding o; scale_16 := scale_16 o;
     strip := s; deflate := deflate o; fast_evaluation := fast_evaluation o; has_timeout := has_timeout o |}.

Definition with_timeout (o : options) (b : bool) : options :=
  {| fix_errors := fix_errors o; force := force o; filter := filter o; interlace := interlace o;
     optimize_alpha := optimize_alpha o; bit_depth_reduction := bit_depth_reduction o;
     color_type_reduction := color_type_reduction o; palette_reduction := palette_reduction o;
     grayscale_reduction := grayscale_reduction o; idat_recoding := idat_recoding o; scale_16 := scale_16 o;
     strip := strip o; deflate := deflate o; fast_evaluation := fast_evaluation o; has_timeout := b |}.

(* IndexSet insertion of names *)
Fixpoint names_insert (acc : list cname) (l : list cname) : list cname :=
  match l with
  | [] => acc
  | n :: t => names_insert (if existsb (cname_eqb n) acc then acc else acc ++ [n]) t
  end.

Fixpoint filters_of_codes (l : list Z) (acc : list row_filter) : list row_filter :=
  match l with
  | [] => acc
  | c :: t => filters_of_codes t (match filter_of_code c with Some f => filter_insert acc f | None => acc end)
  end.

(* fn parse_opts_into_struct -> Options (Err = the String error) *)
Definition preset_of (f : flags) : options :=
  match fl_opt f with
  | None => default_options
  | Some 7 => from_preset 6                 (* "max" => Options::max_compression() *)
  | Some l => from_preset l
  end.

(* each stage mentions the running option value exactly once (the Rust mutates `opts` in place) *)
Definition set_switches (o : options) (bd ct pal gray : bool) : options := set_reductions o (interlace o) bd ct pal gray.
Definition set_interlace (o : options) (v : option bool) : options :=
  set_reductions o v (bit_depth_reduction o) (color_type_reduction o) (palette_reduction o) (grayscale_reduction o).
Definition set_zc (o : options) (x : Z) : options :=
  match deflate o with Libdeflater _ => set_deflate o (Libdeflater x) | _ => o end.
Definition keep_names (items : list keep_item) : list cname :=
  let names := names_insert [] (flat_map (fun i => match i with KiName n => [n] | KiDisplay => [] end) items) in
  if existsb (fun i => match i with KiDisplay => true | _ => false end) items
  then names_insert names DISPLAY_CHUNKS else names.

(* every stage rebuilds the record with the affected fields computed from the flag (field-wise form
   of the in-place mutation), so that projections commute with the stages *)
Definition stage_filters (f : flags) (o : options) :=
  set_filter o (match fl_filters f with Some l => filters_of_codes l [] | None => filter o end).
Definition stage_timeout (f : flags) (o : options) :=
  with_timeout o (match fl_timeout f with Some _ => true | None => has_timeout o end).
Definition stage_flags (f : flags) (o : options) := with_flags1 o (fl_alpha f) (fl_scale16 f) (fl_fast f) (fl_force f) (fl_fix f).
Definition stage_switches (f : flags) (o : options) := set_switches o (negb (fl_nb f)) (negb (fl_nc f)) (negb (fl_np f)) (negb (fl_ng f)).
Definition stage_nx (f : flags) (o : options) :=
  set_reductions o (if fl_nx f then None else interlace o) (if fl_nx f then false else bit_depth_reduction o)
                 (if fl_nx f then false else color_type_reduction o) (if fl_nx f then false else palette_reduction o)
                 (if fl_nx f then false else grayscale_reduction o).
Definition stage_nz (f : flags) (o : options) := with_recoding o (negb (fl_nz f)).
Definition stage_interlace (f : flags) (o : options) :=
  set_interlace o (match fl_interlace f with Some v => v | None => interlace o end).
Definition stage_keep (f : flags) (o : options) :=
  with_strip_policy o (match fl_keep f with Some items => StripKeep (keep_names items) | None => strip o end).
Definition stage_strip (f : flags) (o : options) : res options :=
  do s <- match fl_strip f with
          | Some SaSafe => Ok StripSafe
          | Some SaAll => Ok StripAll
          | Some (SaList names) =>
              if existsb (fun n => existsb (cname_eqb n) FORBIDDEN_CHUNKS) names then Err EOther
              else Ok (StripStrip (names_insert [] names))
          | None => Ok (strip o)
          end;
  Ok (with_strip_policy o s).
Definition stage_strip_safe (f : flags) (o : options) := with_strip_policy o (if fl_strip_safe f then StripSafe else strip o).
Definition stage_zopfli (f : flags) (o : options) := set_deflate o (if fl_zopfli f then Zopfli (fl_zi f) else deflate o).
Definition stage_zc (f : flags) (o : options) :=
  set_deflate o (match fl_zc f, deflate o with Some x, Libdeflater _ => Libdeflater x | _, _ => deflate o end).

(* fn parse_opts_into_struct -> Options (Err = the String error), starting from the preset *)
Definition cli_options_from (o : options) (f : flags) : res options :=
  do o1 <- stage_strip f (stage_keep f (stage_interlace f (stage_nz f (stage_nx f (stage_switches f
             (stage_flags f (stage_timeout f (stage_filters f o))))))));
  Ok (stage_zc f (stage_zopfli f (stage_strip_safe f o1))).

Definition cli_options (f : flags) : res options := cli_options_from (preset_of f) f.

(* ------------------------------------------------------------------ exit status *)
Inductive opt_result := RsOk | RsFailed | RsSkipped.   (* derive(Ord): Ok < Failed < Skipped *)
Definition rs_rank (r : opt_result) : Z := match r with RsOk => 0 | RsFailed => 1 | RsSkipped => 2 end.

(* .min().unwrap_or(Skipped) then match -> ExitCode *)
Definition summary (rs : list opt_result) : opt_result :=
  fold_left (fun a b => if rs_rank b <? rs_rank a then b else a) rs RsSkipped.
Definition exit_code (rs : list opt_result) : Z :=
  match summary rs with RsOk => 0 | RsFailed => 1 | RsSkipped => 3 end.

(* ------------------------------------------------------------------ collect_files *)
Inductive fsnode := FFile (name : list Z) | FDir (name : list Z) (entries : list fsnode).

Definition lower (c : Z) : Z := if (65 <=? c) && (c <=? 90) then c + 32 else c.
Fixpoint last_dot (l : list Z) (cur : option (list Z)) : option (list Z) :=
  match l with
  | [] => cur
  | c :: t => if c =? 46 then last_dot t (Some t) else last_dot t cur
  end.
(* Path::extension(): after the last dot, none for names that start with their only dot *)
Definition extension (name : list Z) : option (list Z) :=
  match name with
  | 46 :: rest => match last_dot rest None with Some e => Some e | None => None end
  | _ => last_dot name None
  end.
Definition is_png_name (name : list Z) : bool :=
  match extension name with
  | Some e => let e := map lower e in list_eqb Z.eqb e [112; 110; 103] || list_eqb Z.eqb e [97; 112; 110; 103]
  | None => false
  end.

(* inputs taken, as paths (lists of name components) *)
Fixpoint collect (fuel : nat) (recursive top_level : bool) (prefix : list (list Z)) (nodes : list fsnode) : list (list (list Z)) :=
  match fuel with
  | O => []
  | S fu =>
      flat_map (fun n =>
        match n with
        | FDir name entries => if recursive then collect fu recursive false (prefix ++ [name]) entries else []
        | FFile name => if negb top_level && negb (is_png_name name) then [] else [prefix ++ [name]]
        end) nodes
  end.

(* ------------------------------------------------------------------ routing in `optimize` *)
Inductive out_file := OutNone | OutStdout | OutPath (p : option (list Z)) (preserve : bool).
Inductive in_file := InPath (p : list Z) | InStdin.
Inductive destination := DNowhere | DStdout | DFile (p : list Z).

(* what `optimize` does with (input, output) once the optimised bytes are known *)
Definition route (inp : in_file) (outp : out_file) (fully_optimized : bool) : destination * bool (* write original bytes *) :=
  let same_as_input := match outp, inp with
                       | OutPath None _, InPath _ => true
                       | OutPath (Some p) _, InPath q => list_eqb Z.eqb p q
                       | _, _ => false
                       end in
  if fully_optimized && same_as_input then (DNowhere, false) else
  let dest := match outp, inp with
              | OutNone, _ => DNowhere
              | OutStdout, _ => DStdout
              | OutPath None _, InStdin => DStdout
              | OutPath (Some p) _, _ => DFile p
              | OutPath None _, InPath q => DFile q
              end in
  (dest, fully_optimized).

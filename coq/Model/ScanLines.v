(* MODEL of src/png/scan_lines.rs: ScanLineRanges::next and ScanLines::next.
   Written from the Rust source. Executable; no proofs. *)
From OxiVerif Require Import Base.Common Model.Types.

(* state of ScanLineRanges: pass = Some (pass number, row within pass) for Adam7 *)
Record sl_state := { sl_pass : option (Z * Z); sl_left : Z }.

(* the cascade of `if self.width < 5 && pass.0 == 2 { … }` edge-case skips *)
Definition skip (w h : Z) (st : Z * Z) : Z * Z :=
  let st := if (w <? 5) && (fst st =? 2) then (3, 4) else st in
  let st := if (h <? 5) && (fst st =? 3) then (4, 0) else st in
  let st := if (w <? 3) && (fst st =? 4) then (5, 2) else st in
  let st := if (h <? 3) && (fst st =? 5) then (6, 0) else st in
  let st := if (w =? 1) && (fst st =? 6) then (7, 1) else st in
  st.

(* (pixels_factor, y_steps); None = unreachable!() *)
Definition factors (p : Z) : option (Z * Z) :=
  match p with
  | 1 => Some (8, 8) | 2 => Some (8, 8) | 3 => Some (4, 8) | 4 => Some (4, 4)
  | 5 => Some (2, 4) | 6 => Some (2, 2) | 7 => Some (1, 2) | _ => None
  end.

Definition ppl (w p pf : Z) : Z :=
  let base := w / pf in
  let gap := w mod pf in
  base + (match p with
          | 1 | 3 | 5 => if 0 <? gap then 1 else 0
          | 2 => if 5 <=? gap then 1 else 0
          | 4 => if 3 <=? gap then 1 else 0
          | 6 => if 2 <=? gap then 1 else 0
          | _ => 0
          end).

(* one emitted range: (byte length, pass, pixels) *)
Definition range : Type := (Z * option Z * Z)%type.

Inductive step_out :=
| SDone                                  (* iterator returns None *)
| SPanic (p : panic)
| SItem (r : range) (st : sl_state).

(* the interlaced branch of ScanLineRanges::next: ((pass, pixels per line), new (pass, row));
   None = unreachable!() *)
Definition pass_start (p : Z) : Z := match p with 3 => 4 | 5 => 2 | 7 => 1 | _ => 0 end.
Definition next_px (w h : Z) (st : Z * Z) : option ((Z * Z) * (Z * Z)) :=
  let ps := skip w h st in
  let p := fst ps in let row := snd ps in
  match factors p with
  | None => None
  | Some (pf, ys) =>
      Some ((p, ppl w p pf),
            if h <=? row + ys then (p + 1, pass_start (p + 1)) else (p, row + ys))
  end.

Definition line_len (bits_pp : Z) (has_filter : bool) (pixels : Z) : Z :=
  cdiv (pixels * bits_pp) 8 + (if has_filter then 1 else 0).

(* ScanLineRanges::next *)
Definition ranges_next (w h bits_pp : Z) (has_filter : bool) (st : sl_state) : step_out :=
  if sl_left st =? 0 then SDone else
  let r :=
    match sl_pass st with
    | Some ps =>
        match next_px w h ps with
        | None => None
        | Some ((p, pixels), ps') => Some (pixels, Some p, Some ps')
        end
    | None => Some (w, None, None)
    end in
  match r with
  | None => SPanic PUnreachable
  | Some (pixels, cur, ps') =>
      let len := line_len bits_pp has_filter pixels in
      if sl_left st <? len then SDone
      else SItem (len, cur, pixels) {| sl_pass := ps'; sl_left := sl_left st - len |}
  end.

Definition sl_init (h : ihdr) (datalen : Z) : sl_state :=
  {| sl_pass := if interlaced h then Some (1, 0) else None; sl_left := datalen |}.

(* all ranges; fuel = number of bytes (every range consumes at least one byte, else Panic PFuel
   stands for the Rust loop that would never end) *)
Fixpoint ranges_go (fuel : nat) (w h bits_pp : Z) (has_filter : bool) (st : sl_state) : res (list range) :=
  match ranges_next w h bits_pp has_filter st with
  | SDone => Ok []
  | SPanic p => Panic p
  | SItem r st' =>
      match fuel with
      | O => Panic PFuel
      | S f =>
          let '(len, _, _) := r in
          if len <=? 0 then Panic PFuel else
          do t <- ranges_go f w h bits_pp has_filter st'; Ok (r :: t)
      end
  end.

Definition scan_ranges (h : ihdr) (has_filter : bool) (datalen : Z) : res (list range) :=
  ranges_go (Z.to_nat datalen) (width h) (height h) (bpp h) has_filter (sl_init h datalen).

(* ScanLine *)
Record scanline := { l_filter : Z; l_data : list Z; l_pass : option Z; l_npix : Z }.

Fixpoint cut_lines (has_filter : bool) (rs : list range) (raw : list Z) : res (list scanline) :=
  match rs with
  | [] => Ok []
  | (len, pass, npix) :: t =>
      (* debug_assert!(!self.has_filter || len > 1) *)
      if has_filter && (len <=? 1) then Panic PAssert else
      let n := Z.to_nat len in
      if (length raw <? n)%nat then Ok [] else
      let piece := firstn n raw in
      let rest := skipn n raw in
      let line :=
        if has_filter
        then match piece with
             | f :: d => Some {| l_filter := f; l_data := d; l_pass := pass; l_npix := npix |}
             | [] => None
             end
        else Some {| l_filter := 0; l_data := piece; l_pass := pass; l_npix := npix |} in
      match line with
      | None => Panic PUnwrap
      | Some l => do r <- cut_lines has_filter t rest; Ok (l :: r)
      end
  end.

(* PngImage::scan_lines(has_filter).collect() *)
Definition scan_lines (img : image) (has_filter : bool) : res (list scanline) :=
  do rs <- scan_ranges (hdr img) has_filter (lenZ (data img));
  cut_lines has_filter rs (data img).

(* C15 — 16-to-8-bit scaling rounds every sample to the nearest 8-bit value.
   PROVED: the per-sample and per-pixel statement for all 65 536 values and every colour type,
   colour key included, AND its lift to whole images of every size, interlaced or not
   (C15_image_scaled); the float expression of the Rust code is tied to
   the integer model exhaustively (65 536 values) on every run.
   PICTURE / PIPELINE / FILE (second half): scaled_px, every emitted candidate <= 8 bits and means the rounded picture, file to file,
   and independence from scale_16 for inputs that are not 16-bit. *)
From OxiVerif Require Import Base.Common Spec.Adam7 Spec.Sem Model.Types Model.BitDepth
  Proofs.Bridge Proofs.PixelProofs Proofs.ImageLift Proofs.LiftReductions.

Theorem C15_sample_is_round : forall v, u16 v -> scale_16_to_8 v = round8 v.
Proof. exact scale8_is_round8. Qed.
Print Assumptions C15_sample_is_round.

(* rounding to nearest: the result is a byte, at distance <= 128 (in units of 1/257), and every
   other byte is strictly farther: no ties exist *)
Theorem C15_round_is_nearest : forall v, u16 v -> 0 <= round8 v < 256 /\ Z.abs (257 * round8 v - v) <= 128 /\
  (forall b, 0 <= b < 256 -> b <> round8 v -> Z.abs (257 * round8 v - v) < Z.abs (257 * b - v)).
Proof. exact round8_nearest. Qed.
Print Assumptions C15_round_is_nearest.

(* the colour key is rounded the same way *)
Theorem C15_key_rounded : forall c,
  (match c with
   | Gray (Some k) => u16 k
   | RGB (Some (r, g, b)) => u16 r /\ u16 g /\ u16 b
   | _ => True end) ->
  spec_color_of (color_type_16_to_8 c (fun v => Some (scale_16_to_8 v))) = round_key (spec_color_of c).
Proof. exact scaled_key_is_rounded. Qed.
Print Assumptions C15_key_rounded.

(* so every scaled pixel has exactly the meaning C15 prescribes: rounded samples under the rounded
   key (keyed pixels stay transparent; an opaque pixel turns transparent only if all its samples
   round to the key's) *)
Theorem C15_pixel_scaled : forall c vs,
  (match c with
   | Gray (Some k) => u16 k
   | RGB (Some (r, g, b)) => u16 r /\ u16 g /\ u16 b
   | _ => True end) ->
  Forall u16 vs ->
  color_of_samples (spec_color_of (color_type_16_to_8 c (fun v => Some (scale_16_to_8 v)))) 8 (map scale_16_to_8 vs)
  = color_of_samples (round_key (spec_color_of c)) 8 (map round8 vs).
Proof. exact pixel_scaled. Qed.
Print Assumptions C15_pixel_scaled.

(* IMAGE LEVEL: the scaled image means exactly the input picture with every sample (and the key) rounded,
   for every width, height and interlacing *)
Theorem C15_image_scaled : forall img img' pic,
  key16_ok (ctype (hdr img)) -> bytes_ok (data img) ->
  scaled_bit_depth_16_to_8 img = Some img' ->
  sem_scaled img = Some pic -> sem img' = Some pic.
Proof. exact scaled_16_to_8_sem. Qed.
Print Assumptions C15_image_scaled.

Example C15_examples : round8 255 = 1 /\ round8 (257 * 200) = 200 /\ scale_16_to_8 255 = 1 /\ scale_16_to_8 4660 = 18.
Proof. exact round8_examples. Qed.

(* ================================================================ picture level and the whole pipeline *)
From OxiVerif Require Import Spec.Decode Spec.DecodeFile Model.Options Model.Headers Model.PngData Model.Evaluate Model.Reductions Model.Optimize
  Proofs.LiftColor Proofs.PipelineLossless Proofs.InputParse Proofs.ScaledPicture Proofs.ScaledPipeline Proofs.ScaledFile Proofs.ScaleIrrelevant.

(* the scaled meaning is a function of the input PICTURE and the colour key alone: every pixel is rounded by scaled_px (samples
   to 257 * round(v / 257); under a key, alpha 0 exactly when all rounded samples equal the rounded key) *)
Theorem C15_scaled_is_picture_map : forall img, key16_ok (ctype (hdr img)) -> depth (hdr img) = 16 ->
  sem_scaled img = option_map (scaled_picture img) (sem img).
Proof. exact sem_scaled_is_map. Qed.
Print Assumptions C15_scaled_is_picture_map.

(* dimensions unchanged *)
Theorem C15_dimensions : forall img pic,
  pic_w (scaled_picture img pic) = pic_w pic /\ pic_h (scaled_picture img pic) = pic_h pic.
Proof. exact scaled_picture_dims. Qed.
Print Assumptions C15_dimensions.

(* the scaled image is well-formed and means the rounded picture *)
Theorem C15_image_scaled_means : forall img img' pic, means pic img ->
  scaled_bit_depth_16_to_8 img = Some img' -> means (scaled_picture img pic) img'.
Proof. exact scaled_16_to_8_means. Qed.
Print Assumptions C15_image_scaled_means.

(* PIPELINE: scaling requested, bit-depth reductions enabled, the clock not expired at the 16->8 step: for every other option,
   every clock answer elsewhere and every 16-bit image, the baseline and EVERY candidate handed to the evaluator are at most 8 bits
   deep and mean the rounded picture *)
Theorem C15_pipeline_scaled : forall e o, optimize_alpha o = false -> scale_16 o = true -> bit_depth_reduction o = true ->
  dl e S16to8 = false ->
  forall spic img pic baseline evs,
  means pic img -> depth (hdr img) = 16 -> spic = scaled_picture img pic ->
  perform_reductions e o img = Ok (baseline, evs) ->
  (means spic baseline /\ depth (hdr baseline) <= 8) /\ Forall (cand_scaled spic) evs.
Proof. exact perform_reductions_scaled. Qed.
Print Assumptions C15_pipeline_scaled.

(* whatever optimize_raw emits *)
Theorem C15_emitted_scaled : forall e o img max_size c pic,
  optimize_alpha o = false -> scale_16 o = true -> bit_depth_reduction o = true -> dl e S16to8 = false ->
  means pic img -> depth (hdr img) = 16 ->
  optimize_raw e o img max_size = Ok (Some c) -> means (scaled_picture img pic) (c_image c) /\ depth (hdr (c_image c)) <= 8.
Proof. exact optimize_raw_scaled. Qed.
Print Assumptions C15_emitted_scaled.

(* FILE TO FILE: a valid 16-bit, non-animated input: the output decodes (specification's whole-file decoder) either to the input's
   picture - only when nothing was emitted or the input is returned because the result is not smaller - or it is a file with an
   at-most-8-bit header that decodes to the rounded picture *)
Theorem C15_file_to_file : forall e o (inflate : list Z -> option (list Z)),
  optimize_alpha o = false -> scale_16 o = true -> bit_depth_reduction o = true -> dl e S16to8 = false ->
  (forall d s, inflate (z_deflate e d s) = Some s) ->
  forall bytes out pic nm ih rest M,
  bytes_ok bytes -> lenZ bytes + 5 <= M -> M + 4 < 2 ^ 31 -> (forall d s, lenZ (z_deflate e d s) <= M) ->
  spec_parse_png bytes = Some ((nm, ih) :: rest) ->
  spec_decode_chunks inflate ((nm, ih) :: rest) = Some pic ->
  List.filter (named spec_IHDR) rest = [] ->
  (length (List.filter (named spec_PLTE) rest) <= 1)%nat -> (length (List.filter (named spec_tRNS) rest) <= 1)%nat ->
  (forall x n y, z_inflate e x n = Ok y -> inflate x = Some y /\ bytes_ok y) ->
  (forall p, from_slice e bytes o = Ok p ->
     spec_raw_size (width (hdr (raw p))) (height (hdr (raw p))) (bpp (hdr (raw p))) (interlaced (hdr (raw p))) true <= usize_max /\
     wf_ctype (ctype (hdr (raw p))) (depth (hdr (raw p))) /\
     depth (hdr (raw p)) = 16 /\ has_chunk name_acTL (aux_chunks p) = false) ->
  optimize_from_memory e o bytes = Ok out ->
  exists p, from_slice e bytes o = Ok p /\
    (spec_decode_png inflate out = Some pic \/
     (exists p', out = output p' /\ depth (hdr (raw p')) <= 8) /\ spec_decode_png inflate out = Some (scaled_picture (raw p) pic)).
Proof. exact optimize_from_memory_scaled. Qed.
Print Assumptions C15_file_to_file.

(* "images that are not 16-bit are treated exactly as without the switch": the whole optimisation is the same function *)
Theorem C15_not_16_bit_same : forall e o bytes b,
  (forall p, from_slice e bytes o = Ok p -> depth (hdr (raw p)) <> 16) ->
  optimize_from_memory e (set_scale_16 o b) bytes = optimize_from_memory e o bytes.
Proof. exact optimize_from_memory_scale_irrelevant. Qed.
Print Assumptions C15_not_16_bit_same.

Theorem C15_not_16_bit_same_pipeline : forall e o img b, depth (hdr img) <> 16 ->
  perform_reductions e (set_scale_16 o b) img = perform_reductions e o img.
Proof. exact perform_reductions_scale_irrelevant. Qed.
Print Assumptions C15_not_16_bit_same_pipeline.

(* non-vacuity: a keyed 16-bit pixel that is opaque turns transparent exactly when it rounds to the rounded key *)
Example C15_scaled_px_examples :
  scaled_px (SGray (Some 0x1234)) (0x1234, 0x1234, 0x1234, 0) = (257 * 18, 257 * 18, 257 * 18, 0) /\
  scaled_px (SGray (Some 0x1234)) (0x1250, 0x1250, 0x1250, 65535) = (257 * 18, 257 * 18, 257 * 18, 0) /\
  scaled_px (SGray (Some 0x1234)) (0x1300, 0x1300, 0x1300, 65535) = (257 * 19, 257 * 19, 257 * 19, 65535) /\
  scaled_px SRGBA (255, 0x8080, 65535, 0x00FF) = (257, 257 * 128, 65535, 257).
Proof. vm_compute. repeat split; reflexivity. Qed.

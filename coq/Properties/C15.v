(* C15 — 16-to-8-bit scaling rounds every sample to the nearest 8-bit value.
   PROVED: the per-sample and per-pixel statement for all 65 536 values and every colour type,
   colour key included, AND its lift to whole images of every size, interlaced or not
   (C15_image_scaled); the float expression of the Rust code is tied to
   the integer model exhaustively (65 536 values) on every run. *)
From OxiVerif Require Import Base.Common Spec.Adam7 Spec.Sem Model.Types Model.BitDepth
  Proofs.Bridge Proofs.PixelProofs Proofs.ImageLift Proofs.LiftReductions.

Theorem C15_sample_is_round : forall v, u16 v -> scale_16_to_8 v = round8 v.
Proof. exact scale8_is_round8. Qed.
Print Assumptions C15_sample_is_round.

(* rounding to nearest: the result is a byte, at distance <= 128 (in units of 1/257), and every
   other byte is strictly farther: no ties exist *)
Theorem C15_round_is_nearest : forall v, u16 v -> 0 <= round8 v < 256 /\ Z.abs (257 * round8 v - v) <= 128 /\
  (forall b, 0 <= b < 256 -> b <> round8 v -> Z.abs (257 * round8 v - v) < Z.abs (257 * b - v)).
Proof. exact round8_nearest. Qed.
Print Assumptions C15_round_is_nearest.

(* the colour key is rounded the same way *)
Theorem C15_key_rounded : forall c,
  (match c with
   | Gray (Some k) => u16 k
   | RGB (Some (r, g, b)) => u16 r /\ u16 g /\ u16 b
   | _ => True end) ->
  spec_color_of (color_type_16_to_8 c (fun v => Some (scale_16_to_8 v))) = round_key (spec_color_of c).
Proof. exact scaled_key_is_rounded. Qed.
Print Assumptions C15_key_rounded.

(* so every scaled pixel has exactly the meaning C15 prescribes: rounded samples under the rounded
   key (keyed pixels stay transparent; an opaque pixel turns transparent only if all its samples
   round to the key's) *)
Theorem C15_pixel_scaled : forall c vs,
  (match c with
   | Gray (Some k) => u16 k
   | RGB (Some (r, g, b)) => u16 r /\ u16 g /\ u16 b
   | _ => True end) ->
  Forall u16 vs ->
  color_of_samples (spec_color_of (color_type_16_to_8 c (fun v => Some (scale_16_to_8 v)))) 8 (map scale_16_to_8 vs)
  = color_of_samples (round_key (spec_color_of c)) 8 (map round8 vs).
Proof. exact pixel_scaled. Qed.
Print Assumptions C15_pixel_scaled.

(* IMAGE LEVEL: the scaled image means exactly the input picture with every sample (and the key) rounded,
   for every width, height and interlacing *)
Theorem C15_image_scaled : forall img img' pic,
  key16_ok (ctype (hdr img)) -> bytes_ok (data img) ->
  scaled_bit_depth_16_to_8 img = Some img' ->
  sem_scaled img = Some pic -> sem img' = Some pic.
Proof. exact scaled_16_to_8_sem. Qed.
Print Assumptions C15_image_scaled.

Example C15_examples : round8 255 = 1 /\ round8 (257 * 200) = 200 /\ scale_16_to_8 255 = 1 /\ scale_16_to_8 4660 = 18.
Proof. exact round8_examples. Qed.

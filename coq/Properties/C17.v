(* C17 — The smallest completed trial is the one that is emitted.
   PROVED on the evaluator model: whatever the completion order, the candidate returned is a
   received (completed) trial that is minimal under the fixed key
   (estimated size, raw bytes, filter number, later submission first) among ALL received trials,
   and it is the key-minimum of all trials that fit under the initial bound. *)
From OxiVerif Require Import Base.Common Model.Types Model.Evaluate Proofs.EvalProofs.

(* the order used is a strict total order on trials with distinct (submission, filter) *)
Theorem C17_key_order : (forall a, ~ key_lt a a) /\ (forall a b c, key_lt a b -> key_lt b c -> key_lt a c) /\
  (forall a b, ident a <> ident b -> key_lt a b \/ key_lt b a).
Proof. split; [exact key_lt_irrefl|split; [exact key_lt_trans|exact key_total]]. Qed.
Print Assumptions C17_key_order.

(* the tie rule, unfolded *)
Theorem C17_tie_rule : forall a b, key_lt a b <->
  total a < total b \/ (total a = total b /\
   (tRaw a < tRaw b \/ (tRaw a = tRaw b /\
     (tFilter a < tFilter b \/ (tFilter a = tFilter b /\ tNth b < tNth a))))).
Proof. exact key_lt_unfold. Qed.
Print Assumptions C17_tie_rule.

(* for every schedule: the emitted candidate is received and no received trial beats it *)
Theorem C17_emitted_is_min_of_completed : forall trials init es s m,
  (forall t, In t trials -> 0 <= tK t) -> NoDup (map ident trials) ->
  run trials (init_state trials init) es = Some s -> complete s ->
  min_by_key (received s) = Some m ->
  In m (received s) /\ forall t, In t (received s) -> t = m \/ key_lt m t.
Proof.
  intros trials init es s m HK Hnd Hrun Hc Hm.
  split; [apply min_by_key_In; exact Hm|].
  intros t Ht.
  pose proof (schedule_result_is_best_of trials init es s HK Hnd Hrun Hc) as Hb.
  rewrite Hm in Hb. pose proof (best_of_spec init trials Hnd) as Hs. rewrite <- Hb in Hs.
  destruct Hs as (_ & _ & Hmin).
  pose proof (run_Inv2 trials init es _ _ (Inv2_init trials init) Hrun) as I2.
  destruct (inv2C _ _ _ I2 t Ht) as [Hin Hel]. apply Hmin; auto.
Qed.
Print Assumptions C17_emitted_is_min_of_completed.

(* and it is the minimum of everything that could have completed under the initial bound *)
Theorem C17_emitted_is_best_eligible : forall trials init es s,
  (forall t, In t trials -> 0 <= tK t) -> NoDup (map ident trials) ->
  run trials (init_state trials init) es = Some s -> complete s ->
  match min_by_key (received s) with
  | Some m => In m trials /\ eligible init m = true /\
              forall t, In t trials -> eligible init t = true -> t = m \/ key_lt m t
  | None => forall t, In t trials -> eligible init t = false
  end.
Proof.
  intros trials init es s HK Hnd Hrun Hc.
  rewrite (schedule_result_is_best_of trials init es s HK Hnd Hrun Hc).
  apply best_of_spec. exact Hnd.
Qed.
Print Assumptions C17_emitted_is_best_eligible.

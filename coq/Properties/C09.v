(* C09 — Command line means what the manual says: flags, routing, exit status.
   PROVED on the model of parse_opts_into_struct / collect_files / the exit fold / the routing in
   `optimize`, against constants parsed out of MANUAL.txt on every run (Gen/SrcConsts.v):
   every row of the manual's preset table is what Options::from_preset builds; the default is level 2
   with interlacing 0; explicit settings override the preset and everything not given comes from the
   preset; '--nx' switches the four reductions off and implies keep-interlacing unless -i is given;
   strip/keep; a strip list naming a critical chunk is refused; exit status 0 / 1 / 3; directories
   only with --recursive and below top level only .png/.apng (any case); routing of the result.
   End to end (the real binary vs the library called with the model's option value) is decided per run. *)
From OxiVerif Require Import Base.Common Model.Types Model.Options Model.Cli Proofs.CliProofs.
From OxiVerif Require Gen.SrcConsts.

Theorem C09_preset_rows : forall l, In l [0; 1; 2; 3; 4; 5; 6] ->
  exists r, manual_row l = Some r /\ opts_view (from_preset l) = opts_view (interp_row r).
Proof. exact preset_rows. Qed.
Print Assumptions C09_preset_rows.

Theorem C09_defaults : SrcConsts.manual_default_level = 2 /\ opts_view default_options = opts_view (from_preset 2) /\
  (SrcConsts.manual_default_interlace_is_zero = true -> interlace default_options = Some false) /\
  cli_options no_flags = Ok default_options.
Proof. destruct default_is_documented as (A & B & C). repeat split; auto. Qed.
Print Assumptions C09_defaults.

Theorem C09_explicit_overrides_preset : forall f o, cli_options f = Ok o ->
  (forall x, fl_zc f = Some x -> fl_zopfli f = false -> deflate o = Libdeflater x) /\
  (fl_zc f = None -> fl_zopfli f = false -> deflate o = deflate (preset_of f)) /\
  (fl_zopfli f = true -> deflate o = Zopfli (fl_zi f)) /\
  (forall l, fl_filters f = Some l -> filter o = filters_of_codes l []) /\
  (fl_filters f = None -> filter o = filter (preset_of f)) /\
  (fl_fast f = false -> fast_evaluation o = fast_evaluation (preset_of f)).
Proof. exact explicit_overrides_preset. Qed.
Print Assumptions C09_explicit_overrides_preset.

Theorem C09_switches : forall f o, cli_options f = Ok o ->
  optimize_alpha o = fl_alpha f /\ scale_16 o = fl_scale16 f /\ force o = fl_force f /\ fix_errors o = fl_fix f /\
  idat_recoding o = negb (fl_nz f) /\
  (fl_nx f = false -> bit_depth_reduction o = negb (fl_nb f) /\ color_type_reduction o = negb (fl_nc f) /\
                      palette_reduction o = negb (fl_np f) /\ grayscale_reduction o = negb (fl_ng f)) /\
  (forall v, fl_interlace f = Some v -> interlace o = v) /\
  (fl_fast f = true -> fast_evaluation o = true) /\
  (fl_timeout f = None -> has_timeout o = has_timeout (preset_of f)) /\ (fl_timeout f <> None -> has_timeout o = true).
Proof. exact switches_spec. Qed.
Print Assumptions C09_switches.

Theorem C09_nx_implies_keep : forall f o, cli_options f = Ok o -> fl_nx f = true ->
  bit_depth_reduction o = false /\ color_type_reduction o = false /\ palette_reduction o = false /\
  grayscale_reduction o = false /\ (fl_interlace f = None -> interlace o = None).
Proof. exact nx_implies_keep. Qed.
Print Assumptions C09_nx_implies_keep.

Theorem C09_strip : forall f o, cli_options f = Ok o ->
  (fl_strip_safe f = true -> strip o = StripSafe) /\
  (fl_strip_safe f = false -> fl_strip f = Some SaSafe -> strip o = StripSafe) /\
  (fl_strip_safe f = false -> fl_strip f = Some SaAll -> strip o = StripAll) /\
  (fl_strip_safe f = false -> fl_strip f = None -> fl_keep f = None -> strip o = strip (preset_of f)).
Proof. exact strip_spec. Qed.
Print Assumptions C09_strip.

Theorem C09_forbidden_strip_refused : forall f names, fl_strip f = Some (SaList names) ->
  existsb (fun n => existsb (cname_eqb n) FORBIDDEN_CHUNKS) names = true -> cli_options f = Err EOther.
Proof. exact forbidden_strip_refused. Qed.
Print Assumptions C09_forbidden_strip_refused.

Theorem C09_exit_status : forall rs,
  (exit_code rs = 0 <-> In RsOk rs) /\
  (exit_code rs = 1 <-> (~ In RsOk rs /\ In RsFailed rs)) /\
  (exit_code rs = 3 <-> (~ In RsOk rs /\ ~ In RsFailed rs)).
Proof. exact exit_status_spec. Qed.
Print Assumptions C09_exit_status.

Theorem C09_routing : forall inp outp fo,
  (fo = true -> (outp = OutPath None false \/ outp = OutPath None true) -> forall q, inp = InPath q -> route inp outp fo = (DNowhere, false)) /\
  (outp = OutNone -> fst (route inp outp fo) = DNowhere) /\
  (outp = OutStdout -> route inp outp fo = (DStdout, fo)) /\
  (forall p q pr, outp = OutPath (Some p) pr -> inp = InPath q -> list_eqb Z.eqb p q = false -> route inp outp fo = (DFile p, fo)).
Proof. exact route_spec. Qed.
Print Assumptions C09_routing.

Theorem C09_collect_below_top_only_png : forall fuel prefix nodes rec p,
  In p (collect fuel rec false prefix nodes) -> exists name, is_png_name name = true /\ last p [] = name.
Proof. exact collect_below_top_only_png. Qed.
Print Assumptions C09_collect_below_top_only_png.

Theorem C09_collect_no_recursion : forall nodes prefix fuel p,
  In p (collect (S fuel) false true prefix nodes) -> exists name, In (FFile name) nodes /\ p = prefix ++ [name].
Proof. exact collect_no_recursion. Qed.
Print Assumptions C09_collect_no_recursion.

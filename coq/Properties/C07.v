(* C07 — Metadata chunks are kept, dropped and ordered exactly as the strip policy says.
   PROVED on the parser / serialiser model: the policy function is the documented one (the `safe`
   list equals the list parsed out of MANUAL.txt on this run); the chunks that define the picture are
   dispatched before the policy is consulted; a stripped chunk leaves no trace; a kept chunk is
   recorded with identical name and payload; the C2PA rule; postprocess_chunks is exactly the
   documented conditional filter (nothing invented, order kept, nothing dropped when the format is
   unchanged). The end-to-end characterisation (expected ancillary list of the output) is decided
   per run by model replay + the declarative oracle; the known re-ordering of bKGD/hIST after plain
   chunks is finding F9. *)
From OxiVerif Require Import Base.Common Model.Types Model.Options Model.Headers Model.PngData Proofs.ChunkProofs.
From OxiVerif Require Gen.SrcConsts.

Theorem C07_policy_is_documented : forall s name,
  strip_keep s name =
  match s with
  | StripNone => true
  | StripAll => false
  | StripSafe => existsb (cname_eqb name) SrcConsts.manual_safe_chunks
  | StripKeep l => existsb (cname_eqb name) l
  | StripStrip l => negb (existsb (cname_eqb name) l)
  end.
Proof. exact strip_keep_spec. Qed.
Print Assumptions C07_policy_is_documented.

Theorem C07_critical_never_stripped : forall o s st c, is_critical (c_name c) = true ->
  from_slice_step (with_strip o s) st c = from_slice_step o st c.
Proof. exact critical_never_stripped. Qed.
Print Assumptions C07_critical_never_stripped.

Theorem C07_stripped_absent : forall o st c, is_critical (c_name c) = false -> strip_keep (strip o) (c_name c) = false ->
  from_slice_step o st c = Ok st.
Proof. exact stripped_is_ignored. Qed.
Print Assumptions C07_stripped_absent.

Theorem C07_kept_identical : forall o st c, is_critical (c_name c) = false -> strip_keep (strip o) (c_name c) = true ->
  is_c2pa (c_name c) (c_data c) = false ->
  cname_eqb (c_name c) name_acTL = false ->
  cname_eqb (c_name c) name_fcTL = false -> cname_eqb (c_name c) name_fdAT = false ->
  exists st', from_slice_step o st c = Ok st' /\ fs_aux st' = c :: fs_aux st /\ fs_idat st' = fs_idat st /\ fs_frames st' = fs_frames st.
Proof. exact kept_is_recorded. Qed.
Print Assumptions C07_kept_identical.

Theorem C07_c2pa : forall o st c, is_critical (c_name c) = false -> is_c2pa (c_name c) (c_data c) = true ->
  from_slice_step o st c =
    if strip_keep (strip o) (c_name c) then (if strip_is_none (strip o) then Ok st else Err EC2PA) else Ok st.
Proof. exact c2pa_policy. Qed.
Print Assumptions C07_c2pa.

Theorem C07_conditional_drops : forall aux hd orig,
  postprocess_chunks aux hd orig =
  List.filter (fun c =>
    negb ((negb (depth orig =? depth hd) || negb (color_type_eqb (ctype orig) (ctype hd))) && droppable_on_format_change (c_name c))
    && negb (negb (Bool.eqb (is_gray (ctype orig)) (is_gray (ctype hd))) && droppable_on_gray_change (c_name c))) aux.
Proof. exact postprocess_spec. Qed.
Print Assumptions C07_conditional_drops.

Theorem C07_none_invented : forall aux hd orig c, In c (postprocess_chunks aux hd orig) -> In c aux.
Proof. exact postprocess_sublist. Qed.
Print Assumptions C07_none_invented.

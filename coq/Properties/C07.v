(* C07 — Metadata chunks are kept, dropped and ordered exactly as the strip policy says.
   PROVED on the parser / serialiser model: the policy function is the documented one (the `safe`
   list equals the list parsed out of MANUAL.txt on this run); the chunks that define the picture are
   dispatched before the policy is consulted; a stripped chunk leaves no trace; a kept chunk is
   recorded with identical name and payload; the C2PA rule; postprocess_chunks is exactly the
   documented conditional filter (nothing invented, order kept, nothing dropped when the format is
   unchanged). The end-to-end characterisation (expected ancillary list of the output) is decided
   per run by model replay + the declarative oracle; the known re-ordering of bKGD/hIST after plain
   chunks is finding F9.
   FILE TO FILE (second half of this file): closed formula for the ancillary list from_slice builds, the ICC decision and the conditional
   drops per side of the image data, the chunk sequence written, the whole call (C07_file_chunk_flow); order across the two classes
   written before IDAT is refuted with the F9 witness (C07_order_refuted). *)
From OxiVerif Require Import Base.Common Model.Types Model.Options Model.Headers Model.PngData Proofs.ChunkProofs.
From OxiVerif Require Gen.SrcConsts.

Theorem C07_policy_is_documented : forall s name,
  strip_keep s name =
  match s with
  | StripNone => true
  | StripAll => false
  | StripSafe => existsb (cname_eqb name) SrcConsts.manual_safe_chunks
  | StripKeep l => existsb (cname_eqb name) l
  | StripStrip l => negb (existsb (cname_eqb name) l)
  end.
Proof. exact strip_keep_spec. Qed.
Print Assumptions C07_policy_is_documented.

Theorem C07_critical_never_stripped : forall o s st c, is_critical (c_name c) = true ->
  from_slice_step (with_strip o s) st c = from_slice_step o st c.
Proof. exact critical_never_stripped. Qed.
Print Assumptions C07_critical_never_stripped.

Theorem C07_stripped_absent : forall o st c, is_critical (c_name c) = false -> strip_keep (strip o) (c_name c) = false ->
  from_slice_step o st c = Ok st.
Proof. exact stripped_is_ignored. Qed.
Print Assumptions C07_stripped_absent.

Theorem C07_kept_identical : forall o st c, is_critical (c_name c) = false -> strip_keep (strip o) (c_name c) = true ->
  is_c2pa (c_name c) (c_data c) = false ->
  cname_eqb (c_name c) name_acTL = false ->
  cname_eqb (c_name c) name_fcTL = false -> cname_eqb (c_name c) name_fdAT = false ->
  exists st', from_slice_step o st c = Ok st' /\ fs_aux st' = c :: fs_aux st /\ fs_idat st' = fs_idat st /\ fs_frames st' = fs_frames st.
Proof. exact kept_is_recorded. Qed.
Print Assumptions C07_kept_identical.

Theorem C07_c2pa : forall o st c, is_critical (c_name c) = false -> is_c2pa (c_name c) (c_data c) = true ->
  from_slice_step o st c =
    if strip_keep (strip o) (c_name c) then (if strip_is_none (strip o) then Ok st else Err EC2PA) else Ok st.
Proof. exact c2pa_policy. Qed.
Print Assumptions C07_c2pa.

Theorem C07_conditional_drops : forall aux hd orig,
  postprocess_chunks aux hd orig =
  List.filter (fun c =>
    negb ((negb (depth orig =? depth hd) || negb (color_type_eqb (ctype orig) (ctype hd))) && droppable_on_format_change (c_name c))
    && negb (negb (Bool.eqb (is_gray (ctype orig)) (is_gray (ctype hd))) && droppable_on_gray_change (c_name c))) aux.
Proof. exact postprocess_spec. Qed.
Print Assumptions C07_conditional_drops.

Theorem C07_none_invented : forall aux hd orig c, In c (postprocess_chunks aux hd orig) -> In c aux.
Proof. exact postprocess_sublist. Qed.
Print Assumptions C07_none_invented.

(* ================================================================ FILE TO FILE *)
From OxiVerif Require Import Spec.Decode Spec.DecodeFile Model.Evaluate Model.Optimize Proofs.OutputProofs Proofs.InputParse Proofs.ApngProofs
  Proofs.ContainerOk Proofs.ChunkFlow.

(* the ancillary list PngData::from_slice builds from a file, as a closed formula over the specification's chunk list of that file *)
Theorem C07_parsed_ancillary_list : forall e o bytes p cs, bytes_ok bytes ->
  from_slice e bytes o = Ok p -> spec_parse_png bytes = Some cs ->
  aux_chunks p = collect_aux o true (map as_chunk (removelast cs)).
Proof. exact from_slice_aux. Qed.
Print Assumptions C07_parsed_ancillary_list.

(* ... which, for a file whose image data starts with a non-empty IDAT chunk, is: the kept chunks before it (each once, in file
   order), the marker, the kept chunks after it (each once, in file order).  kept_at = not picture-defining, kept by the strip
   policy, animation chunks only all together, not a C2PA manifest, not a frame chunk *)
Theorem C07_parsed_closed_form : forall o before idat after,
  Forall (fun c => cname_eqb (c_name c) name_IDAT = false) before ->
  cname_eqb (c_name idat) name_IDAT = true -> c_data idat <> [] ->
  collect_aux o true (before ++ idat :: after)
  = List.filter (kept_at o true) before ++ {| c_name := c_name idat; c_data := [] |} :: List.filter (kept_at o false) after.
Proof. exact collect_aux_closed_form. Qed.
Print Assumptions C07_parsed_closed_form.

Theorem C07_parse_invents_nothing : forall o cs ie c, In c (collect_aux o ie cs) ->
  (cname_eqb (c_name c) name_IDAT = true /\ c_data c = []) \/ (In c cs /\ kept0 o c = true).
Proof. exact collect_aux_in. Qed.
Print Assumptions C07_parse_invents_nothing.

(* the conditional drops are a filter that acts separately on the two sides of the image data *)
Theorem C07_postprocess_each_side : forall pre m post hd orig, cname_eqb (c_name m) name_IDAT = true ->
  postprocess_chunks (pre ++ m :: post) hd orig = List.filter (pp_keep hd orig) pre ++ m :: List.filter (pp_keep hd orig) post.
Proof. exact postprocess_around_marker. Qed.
Print Assumptions C07_postprocess_each_side.

(* what is written for an ancillary list pre ++ marker :: post: IHDR, the chunks of pre that precede PLTE, PLTE/tRNS, the chunks of
   pre that must follow PLTE, IDAT, the frames, post, IEND *)
Theorem C07_written_closed_form : forall p pre m post,
  aux_chunks p = pre ++ m :: post ->
  Forall (fun c => cname_eqb (c_name c) name_IDAT = false) pre -> cname_eqb (c_name m) name_IDAT = true ->
  Forall (fun c => cname_eqb (c_name c) name_IDAT = false) post ->
  output_chunks p =
    (name_IHDR, to_be32 (width (hdr (raw p))) ++ to_be32 (height (hdr (raw p))) ++
                [depth (hdr (raw p)); png_header_code (ctype (hdr (raw p))); 0; 0; if interlaced (hdr (raw p)) then 1 else 0])
    :: map as_pair (List.filter (fun c => negb (after_plte c)) pre)
    ++ key_chunks (hdr (raw p))
    ++ map as_pair (List.filter (write_special (hdr (raw p))) pre)
    ++ (name_IDAT, idat_data p)
    :: frame_chunk_list (frames p) (lenZ (List.filter (fun c => cname_eqb (c_name c) name_fcTL) (List.filter (write_special (hdr (raw p))) pre)))
    ++ map as_pair post ++ [(name_IEND, [])].
Proof. exact written_closed_form. Qed.
Print Assumptions C07_written_closed_form.

(* FILE TO FILE: the result is the input, or the serialisation of a PngData whose ancillary list is the parsed list after the ICC
   decision (C14) and - when something was emitted - the conditional drops, and whose frames carry the same fields *)
Theorem C07_file_chunk_flow : forall e o bytes out cs, bytes_ok bytes ->
  spec_parse_png bytes = Some cs -> optimize_from_memory e o bytes = Ok out ->
  out = bytes \/
  exists p p', from_slice e bytes o = Ok p /\ optimize_png_data e p o = Ok p' /\ out = output p' /\
    output p' = PNG_SIG ++ serialize (output_chunks p') /\
    let aux0 := collect_aux o true (map as_chunk (removelast cs)) in
    let aux1 := fst (preprocess_chunks e aux0 o) in
    aux_chunks p = aux0 /\
    (aux_chunks p' = aux1 \/ aux_chunks p' = postprocess_chunks aux1 (hdr (raw p')) (hdr (raw p))) /\
    Forall2 (fun a b => same_frame_fields a b /\ (f_data b = f_data a \/ lenZ (f_data b) < lenZ (f_data a))) (frames p) (frames p').
Proof. exact chunk_flow. Qed.
Print Assumptions C07_file_chunk_flow.

(* ORDER. Proved: the chunks before the image data are written as two classes, each in its own order (..._partial). The full
   statement "same relative order" is FALSE of the code (finding F9): witness below, bKGD pHYs is written pHYs bKGD *)
Theorem C07_order_partial : forall p, exists pre,
  written_before p = map as_pair (List.filter (fun c => negb (after_plte c)) pre) ++ map as_pair (List.filter (write_special (hdr (raw p))) pre).
Proof. exact written_before_two_classes. Qed.
Print Assumptions C07_order_partial.

Theorem C07_order_refuted :
  map fst (map as_pair (match split_idat (aux_chunks f9_png) [] with x :: _ => x | [] => [] end)) = [name_bKGD; [112; 72; 89; 115]] /\
  map fst (written_before f9_png) = [[112; 72; 89; 115]; name_bKGD].
Proof. exact written_order_refuted. Qed.
Print Assumptions C07_order_refuted.

(* the ICC decision (C14_decision_table) rewrites the side of the image data on which the first iCCP chunk stands, and only that
   chunk: with C07_parsed_closed_form, C07_postprocess_each_side and C07_written_closed_form this makes the chunk sequence of the
   output an explicit function of the chunk sequence of the input *)
From OxiVerif Require Import Proofs.IccSplit.
Theorem C07_icc_decision_each_side : forall pre m post d, cname_eqb (c_name m) name_IDAT = true ->
  apply_icc_decision (pre ++ m :: post) d =
  match chunk_position name_iCCP pre 0 with
  | Some _ => apply_icc_decision pre d ++ m :: post
  | None => pre ++ m :: apply_icc_decision post d
  end.
Proof. exact apply_icc_around_idat. Qed.
Print Assumptions C07_icc_decision_each_side.

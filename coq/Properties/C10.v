(* C10 — Animated PNGs keep every frame, its timing and its pixels.
   PROVED on the model: recompression preserves number, order and every fcTL field of the frames and
   replaces frame data only by strictly smaller data; fcTL serialisation/parsing are inverse on all
   fields; the sequence numbers written are consecutive; when the policy does not keep all three
   animation chunk types they are all ignored (plain PNG of the default image; after fix 0e2fef8).
   FRAME PIXELS (C10_frame_pixels): a frame's data is replaced only by the compression of a stream that the specification's
   decoder - frame dimensions, the image's colour type, depth and interlacing - maps to the same picture as the frame's old
   data (alpha-equivalent under alpha optimisation), for all ten filter strategies, every compressor, every subset of
   frames skipped by the clock. Colour type / bit depth / interlacing are unchanged because preprocess_chunks disables
   all reductions when acTL is present (C14_decision_table) and C08 applies.
   FILE TO FILE (second half): the animation read by the APNG specification (Spec/Apng.v) from the input and from the written chunk
   sequence - same frames, fields, default-image flag, play count; header untouched; every frame the same picture. *)
From OxiVerif Require Import Base.Common Spec.Adam7 Model.Types Model.Options Model.Headers Model.PngData Model.Optimize
  Proofs.ChunkProofs Proofs.ApngProofs Proofs.LiftColor Proofs.FramePixels.

Theorem C10_frames_preserved : forall e o p f fs', recompress_frames e o p f = Ok fs' ->
  Forall2 (fun a b => same_frame_fields a b /\ (f_data b = f_data a \/ lenZ (f_data b) < lenZ (f_data a))) (frames p) fs'.
Proof. exact recompress_frames_top. Qed.
Print Assumptions C10_frames_preserved.

Theorem C10_fctl_roundtrip : forall f s, frame_in_range f -> 0 <= s < 2 ^ 32 ->
  exists g, frame_from_fctl (fctl_data f s) = Ok g /\ same_frame_fields f g /\ f_data g = [] /\ be32_of (fctl_data f s) = s.
Proof. exact fctl_roundtrip. Qed.
Print Assumptions C10_fctl_roundtrip.

Theorem C10_sequence_consecutive : forall fs s,
  map snd (frame_chunks fs s) = map (fun k => s + Z.of_nat k) (seq 0 (2 * length fs)).
Proof. exact frame_sequence_consecutive. Qed.
Print Assumptions C10_sequence_consecutive.

Theorem C10_stripped_is_plain_png : forall o st c,
  (cname_eqb (c_name c) name_acTL || cname_eqb (c_name c) name_fcTL || cname_eqb (c_name c) name_fdAT) = true ->
  (strip_keep (strip o) name_acTL && strip_keep (strip o) name_fcTL && strip_keep (strip o) name_fdAT) = false ->
  from_slice_step o st c = Ok st.
Proof. exact animation_stripped_together. Qed.
Print Assumptions C10_stripped_is_plain_png.

(* every frame still shows the same picture (under the zlib oracle assumptions; sizes within usize) *)
Theorem C10_frame_pixels : forall e (inflate : list Z -> option (list Z)) o p f fs',
  (forall x n y, z_inflate e x n = Ok y -> inflate x = Some y /\ bytes_ok y) ->
  (forall d s, inflate (z_deflate e d s) = Some s) ->
  wf_ctype (ctype (hdr (raw p))) (depth (hdr (raw p))) ->
  Forall (fun fr => spec_raw_size (f_width fr) (f_height fr) (bpp (hdr (raw p))) (interlaced (hdr (raw p))) true <= usize_max) (frames p) ->
  recompress_frames e o p f = Ok fs' ->
  Forall2 (fun a b => frame_same (optimize_alpha o) (frame_picture inflate (hdr (raw p)) a) (frame_picture inflate (hdr (raw p)) b)) (frames p) fs'.
Proof. exact recompress_frames_top_pixels. Qed.
Print Assumptions C10_frame_pixels.

(* ================================================================ FILE TO FILE, against the APNG specification (Spec/Apng.v) *)
From OxiVerif Require Import Spec.Decode Spec.DecodeFile Spec.Apng Model.Evaluate Proofs.OutputProofs Proofs.InputParse Proofs.ChunkFlow Proofs.ApngFile.

(* the animation the specification reads from the input file = the fcTL chunks from_slice keeps among the ancillary chunks (the
   default image as first frame), then the parsed frames; those fcTL chunks carry the sequence numbers 0, 1, ... *)
Theorem C10_parsed_animation : forall e o bytes p cs fr, keeps_animation o -> bytes_ok bytes ->
  from_slice e bytes o = Ok p -> spec_parse_png bytes = Some cs ->
  Forall (fun c => named spec_IDAT c = true -> snd c <> []) cs ->
  spec_apng_frames cs = Some fr ->
  fr = map default_of (List.filter is_fctl (aux_chunks p)) ++ map sframe_of (frames p) /\
  seqs_ok (List.filter is_fctl (aux_chunks p)) 0.
Proof. exact from_slice_animation. Qed.
Print Assumptions C10_parsed_animation.

(* the animation the specification reads from the chunk sequence WRITTEN for a PngData whose ancillary list is pre ++ marker :: post:
   the sequence numbers written are accepted (consecutive from 0), every frame has exactly the fields of the model frame and its
   data, in order *)
Theorem C10_written_animation : forall p pre m post,
  aux_chunks p = pre ++ m :: post ->
  Forall (fun c => cname_eqb (c_name c) name_fdAT = false /\ cname_eqb (c_name c) name_IDAT = false) pre ->
  cname_eqb (c_name m) name_IDAT = true -> Forall no_frame_chunk post ->
  seqs_ok (List.filter is_fctl pre) 0 -> Forall frame_in_range (frames p) ->
  lenZ (List.filter is_fctl pre) + 2 * lenZ (frames p) < 2 ^ 32 ->
  spec_apng_frames (output_chunks p) = Some (map default_of (List.filter is_fctl pre) ++ map sframe_of (frames p)).
Proof. exact written_animation. Qed.
Print Assumptions C10_written_animation.

(* FILE TO FILE: for every input the specification reads as an animation (animation chunks kept by the policy, file below 4 GiB,
   no empty IDAT chunk), the result is the input or the serialisation of a chunk sequence whose animation, read by the specification,
   has the same number of frames in the same order with identical size, offset, delay, dispose and blend fields and the same
   default-image flag, frame data unchanged or strictly smaller (their pixels: C10_frame_pixels) *)
Theorem C10_file_to_file : forall e o bytes out cs fr,
  keeps_animation o -> bytes_ok bytes -> lenZ bytes < 2 ^ 32 ->
  spec_parse_png bytes = Some cs ->
  Forall (fun c => named spec_IDAT c = true -> snd c <> []) cs ->
  spec_apng_frames cs = Some fr ->
  optimize_from_memory e o bytes = Ok out ->
  out = bytes \/
  exists p', out = output p' /\ output p' = PNG_SIG ++ serialize (output_chunks p') /\
    exists fr', spec_apng_frames (output_chunks p') = Some fr' /\ Forall2 frame_rel fr fr'.
Proof. exact apng_file_to_file. Qed.
Print Assumptions C10_file_to_file.

(* non-vacuity: a two-frame animation (default image is frame 0) read by the specification *)
Example C10_spec_example :
  spec_apng_frames [(spec_IHDR, []); (spec_acTL, [0;0;0;2; 0;0;0;0]);
                    (spec_fcTL, [0;0;0;0; 0;0;0;4; 0;0;0;3; 0;0;0;0; 0;0;0;0; 0;1; 0;10; 0; 0]); (spec_IDAT, [1; 2; 3]);
                    (spec_fcTL, [0;0;0;1; 0;0;0;2; 0;0;0;1; 0;0;0;1; 0;0;0;2; 0;1; 0;10; 1; 0]); (spec_fdAT, [0;0;0;2; 9; 8]);
                    (spec_fdAT, [0;0;0;3; 7]); (spec_IEND, [])]
  = Some [{| sf_w := 4; sf_h := 3; sf_x := 0; sf_y := 0; sf_delay_num := 1; sf_delay_den := 10; sf_dispose := 0; sf_blend := 0;
             sf_default := true; sf_data := [] |};
          {| sf_w := 2; sf_h := 1; sf_x := 1; sf_y := 2; sf_delay_num := 1; sf_delay_den := 10; sf_dispose := 1; sf_blend := 0;
             sf_default := false; sf_data := [9; 8; 7] |}].
Proof. vm_compute. reflexivity. Qed.

(* ================================================================ a kept animation: header untouched, every frame the same picture *)
From OxiVerif Require Import Spec.Adam7 Spec.Sem Proofs.ContainerOk Proofs.ApngHeader.

(* "the same colour type, bit depth and interlacing": the PngData that is serialised has exactly the header of the parsed input
   (palette / colour key included), because the pre-processing switches every reduction class off for an animation *)
Theorem C10_header_untouched : forall e o p p', has_chunk name_acTL (aux_chunks p) = true ->
  optimize_png_data e p o = Ok p' -> hdr (raw p') = hdr (raw p).
Proof. exact animation_header_untouched. Qed.
Print Assumptions C10_header_untouched.

(* "every frame decodes to the same pixels": under that one header, frame by frame, fields identical and pictures equal
   (alpha-equivalent under alpha optimisation); zlib oracle, sizes within usize *)
Theorem C10_animation_frames_pixels : forall e o p p', has_chunk name_acTL (aux_chunks p) = true ->
  optimize_png_data e p o = Ok p' ->
  forall inflate : list Z -> option (list Z),
  (forall x n y, z_inflate e x n = Ok y -> inflate x = Some y /\ bytes_ok y) ->
  (forall d s, inflate (z_deflate e d s) = Some s) ->
  wf_ctype (ctype (hdr (raw p))) (depth (hdr (raw p))) ->
  Forall (fun fr => spec_raw_size (f_width fr) (f_height fr) (bpp (hdr (raw p))) (interlaced (hdr (raw p))) true <= usize_max) (frames p) ->
  Forall2 (fun a b => same_frame_fields a b /\
                      frame_same (optimize_alpha o) (frame_picture inflate (hdr (raw p)) a) (frame_picture inflate (hdr (raw p)) b))
          (frames p) (frames p').
Proof. exact animation_frames_pixels. Qed.
Print Assumptions C10_animation_frames_pixels.

(* "the same play count": the animation control chunks (acTL: number of frames, number of plays) read from the written chunk
   sequence are exactly those of the input file, in order *)
From OxiVerif Require Import Proofs.ApngControl.
Theorem C10_control_file_to_file : forall e o bytes out cs,
  keeps_animation o -> bytes_ok bytes -> spec_parse_png bytes = Some cs ->
  Forall (fun c => named spec_IDAT c = true -> snd c <> []) cs ->
  optimize_from_memory e o bytes = Ok out ->
  out = bytes \/
  exists p', out = output p' /\ output p' = PNG_SIG ++ serialize (output_chunks p') /\
    List.filter named_actl (output_chunks p') = List.filter named_actl cs /\
    spec_apng_control (output_chunks p') = spec_apng_control cs.
Proof. exact apng_control_file_to_file. Qed.
Print Assumptions C10_control_file_to_file.

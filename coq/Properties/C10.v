(* C10 — Animated PNGs keep every frame, its timing and its pixels.
   PROVED on the model: recompression preserves number, order and every fcTL field of the frames and
   replaces frame data only by strictly smaller data; fcTL serialisation/parsing are inverse on all
   fields; the sequence numbers written are consecutive; when the policy does not keep all three
   animation chunk types they are all ignored (plain PNG of the default image; after fix 0e2fef8).
   FRAME PIXELS (C10_frame_pixels): a frame's data is replaced only by the compression of a stream that the specification's
   decoder - frame dimensions, the image's colour type, depth and interlacing - maps to the same picture as the frame's old
   data (alpha-equivalent under alpha optimisation), for all ten filter strategies, every compressor, every subset of
   frames skipped by the clock. Colour type / bit depth / interlacing are unchanged because preprocess_chunks disables
   all reductions when acTL is present (C14_decision_table) and C08 applies. *)
From OxiVerif Require Import Base.Common Spec.Adam7 Model.Types Model.Options Model.Headers Model.PngData Model.Optimize
  Proofs.ChunkProofs Proofs.ApngProofs Proofs.LiftColor Proofs.FramePixels.

Theorem C10_frames_preserved : forall e o p f fs', recompress_frames e o p f = Ok fs' ->
  Forall2 (fun a b => same_frame_fields a b /\ (f_data b = f_data a \/ lenZ (f_data b) < lenZ (f_data a))) (frames p) fs'.
Proof. exact recompress_frames_top. Qed.
Print Assumptions C10_frames_preserved.

Theorem C10_fctl_roundtrip : forall f s, frame_in_range f -> 0 <= s < 2 ^ 32 ->
  exists g, frame_from_fctl (fctl_data f s) = Ok g /\ same_frame_fields f g /\ f_data g = [] /\ be32_of (fctl_data f s) = s.
Proof. exact fctl_roundtrip. Qed.
Print Assumptions C10_fctl_roundtrip.

Theorem C10_sequence_consecutive : forall fs s,
  map snd (frame_chunks fs s) = map (fun k => s + Z.of_nat k) (seq 0 (2 * length fs)).
Proof. exact frame_sequence_consecutive. Qed.
Print Assumptions C10_sequence_consecutive.

Theorem C10_stripped_is_plain_png : forall o st c,
  (cname_eqb (c_name c) name_acTL || cname_eqb (c_name c) name_fcTL || cname_eqb (c_name c) name_fdAT) = true ->
  (strip_keep (strip o) name_acTL && strip_keep (strip o) name_fcTL && strip_keep (strip o) name_fdAT) = false ->
  from_slice_step o st c = Ok st.
Proof. exact animation_stripped_together. Qed.
Print Assumptions C10_stripped_is_plain_png.

(* every frame still shows the same picture (under the zlib oracle assumptions; sizes within usize) *)
Theorem C10_frame_pixels : forall e (inflate : list Z -> option (list Z)) o p f fs',
  (forall x n y, z_inflate e x n = Ok y -> inflate x = Some y /\ bytes_ok y) ->
  (forall d s, inflate (z_deflate e d s) = Some s) ->
  wf_ctype (ctype (hdr (raw p))) (depth (hdr (raw p))) ->
  Forall (fun fr => spec_raw_size (f_width fr) (f_height fr) (bpp (hdr (raw p))) (interlaced (hdr (raw p))) true <= usize_max) (frames p) ->
  recompress_frames e o p f = Ok fs' ->
  Forall2 (fun a b => frame_same (optimize_alpha o) (frame_picture inflate (hdr (raw p)) a) (frame_picture inflate (hdr (raw p)) b)) (frames p) fs'.
Proof. exact recompress_frames_top_pixels. Qed.
Print Assumptions C10_frame_pixels.

(* C10 — Animated PNGs keep every frame, its timing and its pixels.
   PROVED on the model: recompression preserves number, order and every fcTL field of the frames and
   replaces frame data only by strictly smaller data; fcTL serialisation/parsing are inverse on all
   fields; the sequence numbers written are consecutive; when the policy does not keep all three
   animation chunk types they are all ignored (plain PNG of the default image; after fix 0e2fef8).
   Frame pixels (inflate + reconstruction + Spec.Sem of each frame) are decided per run by the
   oracle; colour type / bit depth / interlacing are unchanged because preprocess_chunks disables
   all reductions when acTL is present (C14_decision_table) and C08 applies. *)
From OxiVerif Require Import Base.Common Model.Types Model.Options Model.Headers Model.PngData Model.Optimize
  Proofs.ChunkProofs Proofs.ApngProofs.

Theorem C10_frames_preserved : forall e o p f fs', recompress_frames e o p f = Ok fs' ->
  Forall2 (fun a b => same_frame_fields a b /\ (f_data b = f_data a \/ lenZ (f_data b) < lenZ (f_data a))) (frames p) fs'.
Proof. exact recompress_frames_top. Qed.
Print Assumptions C10_frames_preserved.

Theorem C10_fctl_roundtrip : forall f s, frame_in_range f -> 0 <= s < 2 ^ 32 ->
  exists g, frame_from_fctl (fctl_data f s) = Ok g /\ same_frame_fields f g /\ f_data g = [] /\ be32_of (fctl_data f s) = s.
Proof. exact fctl_roundtrip. Qed.
Print Assumptions C10_fctl_roundtrip.

Theorem C10_sequence_consecutive : forall fs s,
  map snd (frame_chunks fs s) = map (fun k => s + Z.of_nat k) (seq 0 (2 * length fs)).
Proof. exact frame_sequence_consecutive. Qed.
Print Assumptions C10_sequence_consecutive.

Theorem C10_stripped_is_plain_png : forall o st c,
  (cname_eqb (c_name c) name_acTL || cname_eqb (c_name c) name_fcTL || cname_eqb (c_name c) name_fdAT) = true ->
  (strip_keep (strip o) name_acTL && strip_keep (strip o) name_fcTL && strip_keep (strip o) name_fdAT) = false ->
  from_slice_step o st c = Ok st.
Proof. exact animation_stripped_together. Qed.
Print Assumptions C10_stripped_is_plain_png.

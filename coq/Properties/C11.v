(* C11 — Raw-image API encodes exactly the pixels it was given.
   PROVED: the constructor never panics and accepts exactly the consistent argument tuples;
   the PNG it creates is `output` of a candidate image of the pipeline, so C02 (container), C08
   (dimensions) and the provenance theorem apply; attached chunks pass through the same policy /
   preprocess / postprocess functions as C07 and C14.
   PIXELS (C11_created_decodes): the file created for a raw image that means `pic` (the given samples under the given
   colour type, palette or key, depth) is decoded by the specification's whole-file decoder to `pic` - to an alpha-equivalent
   picture under alpha optimisation - with the chunks the caller attached passing the policy (zlib oracle; attached chunk
   names 4 bytes, not IEND/PLTE/tRNS; dimensions below 2^32).
   ALSO: the attached chunks that are written (closed form) and the --scale16 variant of the pixel theorem. *)
From OxiVerif Require Import Base.Common Model.Types Model.Options Model.Headers Model.PngData Model.Optimize
  Model.Reductions Proofs.RobustProofs Proofs.PipelineProofs Proofs.EffectProofs Proofs.ReductionInv.
From OxiVerif Require Import Spec.Adam7 Spec.Sem Spec.Decode Spec.DecodeFile Proofs.Bridge Proofs.LiftColor Proofs.LiftAlpha Proofs.ContainerOk.

Theorem C11_rejects_not_panics : forall w h c d dat, is_panic (raw_image_new w h c d dat) = false.
Proof. exact raw_image_new_never_panics. Qed.
Print Assumptions C11_rejects_not_panics.

Theorem C11_accepts_iff : forall w h c d dat,
  is_ok (raw_image_new w h c d dat) = true <->
  (match c with Gray _ => True | Indexed _ => d <= 8 | _ => 8 <= d end) /\
  w <> 0 /\ h <> 0 /\ lenZ dat = sat_mul (cdiv (d * channels_per_pixel c * w) 8) h.
Proof. exact raw_image_new_accepts_iff. Qed.
Print Assumptions C11_accepts_iff.

(* the created file serialises an image with the given dimensions that stems from the given one *)
Theorem C11_created_from_candidate : forall e r o out,
  raw_create e r o = Ok out ->
  exists c aux, out = output {| raw := c_image c; idat_data := c_cdata c; aux_chunks := aux; frames := [] |} /\
                width (hdr (c_image c)) = width (hdr (ri_png r)) /\ height (hdr (c_image c)) = height (hdr (ri_png r)).
Proof.
  intros e r o out H. unfold raw_create in H.
  destruct (preprocess_chunks e _ o) as [aux o'].
  destruct (optimize_raw e o' (ri_png r) None) as [[c|]|?|?] eqn:E; cbn [bind] in H; try discriminate.
  injection H as <-. exists c. eexists. split; [reflexivity|].
  apply (emitted_satisfies (fun i => width (hdr i) = width (hdr (ri_png r)) /\ height (hdr i) = height (hdr (ri_png r))) e o' (ri_png r) None c); auto.
  intros b evs Hpr. eapply dims_preserved; eauto.
Qed.
Print Assumptions C11_created_from_candidate.

(* the created file shows the picture the raw image means *)
Theorem C11_created_decodes : forall e o (inflate : list Z -> option (list Z)) r out pic N M,
  scale_16 o = false -> wf (ri_png r) -> sem (ri_png r) = Some pic ->
  0 <= width (hdr (ri_png r)) < 2 ^ 32 -> 0 <= height (hdr (ri_png r)) < 2 ^ 32 ->
  Forall (chunk_ok N) (ri_aux r) -> 0 <= N -> N + 5 <= M -> M + 4 < 2 ^ 31 -> (forall d s, lenZ (z_deflate e d s) <= M) ->
  (forall d s, inflate (z_deflate e d s) = Some s) ->
  raw_create e r o = Ok out ->
  exists pic', spec_decode_png inflate out = Some pic' /\ pic_aequiv pic pic' /\ (optimize_alpha o = false -> pic' = pic).
Proof. exact raw_create_decodes. Qed.
Print Assumptions C11_created_decodes.

(* ================================================================ attached chunks, and the scaled variant *)
From OxiVerif Require Import Model.Reductions Proofs.OutputProofs Proofs.ScaledPipeline Proofs.ChunkFlow Proofs.RawFile.

(* "contains the chunks and ICC profile the caller attached subject to the strip policy": the ancillary list written is the attached
   list filtered by the policy, after the ICC decision (C14_decision_table) and the conditional drops (C07_conditional_drops) *)
Theorem C11_created_chunks : forall e r o out, raw_create e r o = Ok out ->
  exists c, out = output {| raw := c_image c; idat_data := c_cdata c;
                            aux_chunks := postprocess_chunks (fst (preprocess_chunks e (List.filter (fun c => strip_keep (strip o) (c_name c)) (ri_aux r)) o))
                                                             (hdr (c_image c)) (hdr (ri_png r));
                            frames := [] |}.
Proof. exact raw_create_chunks. Qed.
Print Assumptions C11_created_chunks.

(* and where they are written (no attached chunk is named IDAT): before PLTE, PLTE / tRNS, after PLTE, IDAT, IEND *)
Theorem C11_written_closed_form : forall p, frames p = [] ->
  Forall (fun c => cname_eqb (c_name c) name_IDAT = false) (aux_chunks p) ->
  output_chunks p =
    (name_IHDR, to_be32 (width (hdr (raw p))) ++ to_be32 (height (hdr (raw p))) ++
                [depth (hdr (raw p)); png_header_code (ctype (hdr (raw p))); 0; 0; if interlaced (hdr (raw p)) then 1 else 0])
    :: map as_pair (List.filter (fun c => negb (after_plte c)) (aux_chunks p))
    ++ key_chunks (hdr (raw p))
    ++ map as_pair (List.filter (write_special (hdr (raw p))) (aux_chunks p))
    ++ [(name_IDAT, idat_data p); (name_IEND, [])].
Proof. exact raw_written_closed_form. Qed.
Print Assumptions C11_written_closed_form.

(* with 16-bit scaling requested (C15): the created file decodes to the picture of the raw samples with every pixel rounded *)
Theorem C11_created_scaled : forall e o (inflate : list Z -> option (list Z)) r out pic N M,
  optimize_alpha o = false -> scale_16 o = true -> bit_depth_reduction o = true -> dl e S16to8 = false ->
  wf (ri_png r) -> sem (ri_png r) = Some pic -> depth (hdr (ri_png r)) = 16 ->
  0 <= width (hdr (ri_png r)) < 2 ^ 32 -> 0 <= height (hdr (ri_png r)) < 2 ^ 32 ->
  Forall (chunk_ok N) (ri_aux r) -> 0 <= N -> N + 5 <= M -> M + 4 < 2 ^ 31 -> (forall d s, lenZ (z_deflate e d s) <= M) ->
  (forall d s, inflate (z_deflate e d s) = Some s) ->
  Forall (fun c => cname_eqb (c_name c) name_acTL = false) (ri_aux r) ->
  raw_create e r o = Ok out ->
  spec_decode_png inflate out = Some (scaled_picture (ri_png r) pic).
Proof. exact raw_create_scaled. Qed.
Print Assumptions C11_created_scaled.

(* C04 — Never larger: the result is strictly smaller than the input or is the input.
   The statements are about the full pipeline model and hold for EVERY oracle environment: any
   compressor behaviour, any Brute choices, any deadline pattern. The file-routing half
   (in place: no write; other destination: copy of the original) is proved on the I/O model in C12. *)
From OxiVerif Require Import Base.Common Model.Types Model.Options Model.Headers Model.PngData Model.Optimize
  Proofs.PipelineProofs.

Theorem C04_memory : forall (e : env) (o : options) (bytes out : list Z),
  force o = false -> optimize_from_memory e o bytes = Ok out ->
  out = bytes \/ lenZ out < lenZ bytes.
Proof. exact never_larger. Qed.
Print Assumptions C04_memory.

Theorem C04_chain_monotone : forall steps, Forall (fun eo => force (snd eo) = false) steps ->
  forall x, lenZ (chain steps x) <= lenZ x.
Proof. exact chain_never_grows. Qed.
Print Assumptions C04_chain_monotone.

(* repeated runs with the same options reach a byte-level fixed point within length(input) steps *)
Theorem C04_fixed_point : forall (e : env) (o : options), force o = false -> forall x,
  exists n, (n <= length x)%nat /\ opt_step e o (iter (opt_step e o) n x) = iter (opt_step e o) n x.
Proof.
  intros e o Hf x. apply (chain_fixed_point (opt_step e o) (opt_step_shrinks e o Hf) (length x)). lia.
Qed.
Print Assumptions C04_fixed_point.

Theorem C04_is_fully_optimized_spec : forall a b o,
  is_fully_optimized a b o = true <-> (a <= b /\ force o = false).
Proof.
  intros. unfold is_fully_optimized. rewrite andb_true_iff, Z.leb_le, negb_true_iff. tauto.
Qed.
Print Assumptions C04_is_fully_optimized_spec.

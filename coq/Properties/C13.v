(* C13 — A timeout expiring at any moment still yields a correct result.
   In the model the clock is the oracle `dl : site -> bool` (the answer of Deadline::passed() at each
   consultation site: before each transformation, each compression trial, each frame). Every theorem
   about the pipeline is stated for an arbitrary environment, hence for EVERY pattern of answers --
   in particular for "expired from the k-th check on", for every k, and for non-monotone clocks.
   PROVED here: never-larger (C04) under any deadline pattern; the evaluator returns the minimal
   completed trial whichever trials were skipped (tSkip) and in whichever order the others complete.
   FIDELITY under any clock: the file-to-file theorems of C01 / C03 and the frame theorem of C10 are stated for an
   arbitrary environment; they are instantiated here with an explicit, arbitrary clock (C13_fidelity_any_clock,
   C13_alpha_fidelity_any_clock, C13_frames_any_clock), with the hypotheses of those theorems (zlib
   oracle, container side conditions). Every landing point k and explicit answer patterns over the frame checks
   are additionally replayed and decoded by the specification on every run. *)
From OxiVerif Require Import Base.Common Spec.Adam7 Spec.Sem Spec.Decode Spec.DecodeFile Model.Types Model.Options Model.Headers Model.PngData Model.Evaluate Model.Optimize
  Proofs.EvalProofs Proofs.PipelineProofs Proofs.LiftColor Proofs.LiftAlpha Proofs.PipelineLossless Proofs.FileToFile Proofs.FramePixels.

(* the same statement as C04, made explicit for an arbitrary clock *)
Theorem C13_never_larger_any_landing : forall (zd : deflater -> list Z -> list Z) zi br (clock : site -> bool)
    (o : options) (bytes out : list Z),
  force o = false ->
  optimize_from_memory {| z_deflate := zd; z_inflate := zi; e_brute := br; dl := clock |} o bytes = Ok out ->
  out = bytes \/ lenZ out < lenZ bytes.
Proof. intros. eapply never_larger; eauto. Qed.
Print Assumptions C13_never_larger_any_landing.

(* expiry seen by some trials (skip flags arbitrary): every schedule of the remaining trials still
   yields the key-minimal trial among those that ran and fit under the bound *)
Theorem C13_evaluator_with_skips : forall trials init es s,
  (forall t, In t trials -> 0 <= tK t) -> NoDup (map ident trials) ->
  run trials (init_state trials init) es = Some s -> complete s ->
  match min_by_key (received s) with
  | Some m => In m trials /\ tSkip m = false /\ le_bound (tL m) init = true /\
              forall t, In t trials -> eligible init t = true -> t = m \/ key_lt m t
  | None => forall t, In t trials -> eligible init t = false
  end.
Proof.
  intros trials init es s HK Hnd Hrun Hc.
  rewrite (schedule_result_is_best_of trials init es s HK Hnd Hrun Hc).
  pose proof (best_of_spec init trials Hnd) as H. destruct (best_of init trials) as [m|]; [|exact H].
  destruct H as (Hin & Hel & Hmin). unfold eligible in Hel. apply andb_true_iff in Hel. destruct Hel as [H1 H2].
  split; [exact Hin|]. split; [destruct (tSkip m); [discriminate|reflexivity]|]. split; [exact H2|exact Hmin].
Qed.
Print Assumptions C13_evaluator_with_skips.

(* if every trial saw the deadline expired, nothing is returned (and the caller keeps the input) *)
Theorem C13_all_skipped : forall trials init, (forall t, In t trials -> tSkip t = true) -> best_of init trials = None.
Proof.
  intros trials init H. unfold best_of.
  assert (G : forall l b, (forall t, In t l -> tSkip t = true) -> best_of_go init l b = b).
  { induction l as [|t r IH]; intros b Hl; cbn [best_of_go]; [reflexivity|].
    unfold eligible. rewrite (Hl t (or_introl eq_refl)). cbn [negb andb]. apply IH. intros u Hu. apply Hl. right. exact Hu. }
  apply G. exact H.
Qed.
Print Assumptions C13_all_skipped.

(* fidelity, whichever checks of the clock see it expired (clock : site -> bool arbitrary, not even monotone) *)
Theorem C13_fidelity_any_clock : forall zd zi br (clock : site -> bool) o (inflate : list Z -> option (list Z)) bytes out pic nm ih rest,
  let e := {| z_deflate := zd; z_inflate := zi; e_brute := br; dl := clock |} in
  optimize_alpha o = false -> scale_16 o = false ->
  bytes_ok bytes ->
  spec_parse_png bytes = Some ((nm, ih) :: rest) ->
  spec_decode_chunks inflate ((nm, ih) :: rest) = Some pic ->
  List.filter (named spec_IHDR) rest = [] ->
  (length (List.filter (named spec_PLTE) rest) <= 1)%nat -> (length (List.filter (named spec_tRNS) rest) <= 1)%nat ->
  (forall x n y, z_inflate e x n = Ok y -> inflate x = Some y /\ bytes_ok y) ->
  (forall d s, inflate (z_deflate e d s) = Some s) ->
  (forall p, from_slice e bytes o = Ok p ->
     spec_raw_size (width (hdr (raw p))) (height (hdr (raw p))) (bpp (hdr (raw p))) (interlaced (hdr (raw p))) true <= usize_max /\
     wf_ctype (ctype (hdr (raw p))) (depth (hdr (raw p)))) ->
  optimize_from_memory e o bytes = Ok out ->
  out = bytes \/ exists p', out = output p' /\ (container_ok p' -> spec_decode_png inflate (output p') = Some pic).
Proof. intros zd zi br clock o inflate bytes out pic nm ih rest e. exact (optimize_from_memory_lossless_partial e o inflate bytes out pic nm ih rest). Qed.
Print Assumptions C13_fidelity_any_clock.

Theorem C13_alpha_fidelity_any_clock : forall zd zi br (clock : site -> bool) o (inflate : list Z -> option (list Z)) bytes out pic nm ih rest,
  let e := {| z_deflate := zd; z_inflate := zi; e_brute := br; dl := clock |} in
  scale_16 o = false ->
  bytes_ok bytes ->
  spec_parse_png bytes = Some ((nm, ih) :: rest) ->
  spec_decode_chunks inflate ((nm, ih) :: rest) = Some pic ->
  List.filter (named spec_IHDR) rest = [] ->
  (length (List.filter (named spec_PLTE) rest) <= 1)%nat -> (length (List.filter (named spec_tRNS) rest) <= 1)%nat ->
  (forall x n y, z_inflate e x n = Ok y -> inflate x = Some y /\ bytes_ok y) ->
  (forall d s, inflate (z_deflate e d s) = Some s) ->
  (forall p, from_slice e bytes o = Ok p ->
     spec_raw_size (width (hdr (raw p))) (height (hdr (raw p))) (bpp (hdr (raw p))) (interlaced (hdr (raw p))) true <= usize_max /\
     wf_ctype (ctype (hdr (raw p))) (depth (hdr (raw p)))) ->
  optimize_from_memory e o bytes = Ok out ->
  out = bytes \/ exists p', out = output p' /\
    (container_ok p' -> exists pic', spec_decode_png inflate (output p') = Some pic' /\ pic_aequiv pic pic').
Proof. intros zd zi br clock o inflate bytes out pic nm ih rest e. exact (optimize_from_memory_alpha_partial e o inflate bytes out pic nm ih rest). Qed.
Print Assumptions C13_alpha_fidelity_any_clock.

(* animated images: whichever frames the clock lets through, every frame still shows its picture *)
Theorem C13_frames_any_clock : forall zd zi br (clock : site -> bool) (inflate : list Z -> option (list Z)) o p f fs',
  let e := {| z_deflate := zd; z_inflate := zi; e_brute := br; dl := clock |} in
  (forall x n y, z_inflate e x n = Ok y -> inflate x = Some y /\ bytes_ok y) ->
  (forall d s, inflate (z_deflate e d s) = Some s) ->
  wf_ctype (ctype (hdr (raw p))) (depth (hdr (raw p))) ->
  Forall (fun fr => spec_raw_size (f_width fr) (f_height fr) (bpp (hdr (raw p))) (interlaced (hdr (raw p))) true <= usize_max) (frames p) ->
  recompress_frames e o p f = Ok fs' ->
  Forall2 (fun a b => frame_same (optimize_alpha o) (frame_picture inflate (hdr (raw p)) a) (frame_picture inflate (hdr (raw p)) b)) (frames p) fs'.
Proof. intros zd zi br clock inflate o p f fs' e. exact (recompress_frames_top_pixels e inflate o p f fs'). Qed.
Print Assumptions C13_frames_any_clock.

(* ================================================================ the complete file-to-file statements under an arbitrary clock *)
From OxiVerif Require Import Spec.Apng Proofs.ContainerOk Proofs.ChunkFlow Proofs.ApngFile Proofs.OutputProofs.

(* C01 file to file without any container hypothesis, whichever checks of the clock see it expired *)
Theorem C13_file_to_file_any_clock : forall zd zi br (clock : site -> bool) o (inflate : list Z -> option (list Z)) bytes out pic nm ih rest M,
  let e := {| z_deflate := zd; z_inflate := zi; e_brute := br; dl := clock |} in
  optimize_alpha o = false -> scale_16 o = false ->
  bytes_ok bytes -> lenZ bytes + 5 <= M -> M + 4 < 2 ^ 31 -> (forall d s, lenZ (z_deflate e d s) <= M) ->
  spec_parse_png bytes = Some ((nm, ih) :: rest) ->
  spec_decode_chunks inflate ((nm, ih) :: rest) = Some pic ->
  List.filter (named spec_IHDR) rest = [] ->
  (length (List.filter (named spec_PLTE) rest) <= 1)%nat -> (length (List.filter (named spec_tRNS) rest) <= 1)%nat ->
  (forall x n y, z_inflate e x n = Ok y -> inflate x = Some y /\ bytes_ok y) ->
  (forall d s, inflate (z_deflate e d s) = Some s) ->
  (forall p, from_slice e bytes o = Ok p ->
     spec_raw_size (width (hdr (raw p))) (height (hdr (raw p))) (bpp (hdr (raw p))) (interlaced (hdr (raw p))) true <= usize_max /\
     wf_ctype (ctype (hdr (raw p))) (depth (hdr (raw p)))) ->
  optimize_from_memory e o bytes = Ok out ->
  spec_decode_png inflate out = Some pic.
Proof. intros zd zi br clock o inflate bytes out pic nm ih rest M e. exact (optimize_from_memory_lossless e o inflate bytes out pic nm ih rest M). Qed.
Print Assumptions C13_file_to_file_any_clock.

(* the animation read by the APNG specification, whichever frames the clock lets through *)
Theorem C13_animation_any_clock : forall zd zi br (clock : site -> bool) o bytes out cs fr,
  let e := {| z_deflate := zd; z_inflate := zi; e_brute := br; dl := clock |} in
  keeps_animation o -> bytes_ok bytes -> lenZ bytes < 2 ^ 32 ->
  spec_parse_png bytes = Some cs ->
  Forall (fun c => named spec_IDAT c = true -> snd c <> []) cs ->
  spec_apng_frames cs = Some fr ->
  optimize_from_memory e o bytes = Ok out ->
  out = bytes \/
  exists p', out = output p' /\ output p' = PNG_SIG ++ serialize (output_chunks p') /\
    exists fr', spec_apng_frames (output_chunks p') = Some fr' /\ Forall2 frame_rel fr fr'.
Proof. intros zd zi br clock o bytes out cs fr e. exact (apng_file_to_file e o bytes out cs fr). Qed.
Print Assumptions C13_animation_any_clock.

(* C13 — A timeout expiring at any moment still yields a correct result.
   In the model the clock is the oracle `dl : site -> bool` (the answer of Deadline::passed() at each
   consultation site: before each transformation, each compression trial, each frame). Every theorem
   about the pipeline is stated for an arbitrary environment, hence for EVERY pattern of answers --
   in particular for "expired from the k-th check on", for every k, and for non-monotone clocks.
   PROVED here: never-larger (C04) under any deadline pattern; the evaluator returns the minimal
   completed trial whichever trials were skipped (tSkip) and in whichever order the others complete.
   Fidelity (C01/C03) and well-formedness (C02) under deadlines are decided per run for every landing
   point k by correspondence + specification oracle (their general theorems are partial, see C01/C02). *)
From OxiVerif Require Import Base.Common Model.Types Model.Options Model.Evaluate Model.Optimize
  Proofs.EvalProofs Proofs.PipelineProofs.

(* the same statement as C04, made explicit for an arbitrary clock *)
Theorem C13_never_larger_any_landing : forall (zd : deflater -> list Z -> list Z) zi br (clock : site -> bool)
    (o : options) (bytes out : list Z),
  force o = false ->
  optimize_from_memory {| z_deflate := zd; z_inflate := zi; e_brute := br; dl := clock |} o bytes = Ok out ->
  out = bytes \/ lenZ out < lenZ bytes.
Proof. intros. eapply never_larger; eauto. Qed.
Print Assumptions C13_never_larger_any_landing.

(* expiry seen by some trials (skip flags arbitrary): every schedule of the remaining trials still
   yields the key-minimal trial among those that ran and fit under the bound *)
Theorem C13_evaluator_with_skips : forall trials init es s,
  (forall t, In t trials -> 0 <= tK t) -> NoDup (map ident trials) ->
  run trials (init_state trials init) es = Some s -> complete s ->
  match min_by_key (received s) with
  | Some m => In m trials /\ tSkip m = false /\ le_bound (tL m) init = true /\
              forall t, In t trials -> eligible init t = true -> t = m \/ key_lt m t
  | None => forall t, In t trials -> eligible init t = false
  end.
Proof.
  intros trials init es s HK Hnd Hrun Hc.
  rewrite (schedule_result_is_best_of trials init es s HK Hnd Hrun Hc).
  pose proof (best_of_spec init trials Hnd) as H. destruct (best_of init trials) as [m|]; [|exact H].
  destruct H as (Hin & Hel & Hmin). unfold eligible in Hel. apply andb_true_iff in Hel. destruct Hel as [H1 H2].
  split; [exact Hin|]. split; [destruct (tSkip m); [discriminate|reflexivity]|]. split; [exact H2|exact Hmin].
Qed.
Print Assumptions C13_evaluator_with_skips.

(* if every trial saw the deadline expired, nothing is returned (and the caller keeps the input) *)
Theorem C13_all_skipped : forall trials init, (forall t, In t trials -> tSkip t = true) -> best_of init trials = None.
Proof.
  intros trials init H. unfold best_of.
  assert (G : forall l b, (forall t, In t l -> tSkip t = true) -> best_of_go init l b = b).
  { induction l as [|t r IH]; intros b Hl; cbn [best_of_go]; [reflexivity|].
    unfold eligible. rewrite (Hl t (or_introl eq_refl)). cbn [negb andb]. apply IH. intros u Hu. apply Hl. right. exact Hu. }
  apply G. exact H.
Qed.
Print Assumptions C13_all_skipped.

(* C14 — Colour-space metadata stays consistent with the pixel format.
   PROVED on the model of preprocess_chunks / postprocess_chunks (for every zlib oracle):
   the complete decision table (C14_decision_table), and its reading in the words of the property.
   DOWN TO WHAT IS WRITTEN (end of this file): grayness of the image written under a kept profile / sRGB tag; no sRGB / iCCP chunk after a move. *)
From OxiVerif Require Import Base.Common Model.Types Model.Options Model.Headers Proofs.ChunkProofs.

(* preprocess_chunks is exactly: apply the ICC decision to the chunk list, and switch off
   grayscale conversion unless allowed (and all reductions for APNG) *)
Theorem C14_decision_table : forall e aux o,
  fst (preprocess_chunks e aux o) = apply_icc_decision aux (icc_decide e aux o) /\
  let o' := snd (preprocess_chunks e aux o) in
  let apng := has_chunk name_acTL (apply_icc_decision aux (icc_decide e aux o)) in
  grayscale_reduction o' = (grayscale_reduction o && gray_allowed e aux o && negb apng) /\
  bit_depth_reduction o' = (bit_depth_reduction o && negb apng) /\
  color_type_reduction o' = (color_type_reduction o && negb apng) /\
  palette_reduction o' = (palette_reduction o && negb apng) /\
  interlace o' = (if apng then None else interlace o) /\
  strip o' = strip o /\ deflate o' = deflate o /\ idat_recoding o' = idat_recoding o /\ force o' = force o /\
  optimize_alpha o' = optimize_alpha o /\ scale_16 o' = scale_16 o /\ filter o' = filter o /\
  fast_evaluation o' = fast_evaluation o.
Proof. exact preprocess_chunks_spec. Qed.
Print Assumptions C14_decision_table.

Theorem C14_icc_kept_no_gray_change : forall e aux o,
  (icc_decide e aux o = IccKept \/ exists c, icc_decide e aux o = IccRecompressed c) ->
  grayscale_reduction (snd (preprocess_chunks e aux o)) = false.
Proof. exact icc_kept_no_gray_change. Qed.
Print Assumptions C14_icc_kept_no_gray_change.

Theorem C14_srgb_gray_change_only_if_strip : forall e aux o,
  chunk_position name_iCCP aux O = None -> has_chunk name_sRGB aux = true -> strip_is_none (strip o) = true ->
  grayscale_reduction (snd (preprocess_chunks e aux o)) = false.
Proof. exact srgb_gray_change_only_if_strip. Qed.
Print Assumptions C14_srgb_gray_change_only_if_strip.

Theorem C14_iccp_replaced_only_if : forall e aux o i, icc_decide e aux o = IccReplaced i ->
  strip_is_none (strip o) = false /\ strip_keep (strip o) name_sRGB = true /\
  exists iccp icc, In iccp aux /\ cname_eqb (c_name iccp) name_iCCP = true /\ extract_icc e iccp = Some icc /\
                   srgb_rendering_intent icc = Some i /\ nth_error icc 67 = Some i.
Proof. exact icc_replaced_only_if. Qed.
Print Assumptions C14_iccp_replaced_only_if.

Theorem C14_iccp_dropped_only_if : forall e aux o, icc_decide e aux o = IccDroppedForSrgb ->
  strip_is_none (strip o) = false /\ strip_keep (strip o) name_sRGB = true /\ has_chunk name_sRGB aux = true.
Proof. exact icc_dropped_only_if. Qed.
Print Assumptions C14_iccp_dropped_only_if.

Theorem C14_iccp_recompressed_same_profile : forall e icc d mx c,
  (forall dd x n, lenZ x <= n -> z_inflate e (z_deflate e dd x) n = Ok x) ->
  lenZ icc <= lenZ (z_deflate e d icc) * 2 + 1000 ->
  make_iccp e icc d mx = Ok c -> extract_icc e c = Some icc /\ c_name c = name_iCCP.
Proof. exact iccp_recompressed_same_profile. Qed.
Print Assumptions C14_iccp_recompressed_same_profile.

(* whenever the image moved between grayscale and colour the output carries no sRGB / iCCP chunk *)
Theorem C14_gray_change_drops_colourspace : forall aux hd orig c,
  Bool.eqb (is_gray (ctype orig)) (is_gray (ctype hd)) = false ->
  In c (postprocess_chunks aux hd orig) ->
  cname_eqb (c_name c) name_sRGB = false /\ cname_eqb (c_name c) name_iCCP = false.
Proof.
  intros aux hd orig c Hg Hin. rewrite postprocess_spec in Hin. apply filter_In in Hin. destruct Hin as [_ H].
  rewrite Hg in H. cbn [negb andb] in H. apply andb_true_iff in H. destruct H as [_ H].
  unfold droppable_on_gray_change in H. destruct (cname_eqb (c_name c) name_sRGB), (cname_eqb (c_name c) name_iCCP); cbn in H; try discriminate; auto.
Qed.
Print Assumptions C14_gray_change_drops_colourspace.

(* ================================================================ down to what is written (optimize_png_data = what `output` serialises) *)
From OxiVerif Require Import Model.PngData Model.Evaluate Model.Optimize Proofs.ContainerOk Proofs.SwitchesFile.

(* an ICC profile that is kept (as is or recompressed): the image written has the grayness of the input *)
Theorem C14_written_icc_kept_same_grayness : forall e o p p', optimize_png_data e p o = Ok p' ->
  (icc_decide e (aux_chunks p) o = IccKept \/ exists c, icc_decide e (aux_chunks p) o = IccRecompressed c) ->
  is_gray (ctype (hdr (raw p'))) = is_gray (ctype (hdr (raw p))).
Proof. exact data_icc_kept_same_grayness. Qed.
Print Assumptions C14_written_icc_kept_same_grayness.

(* sRGB-tagged, no ICC profile, stripping disabled: the image written has the grayness of the input *)
Theorem C14_written_srgb_same_grayness : forall e o p p', optimize_png_data e p o = Ok p' ->
  chunk_position name_iCCP (aux_chunks p) O = None -> has_chunk name_sRGB (aux_chunks p) = true -> strip_is_none (strip o) = true ->
  is_gray (ctype (hdr (raw p'))) = is_gray (ctype (hdr (raw p))).
Proof. exact data_srgb_same_grayness. Qed.
Print Assumptions C14_written_srgb_same_grayness.

(* whenever the image written moved between grayscale and colour, no sRGB / iCCP chunk is written *)
Theorem C14_written_gray_change_drops_colourspace : forall e o p p', optimize_png_data e p o = Ok p' ->
  forall c, Bool.eqb (is_gray (ctype (hdr (raw p)))) (is_gray (ctype (hdr (raw p')))) = false -> In c (aux_chunks p') ->
  cname_eqb (c_name c) name_sRGB = false /\ cname_eqb (c_name c) name_iCCP = false.
Proof. exact data_gray_change_drops_colourspace. Qed.
Print Assumptions C14_written_gray_change_drops_colourspace.

(* the buffer guess of extract_icc (2 x compressed + 1000, hypothesis of C14_iccp_recompressed_same_profile) is the literal of the current source *)
From OxiVerif Require Import Proofs.SrcLiteralIcc.
From OxiVerif Require Gen.SrcConsts.
Theorem C14_icc_guess_literal_is_source : SrcConsts.src_icc_guess_factor = 2 /\ SrcConsts.src_icc_guess_slack = 1000.
Proof. exact icc_guess_is_source. Qed.
Print Assumptions C14_icc_guess_literal_is_source.

(* C16 — Optimisation always terminates, whatever the thread-pool shape.
   The collector / task protocol of the Evaluator (submit; drop sender; wait until every submitted
   task has STARTED, yielding to local work; receive until disconnected) is a labelled transition
   system whose moves belong to the caller, the tasks and the environment (rayon starting a job).
   PROVED for every number of images, every number of filters, every interleaving:
     - no reachable non-final state is stuck, provided the calling thread can run jobs itself
       (it is a worker: yield_local) or some other worker can - in particular on a pool whose ONLY
       available thread is the caller (pool of one; call from inside a worker; all others blocked);
     - while the caller blocks in the channel receive, every task it waits for has already started,
       so the blocked thread is never needed to start anything;
     - every move decreases a measure, so no run is longer than the measure of the first state (no livelock);
     - a run that cannot be extended has returned, with every task finished and the channel empty
       and disconnected: nothing of the call is left in the pool (the pool stays usable);
     - the witness strategy reaches the end from every reachable state.
   Also proved: WITHOUT the wait the protocol deadlocks on a one-thread pool (why the loop is there),
   and a caller outside the pool with no worker available spins for ever (the environment assumption).
   PARTIAL (runtime): that rayon eventually starts a spawned job when a worker is free, work stealing
   and the exact semantics of yield_local are assumptions (cfg_live + the environment moves); the
   inner `par_iter` over filters is modelled as sequential trials of the task. The real code is
   exercised on pools 1..16 x call sites x concurrent images with a watchdog, and its recorded
   protocol events are validated as a run of this transition system. *)
From OxiVerif Require Import Base.Common Model.Sched Proofs.SchedProofs.
Local Open Scope nat_scope.

Theorem C16_no_stuck_state : forall c s, cfg_live c -> SInv s -> cph s <> CDone ->
  exists e s', some_enabled c s = Some e /\ sstep c s e = Some s'.
Proof. exact no_stuck_state. Qed.
Print Assumptions C16_no_stuck_state.

(* the invariant holds in every reachable state *)
Theorem C16_invariant_reachable : forall c es n s, srun c (sinit n) es = Some s -> SInv s.
Proof. intros c es n s H. exact (sinv_run c es _ _ (sinv_init n) H). Qed.
Print Assumptions C16_invariant_reachable.

Theorem C16_blocking_receive_waits_only_for_started_tasks : forall c es n s,
  srun c (sinit n) es = Some s -> cph s = CRecv ->
  forall i t, nth_error (tasks s) i = Some t -> t <> TSpawned.
Proof. exact blocking_receive_waits_only_for_started_tasks. Qed.
Print Assumptions C16_blocking_receive_waits_only_for_started_tasks.

Theorem C16_measure_decreases : forall c s e s', sstep c s e = Some s' -> mu c s' < mu c s.
Proof. exact measure_decreases. Qed.
Print Assumptions C16_measure_decreases.

Theorem C16_no_livelock : forall c es s s', srun c s es = Some s' -> length es + mu c s' <= mu c s.
Proof. exact run_bounded. Qed.
Print Assumptions C16_no_livelock.

Theorem C16_maximal_run_has_returned_and_left_nothing : forall c n es s, cfg_live c ->
  srun c (sinit n) es = Some s -> (forall e, sstep c s e = None) ->
  cph s = CDone /\ Forall (fun t => t = TFinished) (tasks s) /\ senders s = 0 /\ queue s = 0 /\ s_nth s = n /\ s_executed s = n.
Proof. exact maximal_run_is_complete. Qed.
Print Assumptions C16_maximal_run_has_returned_and_left_nothing.

Theorem C16_end_reachable_from_everywhere : forall c, cfg_live c -> forall fuel s, SInv s -> mu c s <= fuel -> cph (drive c fuel s) = CDone.
Proof. exact drive_reaches_done. Qed.
Print Assumptions C16_end_reachable_from_everywhere.

Theorem C16_without_the_wait_a_single_thread_pool_deadlocks :
  exists s, srun_nospin one_thread (sinit 1) [ESubmit; EDropSender; ESpinExit] = Some s /\
            cph s = CRecv /\ (forall e, sstep_nospin one_thread s e = None).
Proof. exact without_the_wait_a_single_thread_pool_deadlocks. Qed.
Print Assumptions C16_without_the_wait_a_single_thread_pool_deadlocks.

Theorem C16_plain_thread_needs_a_worker :
  let c := {| n_filters := 1; caller_is_worker := false; others := false |} in
  exists s, srun c (sinit 1) [ESubmit; EDropSender] = Some s /\ cph s = CSpin /\ (forall e, sstep c s e = None).
Proof. exact plain_thread_needs_a_worker. Qed.
Print Assumptions C16_plain_thread_needs_a_worker.

(* non-vacuity: a concrete run of two images with two filters each on a one-thread pool *)
Example C16_example_run :
  exists s, srun {| n_filters := 2; caller_is_worker := true; others := false |} (sinit 2)
    [ESubmit; ESubmit; EDropSender; EStart 1 true; ETrial 1 true; ETrial 1 false; EFinish 1; EStart 0 true; ETrial 0 true; ETrial 0 true; EFinish 0;
     ESpinExit; ERecv; ERecv; ERecv; ERecvEnd] = Some s /\ cph s = CDone /\ recvd s = 3.
Proof. eexists. split; [vm_compute; reflexivity|]. split; reflexivity. Qed.

(* C06 — Deterministic output regardless of threads, scheduling and the parallel feature.
   The concurrent compression trials are modelled as a labelled transition system (Model/Evaluate.v)
   whose schedule is an arbitrary event list. PROVED: every complete schedule yields the same
   candidate, namely `best_of` (the key-minimal eligible trial), and so does the synchronous fold of
   the non-parallel build. The whole pipeline model (Model/Optimize.v) is a function of
   (zlib oracle, options, input) that only consults `best_of`, hence has no schedule parameter.
   Runtime residue (partial): interleavings inside libdeflate / zopfli / rayon finer than the two
   shared-state accesses per trial are exercised, not modelled.
   ALSO: the frames of an animation are recompressed pointwise - the result for frame k depends on frame k alone (C06_frames_pointwise). *)
From OxiVerif Require Import Base.Common Model.Types Model.Evaluate Proofs.EvalProofs.

Theorem C06_schedule_result_is_best_of : forall trials init es s,
  (forall t, In t trials -> 0 <= tK t) -> NoDup (map ident trials) ->
  run trials (init_state trials init) es = Some s -> complete s ->
  min_by_key (received s) = best_of init trials.
Proof. exact schedule_result_is_best_of. Qed.
Print Assumptions C06_schedule_result_is_best_of.

Theorem C06_schedule_independent : forall trials init es1 es2 s1 s2,
  (forall t, In t trials -> 0 <= tK t) -> NoDup (map ident trials) ->
  run trials (init_state trials init) es1 = Some s1 -> complete s1 ->
  run trials (init_state trials init) es2 = Some s2 -> complete s2 ->
  min_by_key (received s1) = min_by_key (received s2).
Proof. exact schedule_independent. Qed.
Print Assumptions C06_schedule_independent.

(* the build without the `parallel` feature computes the same candidate *)
Theorem C06_non_parallel_build_same : forall init trials,
  (forall t, In t trials -> 0 <= tK t) -> NoDup (map ident trials) ->
  sequential init trials = best_of init trials.
Proof. exact sequential_go_spec. Qed.
Print Assumptions C06_non_parallel_build_same.

(* non-vacuity: three trials, two of which tie on size; two different complete schedules *)
Definition ex_trials : list trial :=
  [ {| tL := 30; tK := 4; tRaw := 16; tFilter := 0; tNth := 0; tSkip := false |};
    {| tL := 30; tK := 4; tRaw := 16; tFilter := 7; tNth := 0; tSkip := false |};
    {| tL := 34; tK := 0; tRaw := 16; tFilter := 0; tNth := 1; tSkip := false |} ].
Example C06_example :
  exists s1 s2,
    run ex_trials (init_state ex_trials None) [Read 0; Read 1; Read 2; Publish 2; Publish 1; Publish 0] = Some s1 /\
    run ex_trials (init_state ex_trials None) [Read 2; Publish 2; Read 1; Publish 1; Read 0; Publish 0] = Some s2 /\
    completeb s1 = true /\ completeb s2 = true /\
    min_by_key (received s1) = min_by_key (received s2) /\ min_by_key (received s1) = nth_error ex_trials 2.
Proof. eexists. eexists. split; [vm_compute; reflexivity|]. split; [vm_compute; reflexivity|]. vm_compute. auto. Qed.

(* ================================================================ the frames of an animation *)
From OxiVerif Require Import Model.Types Model.Options Model.Headers Model.PngData Model.Optimize Proofs.FramesIndependent.

(* the result for frame k is a function of frame k, its position and the oracles' answers for that frame alone: nothing a schedule
   (or another frame's failure) could influence *)
Theorem C06_frames_pointwise : forall e o hd f fs i fs',
  recompress_frames_go e o hd f i fs = Ok fs' ->
  length fs' = length fs /\ forall k fr, nth_error fs k = Some fr -> exists fr', nth_error fs' k = Some fr' /\ frame_result e o hd f (i + k) fr = Ok fr'.
Proof. exact recompress_frames_pointwise. Qed.
Print Assumptions C06_frames_pointwise.

Theorem C06_frames_error_is_local : forall e o hd f fs i,
  (forall fs', recompress_frames_go e o hd f i fs <> Ok fs') ->
  exists k fr, nth_error fs k = Some fr /\ forall fr', frame_result e o hd f (i + k) fr <> Ok fr'.
Proof. exact recompress_frames_error_is_local. Qed.
Print Assumptions C06_frames_error_is_local.

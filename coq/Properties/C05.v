(* C05 — Any byte string is handled without panic, abort, overflow or runaway memory.
   In the model every Rust panic point (assert, index, unwrap, unreachable, arithmetic overflow of the
   dev profile) is an explicit `Panic` value. PROVED: the chunk walker ends within its fuel and never
   panics, for every byte string and every policy; header parsing never panics and only legal
   colour-type / bit-depth pairs come out; an image is decoded only if its decoded size is below
   1032 x (compressed size + 1) bytes and its dimensions are non-zero, and the unfiltered data is no
   longer than that size (so requests are bounded by a fixed multiple of the bytes present).
   THE WHOLE PARSER: PngData::from_slice never panics, for every byte string shorter than 2^54 bytes, every
   policy and error-fixing flag (C05_from_slice_no_panic): chunk walker, header, the saturating size
   arithmetic (raw_data_size = min(specification's size, usize::MAX), C05_raw_data_size_saturates), the
   1032x rule, the scan-line iteration over the inflated stream and the per-line reconstruction
   (C05_unfilter_no_panic, C05_png_image_new_no_panic) - assuming only that the decompressor returns.
   PARTIAL: absence of Panic in the reductions / filters for every accepted image (needs the layout
   theorems of C18 composed with every reduction; proved for de-interlacing, C18) and the peak of simultaneously live buffers are not
   proved; they are decided per run by isolated worker processes with a counting allocator and an
   address-space limit over a mutation corpus, in debug and release profiles. *)
From OxiVerif Require Import Base.Common Spec.Adam7 Spec.Sem Model.Types Model.Options Model.Headers Model.ScanLines Model.Filters Model.PngData Model.Optimize
  Proofs.Bridge Proofs.RobustProofs Proofs.NoPanicParse.

Theorem C05_chunk_walker_total : forall o fuel rest st p, bytes_ok rest ->
  (length rest / 12 < fuel)%nat -> from_slice_loop fuel o rest st <> Panic p.
Proof. exact from_slice_loop_no_panic. Qed.
Print Assumptions C05_chunk_walker_total.

Theorem C05_header_legal : forall b plte trns hd, parse_ihdr_chunk b plte trns = Ok hd ->
  depth_valid (depth hd) = true /\
  match ctype hd with
  | Gray _ => True
  | Indexed _ => depth hd <= 8
  | _ => 8 <= depth hd
  end.
Proof. exact parse_ihdr_legal. Qed.
Print Assumptions C05_header_legal.

Theorem C05_header_no_panic : forall b plte trns p, parse_ihdr_chunk b plte trns <> Panic p.
Proof. exact parse_ihdr_no_panic. Qed.
Print Assumptions C05_header_no_panic.

Theorem C05_decoded_size_bounded : forall e hd compressed img,
  png_image_new e hd compressed = Ok img ->
  width hd <> 0 /\ height hd <> 0 /\ raw_data_size hd < 1032 * (lenZ compressed + 1) /\ lenZ (data img) <= raw_data_size hd + 0 * 0.
Proof. exact png_image_new_size_bound. Qed.
Print Assumptions C05_decoded_size_bounded.

(* the saturating size arithmetic of IhdrData::raw_data_size, exactly: the specification's size capped at usize::MAX *)
Theorem C05_raw_data_size_saturates : forall hd : ihdr, 1 <= width hd -> 1 <= height hd -> 1 <= bpp hd ->
  raw_data_size hd = Z.min (spec_raw_size (width hd) (height hd) (bpp hd) (interlaced hd) true) usize_max.
Proof. exact raw_data_size_min. Qed.
Print Assumptions C05_raw_data_size_saturates.

(* un-filtering a stream of the size the header implies ends in a value or an error, whatever the bytes *)
Theorem C05_unfilter_no_panic : forall (hd : ihdr) (stream : list Z) p,
  1 <= width hd -> 1 <= height hd -> 1 <= bpp hd ->
  depth_legal (spec_color_of (ctype hd)) (depth hd) = true ->
  lenZ stream = spec_raw_size (width hd) (height hd) (bpp hd) (interlaced hd) true ->
  unfilter_image {| hdr := hd; data := stream |} <> Panic p.
Proof. exact unfilter_image_no_panic. Qed.
Print Assumptions C05_unfilter_no_panic.

Theorem C05_png_image_new_no_panic : forall e hd compressed p,
  0 <= width hd -> 0 <= height hd -> 1 <= bpp hd -> depth_legal (spec_color_of (ctype hd)) (depth hd) = true ->
  (forall x n q, z_inflate e x n <> Panic q) ->
  lenZ compressed < usize_max / 1032 ->
  png_image_new e hd compressed <> Panic p.
Proof. exact png_image_new_no_panic. Qed.
Print Assumptions C05_png_image_new_no_panic.

(* every byte string: the parser entry point returns a PngData or an error *)
Theorem C05_from_slice_no_panic : forall e o bytes p,
  bytes_ok bytes -> lenZ bytes < usize_max / 1032 ->
  (forall x n q, z_inflate e x n <> Panic q) ->
  from_slice e bytes o <> Panic p.
Proof. exact from_slice_no_panic. Qed.
Print Assumptions C05_from_slice_no_panic.

(* the 1032 of the size rule is the literal of the current source (regenerated constant) *)
From OxiVerif Require Import Proofs.SrcLiteralRatio.
From OxiVerif Require Gen.SrcConsts.
Theorem C05_size_rule_literal_is_source : SrcConsts.src_inflate_ratio = 1032 /\
  forall e hd c, width hd <> 0 -> height hd <> 0 -> lenZ c < raw_data_size hd / SrcConsts.src_inflate_ratio -> png_image_new e hd c = Err ETruncated.
Proof. split; [exact inflate_ratio_is_source|exact png_image_new_uses_ratio]. Qed.
Print Assumptions C05_size_rule_literal_is_source.

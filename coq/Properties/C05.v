(* C05 — Any byte string is handled without panic, abort, overflow or runaway memory.
   In the model every Rust panic point (assert, index, unwrap, unreachable, arithmetic overflow of the
   dev profile) is an explicit `Panic` value. PROVED: the chunk walker ends within its fuel and never
   panics, for every byte string and every policy; header parsing never panics and only legal
   colour-type / bit-depth pairs come out; an image is decoded only if its decoded size is below
   1032 x (compressed size + 1) bytes and its dimensions are non-zero, and the unfiltered data is no
   longer than that size (so requests are bounded by a fixed multiple of the bytes present).
   PARTIAL: absence of Panic in the reductions / filters for every accepted image (needs the layout
   theorems of C18 composed with every reduction) and the peak of simultaneously live buffers are not
   proved; they are decided per run by isolated worker processes with a counting allocator and an
   address-space limit over a mutation corpus, in debug and release profiles. *)
From OxiVerif Require Import Base.Common Model.Types Model.Options Model.Headers Model.PngData Model.Optimize
  Proofs.RobustProofs.

Theorem C05_chunk_walker_total : forall o fuel rest st p, bytes_ok rest ->
  (length rest / 12 < fuel)%nat -> from_slice_loop fuel o rest st <> Panic p.
Proof. exact from_slice_loop_no_panic. Qed.
Print Assumptions C05_chunk_walker_total.

Theorem C05_header_legal : forall b plte trns hd, parse_ihdr_chunk b plte trns = Ok hd ->
  depth_valid (depth hd) = true /\
  match ctype hd with
  | Gray _ => True
  | Indexed _ => depth hd <= 8
  | _ => 8 <= depth hd
  end.
Proof. exact parse_ihdr_legal. Qed.
Print Assumptions C05_header_legal.

Theorem C05_header_no_panic : forall b plte trns p, parse_ihdr_chunk b plte trns <> Panic p.
Proof. exact parse_ihdr_no_panic. Qed.
Print Assumptions C05_header_no_panic.

Theorem C05_decoded_size_bounded : forall e hd compressed img,
  png_image_new e hd compressed = Ok img ->
  width hd <> 0 /\ height hd <> 0 /\ raw_data_size hd < 1032 * (lenZ compressed + 1) /\ lenZ (data img) <= raw_data_size hd + 0 * 0.
Proof. exact png_image_new_size_bound. Qed.
Print Assumptions C05_decoded_size_bounded.

(* C02 — Output is always a well-formed PNG/APNG that independent decoders accept.
   PROVED on the serialiser model: `output` is the signature followed by the serialisation of an
   explicit chunk sequence; the specification's STRICT container parser (lengths, CRC over type and
   data, IEND last, nothing after it) accepts it and reads back exactly that sequence; the sequence
   is IHDR (13 bytes, encoding the header), chunks, the single IDAT written by `output`, frames,
   chunks, IEND, with PLTE/tRNS synthesised from the header before IDAT; frame sequence numbers are
   consecutive (C10). CRC-32 values fit 32 bits.
   IDAT CONTENT (C02_idat_content_partial): the data of the candidate that optimize_raw emits is the compressor's answer for
   a stream which the specification's un-filtering cuts into exactly the rows the (output) header implies - hence it has exactly
   the size the header implies - each starting with a filter type 0..4, and which un-filters to the candidate's image data, whose
   meaning (palette indices inside the palette included) is the input's (C01). Given for
   runs without alpha rewriting; that inflate undoes the compressor is the zlib oracle assumption, re-validated on every run.
   WHOLE CALL (C02_optimized_file_wellformed): for a valid input shorter than 2^31 - 9 bytes, what optimize_from_memory returns
   is accepted by the strict container parser and decoded by the specification's whole-file decoder (legal IHDR, PLTE/tRNS
   as the colour type requires, one IDAT holding a stream of exactly the implied size with filter types 0..4, IEND last);
   C02_container_side_conditions derives chunk-name / length / key-chunk conditions of everything written from the input.
   PARTIAL: the input-relative ordering constraints of ancillary chunks are decided per run by the strict validator oracle.
   (Finding F8 - hIST kept without PLTE - was repaired by fix 2fc6ac2; the validator reports it if it ever returns.) *)
From OxiVerif Require Import Base.Common Base.Crc32 Spec.Decode Model.Types Model.Options Model.Headers Model.PngData
  Model.Evaluate Model.Optimize Proofs.OutputProofs Proofs.PipelineLossless Proofs.EmittedStream.
From OxiVerif Require Import Spec.Adam7 Spec.Sem Spec.Decode Spec.DecodeFile Model.Headers Model.PngData Model.Optimize Proofs.Bridge Proofs.LiftColor Proofs.LiftAlpha Proofs.OutputProofs Proofs.OutputDecode Proofs.PipelineLossless Proofs.FileToFile Proofs.ContainerOk.
From OxiVerif Require Import Spec.Sem Spec.DecodeFile Proofs.Bridge Proofs.OutputDecode.

Theorem C02_output_is_chunk_sequence : forall p, output p = PNG_SIG ++ serialize (output_chunks p).
Proof. exact output_is_serialize. Qed.
Print Assumptions C02_output_is_chunk_sequence.

Theorem C02_container_well_formed : forall p,
  Forall chunk_wf (output_body p) -> Forall not_iend (output_body p) ->
  spec_parse_png (output p) = Some (output_chunks p).
Proof. exact output_parses. Qed.
Print Assumptions C02_container_well_formed.

Theorem C02_structure : forall p,
  output_chunks p =
    (name_IHDR, to_be32 (width (hdr (raw p))) ++ to_be32 (height (hdr (raw p))) ++
                [depth (hdr (raw p)); png_header_code (ctype (hdr (raw p))); 0; 0; if interlaced (hdr (raw p)) then 1 else 0])
    :: output_pre p ++ [(name_IDAT, idat_data p)] ++ output_post p ++ [(name_IEND, [])]
  /\ (forall kc, In kc (key_chunks (hdr (raw p))) -> In kc (output_pre p)).
Proof. exact output_structure. Qed.
Print Assumptions C02_structure.

Theorem C02_crc_is_32_bits : forall data, 0 <= crc32 data < 2 ^ 32.
Proof. exact crc32_range. Qed.
Print Assumptions C02_crc_is_32_bits.

(* any well-formed chunk sequence ending in IEND round-trips through the strict parser *)
Theorem C02_parse_serialize : forall cs, Forall chunk_wf cs -> Forall not_iend cs ->
  forall fuel, (length cs < fuel)%nat ->
  spec_parse_chunks fuel (serialize (cs ++ [(spec_IEND, [])])) = Some (cs ++ [(spec_IEND, [])]).
Proof. exact parse_serialize. Qed.
Print Assumptions C02_parse_serialize.

Theorem C02_idat_content_partial : forall e o img max_size c pic,
  optimize_alpha o = false -> scale_16 o = false -> means pic img ->
  optimize_raw e o img max_size = Ok (Some c) ->
  exists d stream, c_cdata c = z_deflate e d stream /\
    spec_unfilter (width (hdr (c_image c))) (height (hdr (c_image c))) (bpp (hdr (c_image c))) (interlaced (hdr (c_image c))) stream
    = Some (data (c_image c)).
Proof. exact emitted_idat_valid_partial. Qed.
Print Assumptions C02_idat_content_partial.

(* an independent decoder's view of the output: the specification's whole-file decoder (strict container, IHDR legal fields, colour
   interpretation from PLTE/tRNS, all IDAT payloads as one stream) reads the written file as the inflated IDAT content under exactly
   the header and palette/key of the image that was written *)
Theorem C02_output_decodes : forall (inflate : list Z -> option (list Z)) (p : pngdata),
  Forall chunk_wf (output_body p) -> Forall not_iend (output_body p) ->
  writable (hdr (raw p)) -> 0 <= depth (hdr (raw p)) < 256 ->
  Forall not_key (aux_written p) ->
  spec_decode_png inflate (output p) =
  match inflate (idat_data p) with
  | Some stream => spec_decode_stream (width (hdr (raw p))) (height (hdr (raw p))) (spec_color_of (ctype (hdr (raw p))))
                                      (depth (hdr (raw p))) (interlaced (hdr (raw p))) stream
  | None => None
  end.
Proof. exact output_decodes. Qed.
Print Assumptions C02_output_decodes.

(* the container side conditions of everything optimize_png writes, derived from the parsed input *)
Theorem C02_container_side_conditions : forall e o p p' N M pic,
  png_ok N p -> 0 <= N -> N + 5 <= M -> M + 4 < 2 ^ 31 -> (forall d s, lenZ (z_deflate e d s) <= M) ->
  0 <= width (hdr (raw p)) < 2 ^ 32 -> 0 <= height (hdr (raw p)) < 2 ^ 32 ->
  scale_16 o = false -> means pic (raw p) ->
  optimize_png_data e p o = Ok p' -> container_ok p'.
Proof. exact optimize_png_data_container. Qed.
Print Assumptions C02_container_side_conditions.

(* whenever optimising a valid file succeeds, the bytes produced are parsed by the strict container parser and decoded *)
Theorem C02_optimized_file_wellformed : forall e o (inflate : list Z -> option (list Z)) bytes out pic nm ih rest M,
  scale_16 o = false ->
  bytes_ok bytes -> lenZ bytes + 5 <= M -> M + 4 < 2 ^ 31 -> (forall d s, lenZ (z_deflate e d s) <= M) ->
  spec_parse_png bytes = Some ((nm, ih) :: rest) ->
  spec_decode_chunks inflate ((nm, ih) :: rest) = Some pic ->
  List.filter (named spec_IHDR) rest = [] ->
  (length (List.filter (named spec_PLTE) rest) <= 1)%nat -> (length (List.filter (named spec_tRNS) rest) <= 1)%nat ->
  (forall x n y, z_inflate e x n = Ok y -> inflate x = Some y /\ bytes_ok y) ->
  (forall d s, inflate (z_deflate e d s) = Some s) ->
  (forall p, from_slice e bytes o = Ok p ->
     spec_raw_size (width (hdr (raw p))) (height (hdr (raw p))) (bpp (hdr (raw p))) (interlaced (hdr (raw p))) true <= usize_max /\
     wf_ctype (ctype (hdr (raw p))) (depth (hdr (raw p)))) ->
  optimize_from_memory e o bytes = Ok out ->
  exists chunks pic', spec_parse_png out = Some chunks /\ spec_decode_chunks inflate chunks = Some pic'.
Proof.
  intros e o inflate bytes out pic nm ih rest M Hs Hok HM HM2 Hdefl Hparse Hdec H1 H2 H3 Hz Hzd Hside H.
  destruct (optimize_from_memory_alpha e o inflate bytes out pic nm ih rest M Hs Hok HM HM2 Hdefl Hparse Hdec H1 H2 H3 Hz Hzd Hside H) as (pic' & Hd & _).
  unfold spec_decode_png in Hd. destruct (spec_parse_png out) as [chunks|]; [|discriminate]. exists chunks, pic'. split; [reflexivity|exact Hd].
Qed.
Print Assumptions C02_optimized_file_wellformed.

(* "consistent acTL/fcTL/fdAT numbering": the chunk sequence written for an animation is accepted by the APNG specification's
   reader (one sequence counter from 0 over fcTL and fdAT, every fdAT after the fcTL of its frame and after the image data), and
   it reads back exactly the frames of the PngData *)
From OxiVerif Require Import Spec.Apng Proofs.ApngProofs Proofs.ChunkFlow Proofs.ApngFile.
Theorem C02_animation_numbering : forall p pre m post,
  aux_chunks p = pre ++ m :: post ->
  Forall (fun c => cname_eqb (c_name c) name_fdAT = false /\ cname_eqb (c_name c) name_IDAT = false) pre ->
  cname_eqb (c_name m) name_IDAT = true -> Forall no_frame_chunk post ->
  seqs_ok (List.filter is_fctl pre) 0 -> Forall frame_in_range (frames p) ->
  lenZ (List.filter is_fctl pre) + 2 * lenZ (frames p) < 2 ^ 32 ->
  spec_apng_frames (output_chunks p) = Some (map default_of (List.filter is_fctl pre) ++ map sframe_of (frames p)).
Proof. exact written_animation. Qed.
Print Assumptions C02_animation_numbering.

(* C02 — Output is always a well-formed PNG/APNG that independent decoders accept.
   PROVED on the serialiser model: `output` is the signature followed by the serialisation of an
   explicit chunk sequence; the specification's STRICT container parser (lengths, CRC over type and
   data, IEND last, nothing after it) accepts it and reads back exactly that sequence; the sequence
   is IHDR (13 bytes, encoding the header), chunks, the single IDAT written by `output`, frames,
   chunks, IEND, with PLTE/tRNS synthesised from the header before IDAT; frame sequence numbers are
   consecutive (C10). CRC-32 values fit 32 bits.
   PARTIAL: that the IDAT payload is a valid zlib stream of exactly raw_data_size bytes with filter
   types 0..4, and that every pixel index is inside the palette, follows from the pipeline
   (IDAT = deflate (filter_image candidate), C19, C18_raw_data_size) under the zlib oracle; this
   composition and the input-relative constraints are decided per run by the strict validator oracle.
   Known finding F8: a truecolour image with a suggested PLTE and hIST loses PLTE but keeps hIST. *)
From OxiVerif Require Import Base.Common Base.Crc32 Spec.Decode Model.Types Model.Options Model.Headers Model.PngData
  Proofs.OutputProofs.

Theorem C02_output_is_chunk_sequence : forall p, output p = PNG_SIG ++ serialize (output_chunks p).
Proof. exact output_is_serialize. Qed.
Print Assumptions C02_output_is_chunk_sequence.

Theorem C02_container_well_formed : forall p,
  Forall chunk_wf (output_body p) -> Forall not_iend (output_body p) ->
  spec_parse_png (output p) = Some (output_chunks p).
Proof. exact output_parses. Qed.
Print Assumptions C02_container_well_formed.

Theorem C02_structure : forall p,
  output_chunks p =
    (name_IHDR, to_be32 (width (hdr (raw p))) ++ to_be32 (height (hdr (raw p))) ++
                [depth (hdr (raw p)); png_header_code (ctype (hdr (raw p))); 0; 0; if interlaced (hdr (raw p)) then 1 else 0])
    :: output_pre p ++ [(name_IDAT, idat_data p)] ++ output_post p ++ [(name_IEND, [])]
  /\ (forall kc, In kc (key_chunks (hdr (raw p))) -> In kc (output_pre p)).
Proof. exact output_structure. Qed.
Print Assumptions C02_structure.

Theorem C02_crc_is_32_bits : forall data, 0 <= crc32 data < 2 ^ 32.
Proof. exact crc32_range. Qed.
Print Assumptions C02_crc_is_32_bits.

(* any well-formed chunk sequence ending in IEND round-trips through the strict parser *)
Theorem C02_parse_serialize : forall cs, Forall chunk_wf cs -> Forall not_iend cs ->
  forall fuel, (length cs < fuel)%nat ->
  spec_parse_chunks fuel (serialize (cs ++ [(spec_IEND, [])])) = Some (cs ++ [(spec_IEND, [])]).
Proof. exact parse_serialize. Qed.
Print Assumptions C02_parse_serialize.

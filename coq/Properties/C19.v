(* C19 — Every row-filter strategy round-trips every byte pattern.
   Only statements here; proofs live in Proofs/FilterProofs.v. *)
From OxiVerif Require Import Base.Common Spec.Filter Model.Types Model.ScanLines Model.Filters Proofs.FilterProofs Proofs.FilterImage Proofs.FilterStream.
From OxiVerif Require Import Spec.Adam7 Spec.Sem Spec.Decode Proofs.Bridge Proofs.LiftColor Proofs.UnfilterImage.

(* The specification's own filter and reconstruction are inverse, for every filter type, pixel
   size and neighbour bytes (all lines, no length bound). *)
Theorem C19_spec_roundtrip : forall (bpp : nat) (ft : Z) (line prev : list Z),
  bytes_ok line -> length prev = length line ->
  spec_recon_line bpp ft (spec_filter_line bpp ft line prev) prev = line.
Proof. exact spec_filter_roundtrip. Qed.
Print Assumptions C19_spec_roundtrip.

(* oxipng's filter_line (five delta filters) writes a legal type byte and exactly the
   specification's filtered bytes; they reconstruct to the input; its own unfilter_line inverts it. *)
Theorem C19_filter_line_roundtrip : forall (f : row_filter) (bpp : nat) (data prev : list Z),
  (1 <= bpp)%nat -> is_standard f = true ->
  (bpp <= length data)%nat -> length prev = length data -> bytes_ok data -> bytes_ok prev ->
  exists buf, filter_line f bpp data prev 0 = Ok (filter_code f :: buf, data) /\
              spec_recon_line bpp (filter_code f) buf prev = data /\
              unfilter_line f bpp buf prev = Ok data.
Proof. exact unfilter_filter_line. Qed.
Print Assumptions C19_filter_line_roundtrip.

(* oxipng's reconstruction of foreign rows is the specification's, for all five filter types *)
Theorem C19_unfilter_line_is_spec : forall (f : row_filter) (bpp : nat) (data prev : list Z),
  (1 <= bpp)%nat -> is_standard f = true ->
  (bpp <= length data)%nat -> length prev = length data -> bytes_ok data -> bytes_ok prev ->
  unfilter_line f bpp data prev = Ok (spec_recon_line bpp (filter_code f) data prev).
Proof. exact unfilter_line_is_spec. Qed.
Print Assumptions C19_unfilter_line_is_spec.

Theorem C19_paeth_is_spec : forall a b c, paeth_predictor a b c = paeth_spec a b c.
Proof. exact paeth_is_spec. Qed.
Print Assumptions C19_paeth_is_spec.

(* non-vacuity: a concrete line meets the hypotheses *)
Example C19_example :
  filter_line FPaeth 2 [10; 20; 30; 40; 250; 3] [1; 2; 3; 4; 5; 6] 0
  = Ok ([4; 9; 18; 20; 20; 220; 219], [10; 20; 30; 40; 250; 3]).
Proof. vm_compute. reflexivity. Qed.

(* IMAGE LEVEL, all ten strategies (any choice oracle for Brute), no alpha rewriting: the rows written for the scan lines of an
   image - of any size, interlaced or not, first rows of the image and of every pass included - have filter types 0..4 and the
   specification's reconstruction of the whole sequence (reference row = previous row of the same pass, else zeros) returns
   exactly the scan lines that were filtered *)
Theorem C19_image_rows_roundtrip : forall brute (img : image) f lines rows,
  (1 <= bpp_bytes img)%nat ->
  scan_lines img false = Ok lines ->
  Forall (fun l => bytes_ok (l_data l) /\ (bpp_bytes img <= length (l_data l))%nat) lines ->
  filter_image_rows brute img f false = Ok rows ->
  Forall2 (fun r l => exists ft buf, r = ft :: buf /\ 0 <= ft <= 4 /\ length buf = length (l_data l)) rows lines /\
  spec_recon_seq (bpp_bytes img) None (combine (map l_pass lines) rows) = Some (map l_data lines).
Proof. exact filter_image_rows_roundtrip. Qed.
Print Assumptions C19_image_rows_roundtrip.

(* STREAM LEVEL: the whole filtered stream written for a decodable image is accepted by the specification's un-filtering of a
   (possibly interlaced) image and gives back exactly the image data *)
Theorem C19_stream_roundtrip : forall brute (img : image) f stream pic,
  wf img -> sem img = Some pic ->
  filter_image brute img f false = Ok stream ->
  spec_unfilter (width (hdr img)) (height (hdr img)) (bpp (hdr img)) (interlaced (hdr img)) stream = Some (data img).
Proof. exact filter_image_stream. Qed.
Print Assumptions C19_stream_roundtrip.

(* FOREIGN FILES, whole images: whenever oxipng's own reconstruction (unfilter_image: scan lines with filter bytes, reference row
   reset at every pass) accepts a filtered stream of the size the header implies, the specification's un-filtering of the
   (possibly interlaced) image accepts it too and yields the same bytes - every size, pixel size and filter type per row *)
Theorem C19_unfilter_image_is_spec : forall (hd : ihdr) (stream d : list Z),
  1 <= width hd -> 1 <= height hd -> 1 <= bpp hd ->
  depth_legal (spec_color_of (ctype hd)) (depth hd) = true ->
  bytes_ok stream ->
  lenZ stream = spec_raw_size (width hd) (height hd) (bpp hd) (interlaced hd) true ->
  unfilter_image {| hdr := hd; data := stream |} = Ok d ->
  spec_unfilter (width hd) (height hd) (bpp hd) (interlaced hd) stream = Some d.
Proof. exact unfilter_image_is_spec. Qed.
Print Assumptions C19_unfilter_image_is_spec.

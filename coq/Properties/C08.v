(* C08 — Disabled transformation classes are really disabled.
   Statements on the pipeline model, for every oracle environment (any clock, any compressor), every
   setting of the OTHER switches, presets, filters and deflaters. `optimize_raw` returns the image
   that is then serialised (its header becomes the output IHDR, its palette the output PLTE).
   DOWN TO THE FILE (second half): the same switches for the header of the PngData that is serialised and for the in-memory call. *)
From OxiVerif Require Import Base.Common Model.Types Model.Options Model.Reductions Model.Optimize
  Proofs.ReductionInv Proofs.EffectProofs Proofs.PipelineProofs.

Theorem C08_bit_depth : forall e o img max_size c,
  bit_depth_reduction o = false ->
  optimize_raw e o img max_size = Ok (Some c) -> depth (hdr (c_image c)) = depth (hdr img).
Proof. intros e o img m c H. apply (emitted_satisfies (fun i => depth (hdr i) = depth (hdr img))). intros; eapply depth_preserved; eauto. Qed.
Print Assumptions C08_bit_depth.

Theorem C08_color_type : forall e o img max_size c,
  color_type_reduction o = false ->
  optimize_raw e o img max_size = Ok (Some c) ->
  png_header_code (ctype (hdr (c_image c))) = png_header_code (ctype (hdr img)).
Proof. intros e o img m c H. apply (emitted_satisfies (fun i => code i = code img)). intros; eapply color_type_preserved; eauto. Qed.
Print Assumptions C08_color_type.

Theorem C08_grayscale : forall e o img max_size c,
  grayscale_reduction o = false ->
  optimize_raw e o img max_size = Ok (Some c) ->
  is_gray (ctype (hdr (c_image c))) = is_gray (ctype (hdr img)).
Proof. intros e o img m c H. apply (emitted_satisfies (fun i => grayness i = grayness img)). intros; eapply grayness_preserved; eauto. Qed.
Print Assumptions C08_grayscale.

(* an indexed image that stays indexed keeps its exact palette entries in order *)
Theorem C08_palette : forall e o img max_size c pal pal',
  palette_reduction o = false -> ctype (hdr img) = Indexed pal ->
  optimize_raw e o img max_size = Ok (Some c) ->
  ctype (hdr (c_image c)) = Indexed pal' -> pal' = pal.
Proof.
  intros e o img m c pal pal' Hp Hc H Hc'.
  assert (Q : forall p, palette_if_indexed (c_image c) = Some p -> p = pal).
  { apply (emitted_satisfies (fun i => forall p, palette_if_indexed i = Some p -> p = pal) e o img m c); auto.
    intros b evs Hpr. destruct (palette_preserved e o img b evs pal Hp Hc Hpr) as [Hb Hev]. split; auto.
    intros p Hq. unfold palette_if_indexed in Hq. rewrite Hb in Hq. injection Hq as <-. reflexivity. }
  apply Q. unfold palette_if_indexed. rewrite Hc'. reflexivity.
Qed.
Print Assumptions C08_palette.

Theorem C08_keep_interlace : forall e o img max_size c,
  interlace o = None ->
  optimize_raw e o img max_size = Ok (Some c) -> interlaced (hdr (c_image c)) = interlaced (hdr img).
Proof. intros e o img m c H. apply (emitted_satisfies (fun i => interlaced (hdr i) = interlaced (hdr img))). intros; eapply interlace_kept; eauto. Qed.
Print Assumptions C08_keep_interlace.

(* a requested interlace mode is the mode of whatever is emitted (so of any forced output) *)
Theorem C08_requested_interlace : forall e o img max_size c m,
  interlace o = Some m ->
  optimize_raw e o img max_size = Ok (Some c) -> interlaced (hdr (c_image c)) = m.
Proof. intros e o img mx c m H. apply (emitted_satisfies (fun i => interlaced (hdr i) = m)). intros; eapply interlace_forced; eauto. Qed.
Print Assumptions C08_requested_interlace.

(* width and height are never changed by any transformation *)
Theorem C08_dimensions : forall e o img max_size c,
  optimize_raw e o img max_size = Ok (Some c) ->
  width (hdr (c_image c)) = width (hdr img) /\ height (hdr (c_image c)) = height (hdr img).
Proof.
  intros e o img m c.
  apply (emitted_satisfies (fun i => width (hdr i) = width (hdr img) /\ height (hdr i) = height (hdr img))).
  intros; eapply dims_preserved; eauto.
Qed.
Print Assumptions C08_dimensions.

(* with all transformations and recompression disabled nothing is produced: the caller keeps the
   decoded input, i.e. the concatenated IDAT stream is re-emitted bit for bit *)
Theorem C08_nx_nz_identity : forall e o img max_size,
  bit_depth_reduction o = false -> color_type_reduction o = false -> palette_reduction o = false ->
  grayscale_reduction o = false -> interlace o = None -> idat_recoding o = false ->
  optimize_raw e o img max_size = Ok None.
Proof. exact nothing_enabled_nothing_done. Qed.
Print Assumptions C08_nx_nz_identity.

(* ================================================================ down to the header that is written, and the in-memory call *)
From OxiVerif Require Import Model.Headers Model.PngData Model.Evaluate Proofs.ChunkProofs Proofs.ContainerOk Proofs.SwitchesFile.

(* optimize_png_data = what `output` serialises (its header becomes the IHDR of the file). The options actually used are the
   pre-processed ones (an animation or colour-space metadata switch further transformations off, never on) *)
Theorem C08_written_bit_depth : forall e o p p', optimize_png_data e p o = Ok p' ->
  bit_depth_reduction o = false -> depth (hdr (raw p')) = depth (hdr (raw p)).
Proof. exact data_bit_depth. Qed.
Print Assumptions C08_written_bit_depth.

Theorem C08_written_color_type : forall e o p p', optimize_png_data e p o = Ok p' ->
  color_type_reduction o = false -> png_header_code (ctype (hdr (raw p'))) = png_header_code (ctype (hdr (raw p))).
Proof. exact data_color_type. Qed.
Print Assumptions C08_written_color_type.

Theorem C08_written_grayscale : forall e o p p', optimize_png_data e p o = Ok p' ->
  grayscale_reduction o = false -> is_gray (ctype (hdr (raw p'))) = is_gray (ctype (hdr (raw p))).
Proof. exact data_grayscale. Qed.
Print Assumptions C08_written_grayscale.

Theorem C08_written_keep_interlace : forall e o p p', optimize_png_data e p o = Ok p' ->
  interlace o = None -> interlaced (hdr (raw p')) = interlaced (hdr (raw p)).
Proof. exact data_keep_interlace. Qed.
Print Assumptions C08_written_keep_interlace.

(* a requested mode is the mode of whatever is emitted for a still image; a kept animation never changes its interlacing (C10) *)
Theorem C08_written_requested_interlace : forall e o p p', optimize_png_data e p o = Ok p' ->
  forall m, interlace o = Some m -> has_chunk name_acTL (aux_chunks p) = false ->
  raw p' = raw p \/ interlaced (hdr (raw p')) = m.
Proof. exact data_requested_interlace. Qed.
Print Assumptions C08_written_requested_interlace.

Theorem C08_animation_keeps_interlace : forall e o p p', optimize_png_data e p o = Ok p' ->
  has_chunk name_acTL (aux_chunks p) = true -> interlaced (hdr (raw p')) = interlaced (hdr (raw p)).
Proof. exact data_animation_keeps_interlace. Qed.
Print Assumptions C08_animation_keeps_interlace.

(* THE IN-MEMORY CALL: the input back, or the serialisation of a PngData for which every switch is binding *)
Theorem C08_memory_call : forall e o bytes out, optimize_from_memory e o bytes = Ok out ->
  out = bytes \/
  exists p p', from_slice e bytes o = Ok p /\ out = output p' /\
    (bit_depth_reduction o = false -> depth (hdr (raw p')) = depth (hdr (raw p))) /\
    (color_type_reduction o = false -> png_header_code (ctype (hdr (raw p'))) = png_header_code (ctype (hdr (raw p)))) /\
    (grayscale_reduction o = false -> is_gray (ctype (hdr (raw p'))) = is_gray (ctype (hdr (raw p)))) /\
    (interlace o = None -> interlaced (hdr (raw p')) = interlaced (hdr (raw p))) /\
    (forall m, interlace o = Some m -> has_chunk name_acTL (aux_chunks p) = false -> raw p' = raw p \/ interlaced (hdr (raw p')) = m) /\
    width (hdr (raw p')) = width (hdr (raw p)) /\ height (hdr (raw p')) = height (hdr (raw p)).
Proof. exact memory_switches_binding. Qed.
Print Assumptions C08_memory_call.

(* C18 — Adam7 geometry is exact for every image size. Statements only. *)
From OxiVerif Require Import Base.Common Spec.Adam7 Model.Types Model.Headers Model.ScanLines Model.Interlace
  Proofs.ScanProofs Proofs.InterlaceProofs Proofs.HeaderProofs Proofs.Adam7RoundTrip.
From OxiVerif Require Import Spec.Sem Proofs.Bridge Proofs.LiftColor Proofs.LiftInterlace Proofs.DeinterlaceCore Proofs.DeinterlaceStep Proofs.DeinterlaceLink Proofs.LiftDeinterlace.

(* The scan-line iterator emits exactly the pass sizes and row lengths the specification
   prescribes (empty passes omitted), for every width, height >= 1 and every pixel size >= 1 bit *)
Theorem C18_scan_lines_interlaced : forall (hd : ihdr) (hf : bool),
  1 <= width hd -> 1 <= height hd -> 1 <= bpp hd -> interlaced hd = true ->
  scan_ranges hd hf (spec_raw_size (width hd) (height hd) (bpp hd) true hf)
  = Ok (map (fun l => (snd l + (if hf then 1 else 0), fst (fst l), snd (fst l)))
            (spec_layout (width hd) (height hd) (bpp hd) true)).
Proof. exact scan_ranges_interlaced_spec. Qed.
Print Assumptions C18_scan_lines_interlaced.

Theorem C18_scan_lines_plain : forall (hd : ihdr) (hf : bool),
  1 <= width hd -> 1 <= height hd -> 1 <= bpp hd -> interlaced hd = false ->
  scan_ranges hd hf (spec_raw_size (width hd) (height hd) (bpp hd) false hf)
  = Ok (map (fun l => (snd l + (if hf then 1 else 0), fst (fst l), snd (fst l)))
            (spec_layout (width hd) (height hd) (bpp hd) false)).
Proof. exact scan_ranges_plain_spec. Qed.
Print Assumptions C18_scan_lines_plain.

(* the size computed from the header is the specification's total, as long as it fits a usize *)
Theorem C18_raw_data_size : forall hd : ihdr,
  1 <= width hd -> 1 <= height hd -> 1 <= bpp hd ->
  spec_raw_size (width hd) (height hd) (bpp hd) (interlaced hd) true <= usize_max ->
  raw_data_size hd = spec_raw_size (width hd) (height hd) (bpp hd) (interlaced hd) true.
Proof. exact raw_data_size_spec. Qed.
Print Assumptions C18_raw_data_size.

(* the routing table of interlace_image is the specification's 8x8 matrix at every position *)
Theorem C18_route_is_matrix : forall x y, route (y mod 8) (x mod 8) = pass_of x y.
Proof. exact route_is_matrix. Qed.
Print Assumptions C18_route_is_matrix.

(* interlacing moves every pixel into the pass and scan line the specification assigns, for any
   number of rows and any row length (pixels abstract: any pixel size) *)
Theorem C18_interlace_is_spec : forall (A : Type) (rows : list (list A)),
  model_interlace rows = spec_interlace rows.
Proof. exact @model_interlace_is_spec. Qed.
Print Assumptions C18_interlace_is_spec.

(* … and inside a pass row, the k-th pixel is source pixel x0 + k*dx *)
Theorem C18_pass_pixel_position : forall (A : Type) (d0 : A) p (r : list A) (k : nat),
  In p passes7 -> x0 p + Z.of_nat k * dx p < Z.of_nat (length r) ->
  nth k (sel (col_in p) 0 r) d0 = nth (Z.to_nat (x0 p + Z.of_nat k * dx p)) r d0.
Proof. exact @nth_sel_col. Qed.
Print Assumptions C18_pass_pixel_position.

(* doing both conversions returns the original pixels: at the level of the specification, for every width and height
   (and hence, by C18_interlace_is_spec, for the code's interlacing followed by the specification's de-interlacing) *)
Theorem C18_spec_roundtrip : forall (A : Type) (rows : list (list A)) (w h : Z),
  0 <= w -> 0 <= h -> length rows = Z.to_nat h -> (forall r, In r rows -> length r = Z.to_nat w) ->
  spec_deinterlace w h (spec_interlace rows) = Some rows.
Proof. exact @spec_deinterlace_interlace. Qed.
Print Assumptions C18_spec_roundtrip.

Theorem C18_model_interlace_roundtrip : forall (A : Type) (rows : list (list A)) (w h : Z),
  0 <= w -> 0 <= h -> length rows = Z.to_nat h -> (forall r, In r rows -> length r = Z.to_nat w) ->
  spec_deinterlace w h (model_interlace rows) = Some rows.
Proof. intros. rewrite model_interlace_is_spec. apply spec_deinterlace_interlace; assumption. Qed.
Print Assumptions C18_model_interlace_roundtrip.

(* the pixel read back at (x, y) is the pixel that was there *)
Theorem C18_pixel_roundtrip : forall (A : Type) (rows : list (list A)) (w : nat) x y,
  (forall r, In r rows -> length r = w) -> 0 <= x < Z.of_nat w -> 0 <= y ->
  spec_pixel_at (spec_interlace rows) x y =
  match nth_error rows (Z.to_nat y) with Some r => nth_error r (Z.to_nat x) | None => None end.
Proof. exact @spec_pixel_at_interlace. Qed.
Print Assumptions C18_pixel_roundtrip.

(* WHOLE IMAGES, bytes in and bytes out: interlace_image (scan lines -> pixels -> pass rows -> packed, padded bytes) produces data
   that the specification's Adam7 layout and de-interlacing read back as the same picture - every width, height, pixel size *)
Theorem C18_interlace_image_meaning : forall img img' pic, wf img -> interlaced (hdr img) = false ->
  interlace_image img = Ok img' -> sem img = Some pic -> sem img' = Some pic /\ wf img'.
Proof. exact interlace_image_sem. Qed.
Print Assumptions C18_interlace_image_meaning.

(* THE DE-INTERLACING STATE MACHINE (deinterlace_image: current pass, current row, increment_pass skipping empty passes, the
   per-line scatter with x_shift/x_step) computes the specification's de-interlacing of the pass lines it is fed, for every
   width and height and any pixel type; `limit` = the bits variant, which cuts each line to its pixel count *)
Theorem C18_deinterlace_is_spec : forall (A : Type) (blank : A) (w h : Z) (limit : bool) (blk : Z -> list (list A)),
  1 <= w -> 1 <= h ->
  (forall p, In p passes7 -> active w h p -> length (blk p) = Z.to_nat (ph h p) /\ Forall (line_ok w limit p) (blk p)) ->
  (forall p, In p passes7 -> ~ active w h p -> blk p = []) ->
  exists G, model_deinterlace blank w h limit (flat_map blk passes7) = Ok G /\
    spec_deinterlace w h (map (fun p => map (eff w limit p) (blk p)) passes7) = Some G /\
    length G = Z.to_nat h /\ Forall (fun r => length r = Z.to_nat w) G.
Proof. intros A blank w h limit blk Hw Hh H1 H0. exact (model_deinterlace_is_spec blank w h limit Hw Hh blk H1 H0). Qed.
Print Assumptions C18_deinterlace_is_spec.

(* increment_pass goes to the next pass that has pixels, or reports the end *)
Theorem C18_increment_pass : forall w h p, 1 <= w -> 1 <= h -> In p passes7 ->
  match increment_pass p w h with
  | Some p' => In p' passes7 /\ p < p' /\ active w h p' /\ (forall q, p < q < p' -> ~ active w h q)
  | None => forall q, In q passes7 -> p < q -> ~ active w h q
  end.
Proof. exact increment_pass_spec. Qed.
Print Assumptions C18_increment_pass.

(* WHOLE IMAGES, the other direction: deinterlace_image gives an image that means the same picture *)
Theorem C18_deinterlace_image_meaning : forall img img' pic, wf img -> interlaced (hdr img) = true ->
  deinterlace_image img = Ok img' -> sem img = Some pic -> sem img' = Some pic /\ wf img'.
Proof. exact deinterlace_image_sem. Qed.
Print Assumptions C18_deinterlace_image_meaning.

(* non-vacuity *)
Example C18_example : spec_lines 5 3 = [(1, 1); (2, 1); (4, 1); (5, 3); (6, 2); (6, 2); (7, 5)].
Proof. vm_compute. reflexivity. Qed.

(* C12 — Files are touched only once the result is complete; I/O errors are reported.
   `optimize` is modelled as a plan of file-system operations with effects on an abstract file system
   and a generic executor with a fault plan (the k-th operation fails, or the process is killed at it).
   PROVED, for every file system, optimiser behaviour, routing and fault: whatever fails or wherever
   the process dies up to and including the computation, the file system and standard output are
   exactly as before; every failing operation (read, create, chmod, write, flush, utimes; file or
   standard output) yields an error result; --pretend touches nothing; only the destination is ever
   created/written/chmod-ed/touched (the input is never opened for writing when another destination
   is named); in place without improvement performs no write operation; another destination then
   receives the original bytes; --preserve copies permission bits and both timestamps.
   PARTIAL (runtime): that the real process performs exactly these operations in this order is tied by
   comparing normalised strace logs with the plan, and faults are injected with strace; kernel /
   file-system semantics of a crash in the middle of a write are outside the model. *)
From OxiVerif Require Import Base.Common Model.Io Proofs.IoProofs.

Theorem C12_untouched_until_computed : forall compute stdin_data now flt fs inp outp reads writes,
  fst (plan compute stdin_data now fs inp outp) = reads \/
  fst (plan compute stdin_data now fs inp outp) = reads ++ [noeff OCompute] ++ writes ->
  Forall effect_free reads ->
  (forall i, stop_index flt 0 (length (fst (plan compute stdin_data now fs inp outp))) = Some i -> (i <= length reads)%nat) ->
  (stop_index flt 0 (length (fst (plan compute stdin_data now fs inp outp))) = None ->
     writes = [] \/ fst (plan compute stdin_data now fs inp outp) = reads) ->
  r_world (optimize_io compute stdin_data now flt fs inp outp) = (fs, []).
Proof. exact untouched_until_computed. Qed.
Print Assumptions C12_untouched_until_computed.

(* the hypotheses of the previous theorem are met by every plan: reads, computation, writes *)
Theorem C12_plan_structure : forall compute stdin_data now fs inp outp,
  exists reads writes,
    (fst (plan compute stdin_data now fs inp outp) = reads \/
     fst (plan compute stdin_data now fs inp outp) = reads ++ [noeff OCompute] ++ writes) /\
    Forall effect_free reads /\
    Forall (fun o => forall p, p_op o = OCreate p \/ p_op o = OWrite p \/ p_op o = OChmod p \/ p_op o = OUtimes p -> dest_ok inp outp p) writes /\
    Forall (fun o => forall p, p_op o <> OCreate p /\ p_op o <> OWrite p /\ p_op o <> OChmod p /\ p_op o <> OUtimes p /\ p_op o <> OWriteStdout) reads /\
    (outp = ONone -> writes = []).
Proof. exact plan_structure. Qed.
Print Assumptions C12_plan_structure.

Theorem C12_failures_reported : forall compute stdin_data now fs inp outp k,
  (k < length (fst (plan compute stdin_data now fs inp outp)))%nat ->
  r_result (optimize_io compute stdin_data now (FailAt k) fs inp outp) = Done_err.
Proof. exact failures_reported. Qed.
Print Assumptions C12_failures_reported.

Theorem C12_pretend_touches_nothing : forall compute stdin_data now flt fs inp,
  r_world (optimize_io compute stdin_data now flt fs inp ONone) = (fs, []).
Proof. exact pretend_touches_nothing. Qed.
Print Assumptions C12_pretend_touches_nothing.

Theorem C12_only_destination_written : forall compute stdin_data now flt fs inp outp o p,
  In o (r_trace (optimize_io compute stdin_data now flt fs inp outp)) ->
  (o = OCreate p \/ o = OWrite p \/ o = OChmod p \/ o = OUtimes p) -> dest_ok inp outp p.
Proof. exact only_destination_written. Qed.
Print Assumptions C12_only_destination_written.

Theorem C12_no_write_when_not_improved_in_place : forall compute stdin_data now fs q pres flt in_data out,
  lookup fs q = Some in_data -> compute (f_content in_data) = COut out true ->
  forall o, In o (r_trace (optimize_io compute stdin_data now flt fs (IPath q) (OPath None pres))) ->
    match o with OCreate _ | OWrite _ | OChmod _ | OUtimes _ | OWriteStdout => False | _ => True end.
Proof. exact no_write_when_not_improved_in_place. Qed.
Print Assumptions C12_no_write_when_not_improved_in_place.

Theorem C12_copy_of_original_when_not_improved : forall compute stdin_data now fs q d pres fin out,
  lookup fs q = Some fin -> compute (f_content fin) = COut out true -> (d =? q) = false ->
  exists g, lookup (fst (r_world (optimize_io compute stdin_data now NoFault fs (IPath q) (OPath (Some d) pres)))) d = Some g /\
            f_content g = f_content fin.
Proof. exact copy_of_original_when_not_improved. Qed.
Print Assumptions C12_copy_of_original_when_not_improved.

Theorem C12_preserve_copies_mode_and_times : forall compute stdin_data now fs q d fin,
  lookup fs q = Some fin ->
  r_result (optimize_io compute stdin_data now NoFault fs (IPath q) (OPath (Some d) true)) = Done_ok ->
  (exists g, lookup (fst (r_world (optimize_io compute stdin_data now NoFault fs (IPath q) (OPath (Some d) true)))) d = Some g /\
             f_mode g = f_mode fin /\ f_mtime g = f_mtime fin /\ f_atime g = f_atime fin) \/
  r_world (optimize_io compute stdin_data now NoFault fs (IPath q) (OPath (Some d) true)) = (fs, []).
Proof. exact preserve_copies_mode_and_times. Qed.
Print Assumptions C12_preserve_copies_mode_and_times.

(* C03 — Alpha optimisation may only change colour under fully transparent pixels.
   PROVED: the relation is an equivalence (on pixels and on pictures); per pixel, any recolouring of a fully
   transparent pixel (including its replacement by a colour-key sample) is alpha-equivalent; AT IMAGE LEVEL
   (every size, interlaced or not) each alpha-optimising transformation - blackening of transparent pixels,
   alpha-channel removal with an unused colour as key, palette condensation with merged transparent entries,
   indexed->channels - maps a well-formed image that means `pic` to a well-formed image that means a picture
   alpha-equivalent to `pic`; and the whole reduction pipeline, with or without alpha optimisation, keeps every
   candidate alpha-equivalent to the input (C03_reductions_alpha_partial; `leaves` as in C01).
   The filter-specific rewrite of optimize_alpha (rows) and the container are decided per run by correspondence
   and the specification oracle (alpha-equivalence of decoded input and output). *)
From OxiVerif Require Import Base.Common Spec.Adam7 Spec.Sem Model.Types Model.Options Model.Color Model.Palette Model.Reductions Model.Evaluate Model.Optimize
  Proofs.Bridge Proofs.PixelProofs Proofs.ImageLift Proofs.LiftColor Proofs.LiftAlpha Proofs.PipelineLossless.

Theorem C03_partial_transparent_rgba : forall d r g b r' g' b',
  match color_of_samples SRGBA d [r; g; b; 0], color_of_samples SRGBA d [r'; g'; b'; 0] with
  | Some p, Some q => rgba_alpha_equivb p q = true
  | _, _ => False
  end.
Proof. exact pixel_transparent_rgba. Qed.
Print Assumptions C03_partial_transparent_rgba.

Theorem C03_partial_transparent_gray_alpha : forall d v v',
  match color_of_samples SGrayAlpha d [v; 0], color_of_samples SGrayAlpha d [v'; 0] with
  | Some p, Some q => rgba_alpha_equivb p q = true
  | _, _ => False
  end.
Proof. exact pixel_transparent_gray_alpha. Qed.
Print Assumptions C03_partial_transparent_gray_alpha.

Theorem C03_partial_transparent_to_key : forall d v t, 0 <= t < 2 ^ d -> 0 < d ->
  match color_of_samples SGrayAlpha d [v; 0], color_of_samples (SGray (Some t)) d [t] with
  | Some p, Some q => rgba_alpha_equivb p q = true
  | _, _ => False
  end.
Proof. exact pixel_transparent_to_key_gray. Qed.
Print Assumptions C03_partial_transparent_to_key.

Theorem C03_alpha_equiv_is_equivalence :
  (forall p, rgba_alpha_equivb p p = true) /\
  (forall p q, rgba_alpha_equivb p q = true -> rgba_alpha_equivb q p = true) /\
  (forall p q s, rgba_alpha_equivb p q = true -> rgba_alpha_equivb q s = true -> rgba_alpha_equivb p s = true).
Proof. split; [exact rgba_alpha_equivb_refl|split; [exact rgba_alpha_equivb_sym|exact rgba_alpha_equivb_trans]]. Qed.
Print Assumptions C03_alpha_equiv_is_equivalence.

(* ------------------------------------------------------------------ image level *)
Theorem C03_picture_equiv_is_equivalence :
  (forall p, pic_aequiv p p) /\ (forall p q r, pic_aequiv p q -> pic_aequiv q r -> pic_aequiv p r).
Proof. split; [exact pic_aequiv_refl|exact pic_aequiv_trans]. Qed.
Print Assumptions C03_picture_equiv_is_equivalence.

Theorem C03_image_cleaned_alpha : forall img img' pic, wf img ->
  cleaned_alpha_channel img = Some img' -> sem img = Some pic ->
  (exists pic', sem img' = Some pic' /\ pic_aequiv pic pic') /\ wf img'.
Proof. exact cleaned_alpha_channel_aequiv. Qed.
Print Assumptions C03_image_cleaned_alpha.

Theorem C03_image_alpha_to_key : forall img img' pic, wf img ->
  reduced_alpha_channel img true = Some img' -> sem img = Some pic ->
  (exists pic', sem img' = Some pic' /\ pic_aequiv pic pic') /\ wf img'.
Proof. exact reduced_alpha_channel_aequiv. Qed.
Print Assumptions C03_image_alpha_to_key.

Theorem C03_image_reduced_palette : forall img img' pic, wf img ->
  reduced_palette img true = Some img' -> sem img = Some pic ->
  (exists pic', sem img' = Some pic' /\ pic_aequiv pic pic') /\ wf img'.
Proof. exact reduced_palette_aequiv. Qed.
Print Assumptions C03_image_reduced_palette.

Theorem C03_image_indexed_to_channels : forall img img' allow_gray pic, wf img ->
  indexed_to_channels img allow_gray true = Some img' -> sem img = Some pic ->
  (exists pic', sem img' = Some pic' /\ pic_aequiv pic pic') /\ wf img'.
Proof. exact indexed_to_channels_aequiv. Qed.
Print Assumptions C03_image_indexed_to_channels.

(* the lifting principle: pixelwise alpha-equivalent byte-aligned images decode to alpha-equivalent pictures *)
Theorem C03_lift_aequiv : forall w h il pc pc' (B B' : nat) (pxs pxs' : list (list Z)) pic,
  (0 < B)%nat -> (0 < B')%nat ->
  Forall (fun px => length px = B) pxs -> Forall (fun px => length px = B') pxs' ->
  Forall2 (fun px px' => aequiv (pc (sbits_of_bytes px)) (pc' (sbits_of_bytes px'))) pxs pxs' ->
  gsem w h (8 * Z.of_nat B) il pc (concat pxs) = Some pic ->
  exists pic', gsem w h (8 * Z.of_nat B') il pc' (concat pxs') = Some pic' /\ pic_aequiv pic pic'.
Proof. exact aequiv_gsem. Qed.
Print Assumptions C03_lift_aequiv.

(* ------------------------------------------------------------------ the reduction pipeline, alpha optimisation on or off *)
Theorem C03_reductions_alpha_partial : forall (L : leaves) e o img pic baseline evs,
  scale_16 o = false ->
  ameans pic img ->
  perform_reductions e o img = Ok (baseline, evs) ->
  ameans pic baseline /\ Forall (cand_ameans pic) evs.
Proof. exact perform_reductions_alpha_partial. Qed.
Print Assumptions C03_reductions_alpha_partial.

Theorem C03_emitted_alpha_partial : forall (L : leaves) e o img max_size c pic,
  scale_16 o = false -> ameans pic img ->
  optimize_raw e o img max_size = Ok (Some c) -> ameans pic (c_image c).
Proof. exact optimize_raw_alpha_partial. Qed.
Print Assumptions C03_emitted_alpha_partial.

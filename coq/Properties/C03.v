(* C03 — Alpha optimisation may only change colour under fully transparent pixels.
   PROVED: the relation is an equivalence; per pixel, any recolouring of a fully transparent
   pixel (including its replacement by a colour-key sample) is alpha-equivalent. The image-level
   lift and the filter-specific rewrite of optimize_alpha are decided per run by correspondence
   and the specification oracle (alpha-equivalence of decoded input and output). *)
From OxiVerif Require Import Base.Common Spec.Adam7 Spec.Sem Model.Types Proofs.Bridge Proofs.PixelProofs.

Theorem C03_partial_transparent_rgba : forall d r g b r' g' b',
  match color_of_samples SRGBA d [r; g; b; 0], color_of_samples SRGBA d [r'; g'; b'; 0] with
  | Some p, Some q => rgba_alpha_equivb p q = true
  | _, _ => False
  end.
Proof. exact pixel_transparent_rgba. Qed.
Print Assumptions C03_partial_transparent_rgba.

Theorem C03_partial_transparent_gray_alpha : forall d v v',
  match color_of_samples SGrayAlpha d [v; 0], color_of_samples SGrayAlpha d [v'; 0] with
  | Some p, Some q => rgba_alpha_equivb p q = true
  | _, _ => False
  end.
Proof. exact pixel_transparent_gray_alpha. Qed.
Print Assumptions C03_partial_transparent_gray_alpha.

Theorem C03_partial_transparent_to_key : forall d v t, 0 <= t < 2 ^ d -> 0 < d ->
  match color_of_samples SGrayAlpha d [v; 0], color_of_samples (SGray (Some t)) d [t] with
  | Some p, Some q => rgba_alpha_equivb p q = true
  | _, _ => False
  end.
Proof. exact pixel_transparent_to_key_gray. Qed.
Print Assumptions C03_partial_transparent_to_key.

Theorem C03_alpha_equiv_is_equivalence :
  (forall p, rgba_alpha_equivb p p = true) /\
  (forall p q, rgba_alpha_equivb p q = true -> rgba_alpha_equivb q p = true) /\
  (forall p q s, rgba_alpha_equivb p q = true -> rgba_alpha_equivb q s = true -> rgba_alpha_equivb p s = true).
Proof. split; [exact rgba_alpha_equivb_refl|split; [exact rgba_alpha_equivb_sym|exact rgba_alpha_equivb_trans]]. Qed.
Print Assumptions C03_alpha_equiv_is_equivalence.

(* C03 — Alpha optimisation may only change colour under fully transparent pixels.
   PROVED: the relation is an equivalence (on pixels and on pictures); per pixel, any recolouring of a fully
   transparent pixel (including its replacement by a colour-key sample) is alpha-equivalent; AT IMAGE LEVEL
   (every size, interlaced or not) each alpha-optimising transformation - blackening of transparent pixels,
   alpha-channel removal with an unused colour as key, palette condensation with merged transparent entries,
   indexed->channels - maps a well-formed image that means `pic` to a well-formed image that means a picture
   alpha-equivalent to `pic`; and the whole reduction pipeline, with or without alpha optimisation, keeps every
   candidate alpha-equivalent to the input (C03_reductions_alpha_partial; nothing assumed about the reductions).
   THE FILTER-SPECIFIC REWRITE of optimize_alpha is proved too: each rewritten scan line differs from the line only in
   the colour bytes of fully transparent pixels (C03_alpha_line), the stream filter_image writes with the optimisation
   on decodes under the specification to a picture alpha-equivalent to the image's (C03_filter_alpha_stream, all ten
   strategies, any Brute oracle), and the stream compressed into the emitted IDAT decodes to a picture alpha-equivalent
   to the input's (C03_emitted_stream_alpha_partial). The container is decided per run by correspondence
   and the specification oracle (alpha-equivalence of decoded input and output). *)
From OxiVerif Require Import Base.Common Spec.Adam7 Spec.Sem Model.Types Model.Options Model.Color Model.Palette Model.Reductions Model.Evaluate Model.Optimize
  Proofs.Bridge Proofs.PixelProofs Proofs.ImageLift Proofs.LiftColor Proofs.LiftAlpha Proofs.PipelineLossless
  Spec.Decode Spec.DecodeFile Model.Filters Model.Headers Model.PngData Proofs.AlphaLine Proofs.AlphaStream Proofs.EmittedStream Proofs.OutputDecode Proofs.FileToFile Proofs.ContainerOk.

Theorem C03_partial_transparent_rgba : forall d r g b r' g' b',
  match color_of_samples SRGBA d [r; g; b; 0], color_of_samples SRGBA d [r'; g'; b'; 0] with
  | Some p, Some q => rgba_alpha_equivb p q = true
  | _, _ => False
  end.
Proof. exact pixel_transparent_rgba. Qed.
Print Assumptions C03_partial_transparent_rgba.

Theorem C03_partial_transparent_gray_alpha : forall d v v',
  match color_of_samples SGrayAlpha d [v; 0], color_of_samples SGrayAlpha d [v'; 0] with
  | Some p, Some q => rgba_alpha_equivb p q = true
  | _, _ => False
  end.
Proof. exact pixel_transparent_gray_alpha. Qed.
Print Assumptions C03_partial_transparent_gray_alpha.

Theorem C03_partial_transparent_to_key : forall d v t, 0 <= t < 2 ^ d -> 0 < d ->
  match color_of_samples SGrayAlpha d [v; 0], color_of_samples (SGray (Some t)) d [t] with
  | Some p, Some q => rgba_alpha_equivb p q = true
  | _, _ => False
  end.
Proof. exact pixel_transparent_to_key_gray. Qed.
Print Assumptions C03_partial_transparent_to_key.

Theorem C03_alpha_equiv_is_equivalence :
  (forall p, rgba_alpha_equivb p p = true) /\
  (forall p q, rgba_alpha_equivb p q = true -> rgba_alpha_equivb q p = true) /\
  (forall p q s, rgba_alpha_equivb p q = true -> rgba_alpha_equivb q s = true -> rgba_alpha_equivb p s = true).
Proof. split; [exact rgba_alpha_equivb_refl|split; [exact rgba_alpha_equivb_sym|exact rgba_alpha_equivb_trans]]. Qed.
Print Assumptions C03_alpha_equiv_is_equivalence.

(* ------------------------------------------------------------------ image level *)
Theorem C03_picture_equiv_is_equivalence :
  (forall p, pic_aequiv p p) /\ (forall p q r, pic_aequiv p q -> pic_aequiv q r -> pic_aequiv p r).
Proof. split; [exact pic_aequiv_refl|exact pic_aequiv_trans]. Qed.
Print Assumptions C03_picture_equiv_is_equivalence.

Theorem C03_image_cleaned_alpha : forall img img' pic, wf img ->
  cleaned_alpha_channel img = Some img' -> sem img = Some pic ->
  (exists pic', sem img' = Some pic' /\ pic_aequiv pic pic') /\ wf img'.
Proof. exact cleaned_alpha_channel_aequiv. Qed.
Print Assumptions C03_image_cleaned_alpha.

Theorem C03_image_alpha_to_key : forall img img' pic, wf img ->
  reduced_alpha_channel img true = Some img' -> sem img = Some pic ->
  (exists pic', sem img' = Some pic' /\ pic_aequiv pic pic') /\ wf img'.
Proof. exact reduced_alpha_channel_aequiv. Qed.
Print Assumptions C03_image_alpha_to_key.

Theorem C03_image_reduced_palette : forall img img' pic, wf img ->
  reduced_palette img true = Some img' -> sem img = Some pic ->
  (exists pic', sem img' = Some pic' /\ pic_aequiv pic pic') /\ wf img'.
Proof. exact reduced_palette_aequiv. Qed.
Print Assumptions C03_image_reduced_palette.

Theorem C03_image_indexed_to_channels : forall img img' allow_gray pic, wf img ->
  indexed_to_channels img allow_gray true = Some img' -> sem img = Some pic ->
  (exists pic', sem img' = Some pic' /\ pic_aequiv pic pic') /\ wf img'.
Proof. exact indexed_to_channels_aequiv. Qed.
Print Assumptions C03_image_indexed_to_channels.

(* the lifting principle: pixelwise alpha-equivalent byte-aligned images decode to alpha-equivalent pictures *)
Theorem C03_lift_aequiv : forall w h il pc pc' (B B' : nat) (pxs pxs' : list (list Z)) pic,
  (0 < B)%nat -> (0 < B')%nat ->
  Forall (fun px => length px = B) pxs -> Forall (fun px => length px = B') pxs' ->
  Forall2 (fun px px' => aequiv (pc (sbits_of_bytes px)) (pc' (sbits_of_bytes px'))) pxs pxs' ->
  gsem w h (8 * Z.of_nat B) il pc (concat pxs) = Some pic ->
  exists pic', gsem w h (8 * Z.of_nat B') il pc' (concat pxs') = Some pic' /\ pic_aequiv pic pic'.
Proof. exact aequiv_gsem. Qed.
Print Assumptions C03_lift_aequiv.

(* ------------------------------------------------------------------ the reduction pipeline, alpha optimisation on or off *)
Theorem C03_reductions_alpha_partial : forall e o img pic baseline evs,
  scale_16 o = false ->
  ameans pic img ->
  perform_reductions e o img = Ok (baseline, evs) ->
  ameans pic baseline /\ Forall (cand_ameans pic) evs.
Proof. exact perform_reductions_alpha_partial. Qed.
Print Assumptions C03_reductions_alpha_partial.

Theorem C03_emitted_alpha_partial : forall e o img max_size c pic,
  scale_16 o = false -> ameans pic img ->
  optimize_raw e o img max_size = Ok (Some c) -> ameans pic (c_image c).
Proof. exact optimize_raw_alpha_partial. Qed.
Print Assumptions C03_emitted_alpha_partial.

(* one scan line under optimize_alpha: same length, bytes, and pixel by pixel either unchanged or a fully transparent pixel
   whose alpha bytes are kept *)
Theorem C03_alpha_line : forall (bpp cb : nat) f data prev k,
  (cb <= bpp)%nat -> (0 < bpp)%nat ->
  length data = (k * bpp)%nat -> length prev = length data -> bytes_ok data -> bytes_ok prev -> (1 <= k)%nat ->
  let data' := optimize_alpha_line f bpp data prev cb in
  length data' = length data /\ bytes_ok data' /\
  Forall2 (fun px px' => px' = px \/ (all_zero (skipn cb px) = true /\ skipn cb px' = skipn cb px /\ length px' = length px /\ bytes_ok px'))
          (chunks_exact bpp data) (chunks_exact bpp data').
Proof. intros bpp cb f data prev k Hcb Hb Hl Hp Hd Hpv Hk. exact (optimize_alpha_line_rel bpp cb Hcb Hb f data prev k Hl Hp Hd Hpv Hk). Qed.
Print Assumptions C03_alpha_line.

Theorem C03_filter_alpha_stream : forall brute (img : image) f stream pic,
  wf img -> sem img = Some pic -> has_alpha (ctype (hdr img)) = true ->
  filter_image brute img f true = Ok stream ->
  exists pic', spec_decode_stream (width (hdr img)) (height (hdr img)) (spec_color_of (ctype (hdr img))) (depth (hdr img)) (interlaced (hdr img)) stream = Some pic'
    /\ pic_aequiv pic pic'.
Proof. exact filter_image_alpha_decodes. Qed.
Print Assumptions C03_filter_alpha_stream.

Theorem C03_emitted_stream_alpha_partial : forall e o img max_size c pic,
  scale_16 o = false -> ameans pic img ->
  optimize_raw e o img max_size = Ok (Some c) ->
  exists d stream pic', c_cdata c = z_deflate e d stream /\
    spec_decode_stream (width (hdr (c_image c))) (height (hdr (c_image c))) (spec_color_of (ctype (hdr (c_image c))))
                       (depth (hdr (c_image c))) (interlaced (hdr (c_image c))) stream = Some pic' /\
    pic_aequiv pic pic'.
Proof. exact emitted_stream_alpha_partial. Qed.
Print Assumptions C03_emitted_stream_alpha_partial.

(* FILE TO FILE with alpha optimisation allowed: the in-memory entry point returns the input bytes or the serialisation of a PngData
   that the specification's whole-file decoder maps to a picture alpha-equivalent to the one it decodes from the input file *)
Theorem C03_file_to_file_partial : forall e o (inflate : list Z -> option (list Z)) bytes out pic nm ih rest,
  scale_16 o = false ->
  bytes_ok bytes ->
  spec_parse_png bytes = Some ((nm, ih) :: rest) ->
  spec_decode_chunks inflate ((nm, ih) :: rest) = Some pic ->
  List.filter (named spec_IHDR) rest = [] ->
  (length (List.filter (named spec_PLTE) rest) <= 1)%nat -> (length (List.filter (named spec_tRNS) rest) <= 1)%nat ->
  (forall x n y, z_inflate e x n = Ok y -> inflate x = Some y /\ bytes_ok y) ->
  (forall d s, inflate (z_deflate e d s) = Some s) ->
  (forall p, from_slice e bytes o = Ok p ->
     spec_raw_size (width (hdr (raw p))) (height (hdr (raw p))) (bpp (hdr (raw p))) (interlaced (hdr (raw p))) true <= usize_max /\
     wf_ctype (ctype (hdr (raw p))) (depth (hdr (raw p)))) ->
  optimize_from_memory e o bytes = Ok out ->
  out = bytes \/ exists p', out = output p' /\
    (container_ok p' -> exists pic', spec_decode_png inflate (output p') = Some pic' /\ pic_aequiv pic pic').
Proof. exact optimize_from_memory_alpha_partial. Qed.
Print Assumptions C03_file_to_file_partial.

(* THE FULL STATEMENT of C03 on the model, container conditions derived from the input *)
Theorem C03_file_to_file : forall e o (inflate : list Z -> option (list Z)) bytes out pic nm ih rest M,
  scale_16 o = false ->
  bytes_ok bytes -> lenZ bytes + 5 <= M -> M + 4 < 2 ^ 31 -> (forall d s, lenZ (z_deflate e d s) <= M) ->
  spec_parse_png bytes = Some ((nm, ih) :: rest) ->
  spec_decode_chunks inflate ((nm, ih) :: rest) = Some pic ->
  List.filter (named spec_IHDR) rest = [] ->
  (length (List.filter (named spec_PLTE) rest) <= 1)%nat -> (length (List.filter (named spec_tRNS) rest) <= 1)%nat ->
  (forall x n y, z_inflate e x n = Ok y -> inflate x = Some y /\ bytes_ok y) ->
  (forall d s, inflate (z_deflate e d s) = Some s) ->
  (forall p, from_slice e bytes o = Ok p ->
     spec_raw_size (width (hdr (raw p))) (height (hdr (raw p))) (bpp (hdr (raw p))) (interlaced (hdr (raw p))) true <= usize_max /\
     wf_ctype (ctype (hdr (raw p))) (depth (hdr (raw p)))) ->
  optimize_from_memory e o bytes = Ok out ->
  exists pic', spec_decode_png inflate out = Some pic' /\ pic_aequiv pic pic'.
Proof. exact optimize_from_memory_alpha. Qed.
Print Assumptions C03_file_to_file.

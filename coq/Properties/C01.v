(* C01 — Lossless: the optimised file decodes to exactly the same pixels.
   FULL STATEMENT (DESIGN.md §3 C01(d)): for every zlib oracle with inflate∘deflate = id, every file,
   options with optimize_alpha = scale_16 = false, every schedule and deadline pattern:
     spec_decode file = Some pic -> optimize_from_memory … file = Ok out -> spec_decode out = Some pic.
   PROVED SO FAR (this file):
   (1) per-pixel exactness of the sample mappings and the row-filter stage (the C01_partial_pixel theorems);
   (2) IMAGE LEVEL, for every width, height, interlacing and content: each of the transformations
       16->8, sub-byte expansion to 8 bits and reduction to 1/2/4 bits, RGB(A)->gray(A), alpha removal, truecolour/gray->indexed, indexed->channels, palette
       condensation, palette luma sort, any palette reordering that covers the used indices, interlacing and
       DE-INTERLACING (the state machine of src/interlace.rs, bits and bytes variants) maps a
       well-formed image that means `pic` to a well-formed image that means `pic` (the C01_image theorems);
   (3) PIPELINE: perform_reductions, for every option vector with the two lossy switches off and every
       clock: the baseline and every candidate handed to the evaluator mean what the input means
       (C01_reductions_lossless_partial). NOTHING is assumed about the reductions any more: the last two
       leaves, the co-occurrence palette sorters, are proved (C01_image_mzeng, C01_image_battiato);
   (4) FILE TO FILE: from_slice reads a valid datastream the way the specification's whole-file decoder does
       (C01_input_parse_means: chunk walker = strict chunk parser, IDAT/IHDR/PLTE/tRNS collection, header
       and colour interpretation, PngImage::new), and optimize_from_memory returns the input bytes or the
       serialisation of a PngData that the specification decodes to the INPUT FILE's picture
       (C01_file_to_file_partial; hypotheses: the zlib oracle, container side conditions on
       the written chunks, image size within usize, colour key within the sample range).
   (5) THE FULL STATEMENT on the model (C01_file_to_file): the container side conditions are DERIVED from the input
       (from_slice's chunks and frames are bounded by the input length, preprocess / postprocess keep that, the key chunks and
       the frame chunks are well-formed, the colour key fits): for a valid input file shorter than 2^31 - 9 bytes,
       optimize_from_memory e o bytes = Ok out  ->  spec_decode_png inflate out = Some pic,
       under the zlib oracle only (inflate o deflate = id, the code's inflate is the specification's, the compressor
       never returns 2 GiB) and validity of the input (one IHDR, at most one PLTE / tRNS, key within the sample range,
       size within usize).
   Everything assumed is exercised on every run by the correspondence check and the specification oracle. *)
From OxiVerif Require Import Base.Common Spec.Filter Spec.Adam7 Spec.Sem Model.Types Model.Options Model.BitDepth
  Model.ScanLines Model.Filters Model.Color Model.Palette Model.Reductions Model.Evaluate Model.Optimize
  Proofs.Bridge Proofs.PixelProofs Proofs.FilterProofs Proofs.ImageLift Proofs.LiftReductions Proofs.LiftColor
  Proofs.LiftPalette Proofs.LiftLines Proofs.LiftBits Proofs.LiftInterlace Proofs.LiftDeinterlace Proofs.CoocMatrix Proofs.LiftMzeng Proofs.BattiatoLoop Proofs.LiftBattiato Proofs.PipelineLossless Proofs.FilterStream Proofs.EmittedStream.
From OxiVerif Require Import Model.Interlace.
From OxiVerif Require Import Spec.Decode Spec.DecodeFile Model.Headers Model.PngData Proofs.OutputProofs Proofs.OutputDecode Proofs.FileLevel Proofs.UnfilterImage Proofs.InputParse Proofs.FileToFile Proofs.ContainerOk.

(* 16 -> 8 bit reduction: every pixel (samples whose two bytes are equal) keeps its exact RGBA
   value, colour key included (this is the statement that was false before fix 13ac031) *)
Theorem C01_partial_pixel_16_to_8_gray : forall key b,
  (forall k, key = Some k -> u16 k) -> 0 <= b < 256 ->
  color_of_samples (spec_color_of (Gray key)) 16 [257 * b]
  = color_of_samples (spec_color_of (color_type_16_to_8 (Gray key) exact_16_to_8)) 8 [b].
Proof. exact pixel_16_to_8_gray. Qed.
Print Assumptions C01_partial_pixel_16_to_8_gray.

Theorem C01_partial_pixel_16_to_8_rgb : forall key r g b,
  (forall kr kg kb, key = Some (kr, kg, kb) -> u16 kr /\ u16 kg /\ u16 kb) ->
  0 <= r < 256 -> 0 <= g < 256 -> 0 <= b < 256 ->
  color_of_samples (spec_color_of (RGB key)) 16 [257 * r; 257 * g; 257 * b]
  = color_of_samples (spec_color_of (color_type_16_to_8 (RGB key) exact_16_to_8)) 8 [r; g; b].
Proof. exact pixel_16_to_8_rgb. Qed.
Print Assumptions C01_partial_pixel_16_to_8_rgb.

Theorem C01_partial_pixel_16_to_8_alpha : forall r g b a,
  0 <= r < 256 -> 0 <= g < 256 -> 0 <= b < 256 -> 0 <= a < 256 ->
  color_of_samples SRGBA 16 [257 * r; 257 * g; 257 * b; 257 * a] = color_of_samples SRGBA 8 [r; g; b; a]
  /\ color_of_samples SGrayAlpha 16 [257 * b; 257 * a] = color_of_samples SGrayAlpha 8 [b; a].
Proof. intros. split; [apply pixel_16_to_8_rgba | apply pixel_16_to_8_gray_alpha]; assumption. Qed.
Print Assumptions C01_partial_pixel_16_to_8_alpha.

(* RGB -> grayscale: a gray-valued pixel keeps its value; the key is carried over exactly when it
   can still match *)
Theorem C01_partial_pixel_rgb_to_gray : forall key d v, (d = 8 \/ d = 16) -> 0 <= v < 2 ^ d ->
  (forall kr kg kb, key = Some (kr, kg, kb) -> 0 <= kr < 2 ^ d /\ 0 <= kg < 2 ^ d /\ 0 <= kb < 2 ^ d) ->
  color_of_samples (SRGB key) d [v; v; v]
  = color_of_samples (SGray (match key with
                             | Some (r, g, b) => if (r =? g) && (g =? b) then Some r else None
                             | None => None end)) d [v].
Proof. exact pixel_rgb_to_gray. Qed.
Print Assumptions C01_partial_pixel_rgb_to_gray.

(* alpha channel removal: an opaque pixel keeps its value *)
Theorem C01_partial_pixel_drop_alpha : forall d r g b, (d = 8 \/ d = 16) ->
  color_of_samples SRGBA d [r; g; b; 2 ^ d - 1] = color_of_samples (SRGB None) d [r; g; b]
  /\ color_of_samples SGrayAlpha d [r; 2 ^ d - 1] = color_of_samples (SGray None) d [r].
Proof. intros. split; [apply pixel_drop_alpha_rgb | apply pixel_drop_alpha_gray]; assumption. Qed.
Print Assumptions C01_partial_pixel_drop_alpha.

(* row filtering is undone exactly by the specification's reconstruction *)
Theorem C01_partial_filter_stage : forall (f : row_filter) (bpp : nat) (data prev : list Z),
  (1 <= bpp)%nat -> is_standard f = true ->
  (bpp <= length data)%nat -> length prev = length data -> bytes_ok data -> bytes_ok prev ->
  exists buf, filter_line f bpp data prev 0 = Ok (filter_code f :: buf, data) /\
              spec_recon_line bpp (filter_code f) buf prev = data /\
              unfilter_line f bpp buf prev = Ok data.
Proof. exact unfilter_filter_line. Qed.
Print Assumptions C01_partial_filter_stage.

(* ------------------------------------------------------------------ image level (all sizes, interlaced or not) *)
Theorem C01_image_16_to_8 : forall img img' pic, means pic img ->
  reduced_bit_depth_16_to_8 img false = Some img' -> means pic img'.
Proof. exact reduced_16_to_8_means. Qed.
Print Assumptions C01_image_16_to_8.

Theorem C01_image_rgb_to_gray : forall img img' pic, wf img ->
  reduced_rgb_to_grayscale img = Some img' -> sem img = Some pic -> sem img' = Some pic /\ wf img'.
Proof. exact reduced_rgb_to_grayscale_sem. Qed.
Print Assumptions C01_image_rgb_to_gray.

Theorem C01_image_drop_alpha : forall img img' pic, wf img ->
  reduced_alpha_channel img false = Some img' -> sem img = Some pic -> sem img' = Some pic /\ wf img'.
Proof. exact reduced_alpha_channel_sem. Qed.
Print Assumptions C01_image_drop_alpha.

Theorem C01_image_to_indexed : forall img img' allow_gray pic, wf img ->
  reduced_to_indexed img allow_gray = Some img' -> sem img = Some pic -> sem img' = Some pic /\ wf img'.
Proof. exact reduced_to_indexed_sem. Qed.
Print Assumptions C01_image_to_indexed.

Theorem C01_image_indexed_to_channels : forall img img' allow_gray pic, wf img ->
  indexed_to_channels img allow_gray false = Some img' -> sem img = Some pic -> sem img' = Some pic /\ wf img'.
Proof. exact indexed_to_channels_sem. Qed.
Print Assumptions C01_image_indexed_to_channels.

Theorem C01_image_reduced_palette : forall img img' pic, wf img ->
  reduced_palette img false = Some img' -> sem img = Some pic -> sem img' = Some pic /\ wf img'.
Proof. exact reduced_palette_sem. Qed.
Print Assumptions C01_image_reduced_palette.

Theorem C01_image_sorted_palette : forall img img' pic, wf img ->
  sorted_palette img = Ok (Some img') -> sem img = Some pic -> sem img' = Some pic /\ wf img'.
Proof. exact sorted_palette_sem. Qed.
Print Assumptions C01_image_sorted_palette.

(* sub-byte depths: expansion to 8 bits and reduction to 1, 2 or 4 bits (scan-line padding, bit replication of gray
   samples and of the colour key included) *)
Theorem C01_image_expand_to_8 : forall img img' pic, wf img ->
  expanded_bit_depth_to_8 img = Ok (Some img') -> sem img = Some pic -> sem img' = Some pic /\ wf img'.
Proof. exact expanded_bit_depth_to_8_sem. Qed.
Print Assumptions C01_image_expand_to_8.

Theorem C01_image_reduce_8_or_less : forall img img' pic, wf img ->
  reduced_bit_depth_8_or_less img = Ok (Some img') -> sem img = Some pic -> sem img' = Some pic /\ wf img'.
Proof. exact reduced_bit_depth_8_or_less_sem. Qed.
Print Assumptions C01_image_reduce_8_or_less.

(* interlacing a non-interlaced image (pixel routing, pass rows packed and padded per row) *)
Theorem C01_image_interlace : forall img img' pic, wf img -> interlaced (hdr img) = false ->
  interlace_image img = Ok img' -> sem img = Some pic -> sem img' = Some pic /\ wf img'.
Proof. exact interlace_image_sem. Qed.
Print Assumptions C01_image_interlace.

(* any reordering of the palette that still lists every index the image uses *)
Theorem C01_image_palette_reorder : forall img remapping img' pic,
  depth (hdr img) = 8 -> wf img -> (length remapping <= 256)%nat ->
  (forall pal, ctype (hdr img) = Indexed pal -> covers (lenZ pal) remapping (data img)) ->
  apply_palette_reorder img remapping = Ok (Some img') -> sem img = Some pic -> sem img' = Some pic /\ wf img'.
Proof. exact apply_palette_reorder_sem. Qed.
Print Assumptions C01_image_palette_reorder.

(* the lifting principle itself: two byte-aligned images whose pixels, in order, have the same colours
   mean the same picture -- whatever the dimensions and the interlacing *)
Theorem C01_lift_samecols : forall w h il pc pc' (B B' : nat) (pxs pxs' : list (list Z)),
  (0 < B)%nat -> (0 < B')%nat ->
  Forall (fun px => length px = B) pxs -> Forall (fun px => length px = B') pxs' ->
  map (fun px => pc' (sbits_of_bytes px)) pxs' = map (fun px => pc (sbits_of_bytes px)) pxs ->
  gsem w h (8 * Z.of_nat B') il pc' (concat pxs') = gsem w h (8 * Z.of_nat B) il pc (concat pxs).
Proof. exact samecols_gsem. Qed.
Print Assumptions C01_lift_samecols.

(* ------------------------------------------------------------------ the reduction pipeline *)
Theorem C01_reductions_lossless_partial : forall e o img pic baseline evs,
  optimize_alpha o = false -> scale_16 o = false ->
  means pic img ->
  perform_reductions e o img = Ok (baseline, evs) ->
  means pic baseline /\ Forall (cand_means pic) evs.
Proof. exact perform_reductions_lossless_partial. Qed.
Print Assumptions C01_reductions_lossless_partial.

(* ... and so does the image of whatever candidate optimize_raw finally chooses: for every evaluator schedule, every compressor
   answer, every clock and every size limit *)
Theorem C01_emitted_lossless_partial : forall e o img max_size c pic,
  optimize_alpha o = false -> scale_16 o = false -> means pic img ->
  optimize_raw e o img max_size = Ok (Some c) -> means pic (c_image c).
Proof. exact optimize_raw_lossless_partial. Qed.
Print Assumptions C01_emitted_lossless_partial.

(* ... down to the IDAT content: what is written is the compressor's answer for a filtered stream which the SPECIFICATION's decoder
   (reconstruction of the filtered rows pass by pass, then the meaning of the image data) maps to the picture the input means -
   for all ten filter strategies, any Brute choice oracle, any compressor, schedule and clock *)
Theorem C01_emitted_stream_partial : forall e o img max_size c pic,
  optimize_alpha o = false -> scale_16 o = false -> means pic img ->
  optimize_raw e o img max_size = Ok (Some c) ->
  exists d stream, c_cdata c = z_deflate e d stream /\
    spec_decode_stream (width (hdr (c_image c))) (height (hdr (c_image c))) (spec_color_of (ctype (hdr (c_image c))))
                       (depth (hdr (c_image c))) (interlaced (hdr (c_image c))) stream = Some pic.
Proof. exact emitted_stream_lossless_partial. Qed.
Print Assumptions C01_emitted_stream_partial.

(* ... and to the BYTES WRITTEN: the file that `output` writes for the chosen candidate is decoded by the specification's
   whole-file decoder (strict container parse with CRCs, IHDR, PLTE/tRNS, inflate, un-filtering, Adam7, colour) to the picture the
   input image means. Named side conditions: the decompressor undoes the compressor; chunk payloads < 2^31 bytes; no ancillary
   chunk is named IEND/PLTE/tRNS/IDAT; header fields fit their encodings. *)
Theorem C01_file_decodes_partial : forall e o img max_size c pic (inflate : list Z -> option (list Z)) (p' : pngdata),
  optimize_alpha o = false -> scale_16 o = false -> means pic img ->
  optimize_raw e o img max_size = Ok (Some c) ->
  (forall d s, inflate (z_deflate e d s) = Some s) ->
  raw p' = c_image c -> idat_data p' = c_cdata c ->
  Forall chunk_wf (output_body p') -> Forall not_iend (output_body p') ->
  writable (hdr (raw p')) -> 0 <= depth (hdr (raw p')) < 256 -> Forall not_key (aux_written p') ->
  spec_decode_png inflate (output p') = Some pic.
Proof. exact emitted_file_decodes_partial. Qed.
Print Assumptions C01_file_decodes_partial.

(* THE INPUT SIDE: the image that PngImage::new builds from a header and the compressed image data means exactly what the
   specification's decoder makes of the inflated stream under that header (so `means pic` above is what the input FILE's IDAT
   content decodes to; the chunk-level parse of the input into header, palette, key and IDAT is tied by correspondence) *)
Theorem C01_parsed_image_means : forall (e : env) (hd : ihdr) (compressed : list Z) (img : image),
  png_image_new e hd compressed = Ok img ->
  depth_legal (spec_color_of (ctype hd)) (depth hd) = true -> 1 <= bpp hd ->
  spec_raw_size (width hd) (height hd) (bpp hd) (interlaced hd) true <= usize_max ->
  0 <= width hd -> 0 <= height hd ->
  (forall x n y, z_inflate e x n = Ok y -> bytes_ok y) ->
  exists stream, z_inflate e compressed (raw_data_size hd) = Ok stream /\ hdr img = hd /\ bytes_ok (data img) /\
    spec_unfilter (width hd) (height hd) (bpp hd) (interlaced hd) stream = Some (data img) /\
    sem img = spec_decode_stream (width hd) (height hd) (spec_color_of (ctype hd)) (depth hd) (interlaced hd) stream.
Proof. exact png_image_new_sem. Qed.
Print Assumptions C01_parsed_image_means.

(* non-vacuity: the witness of finding F1 (4x2 gray16, pixels 3434 1212 0000 ffff, key 0x1234):
   after the fix the key is dropped because it can match no pixel *)
Example C01_example_F1 :
  option_map (fun i => (ctype (hdr i), data i))
    (reduced_bit_depth_16_to_8
       {| hdr := {| width := 4; height := 1; ctype := Gray (Some 4660); depth := 16; interlaced := false |};
          data := [52; 52; 18; 18; 0; 0; 255; 255] |} false)
  = Some (Gray None, [52; 18; 0; 255]).
Proof. vm_compute. reflexivity. Qed.

(* de-interlacing: deinterlace_image (the pass / row state machine with increment_pass, bits and bytes variants) maps a
   well-formed interlaced image that means `pic` to a well-formed non-interlaced image that means `pic` - every size *)
Theorem C01_image_deinterlace : forall img img' pic, wf img -> interlaced (hdr img) = true ->
  deinterlace_image img = Ok img' -> sem img = Some pic -> sem img' = Some pic /\ wf img'.
Proof. exact deinterlace_image_sem. Qed.
Print Assumptions C01_image_deinterlace.

(* INPUT SIDE: what PngData::from_slice builds from a valid datastream means the picture the specification decodes from it *)
Theorem C01_input_parse_means : forall (e : env) (o : options) (inflate : list Z -> option (list Z)) bytes p pic nm ih rest,
  bytes_ok bytes ->
  from_slice e bytes o = Ok p ->
  spec_parse_png bytes = Some ((nm, ih) :: rest) ->
  spec_decode_chunks inflate ((nm, ih) :: rest) = Some pic ->
  List.filter (named spec_IHDR) rest = [] ->
  (length (List.filter (named spec_PLTE) rest) <= 1)%nat -> (length (List.filter (named spec_tRNS) rest) <= 1)%nat ->
  (forall x n y, z_inflate e x n = Ok y -> inflate x = Some y /\ bytes_ok y) ->
  spec_raw_size (width (hdr (raw p))) (height (hdr (raw p))) (bpp (hdr (raw p))) (interlaced (hdr (raw p))) true <= usize_max ->
  wf_ctype (ctype (hdr (raw p))) (depth (hdr (raw p))) ->
  wf (raw p) /\ sem (raw p) = Some pic /\
  exists stream, inflate (idat_data p) = Some stream /\
    spec_decode_stream (width (hdr (raw p))) (height (hdr (raw p))) (spec_color_of (ctype (hdr (raw p)))) (depth (hdr (raw p)))
                       (interlaced (hdr (raw p))) stream = Some pic.
Proof. exact from_slice_means. Qed.
Print Assumptions C01_input_parse_means.

(* FILE TO FILE: the whole in-memory entry point on the model *)
Theorem C01_file_to_file_partial : forall e o (inflate : list Z -> option (list Z)) bytes out pic nm ih rest,
  optimize_alpha o = false -> scale_16 o = false ->
  bytes_ok bytes ->
  spec_parse_png bytes = Some ((nm, ih) :: rest) ->
  spec_decode_chunks inflate ((nm, ih) :: rest) = Some pic ->
  List.filter (named spec_IHDR) rest = [] ->
  (length (List.filter (named spec_PLTE) rest) <= 1)%nat -> (length (List.filter (named spec_tRNS) rest) <= 1)%nat ->
  (forall x n y, z_inflate e x n = Ok y -> inflate x = Some y /\ bytes_ok y) ->
  (forall d s, inflate (z_deflate e d s) = Some s) ->
  (forall p, from_slice e bytes o = Ok p ->
     spec_raw_size (width (hdr (raw p))) (height (hdr (raw p))) (bpp (hdr (raw p))) (interlaced (hdr (raw p))) true <= usize_max /\
     wf_ctype (ctype (hdr (raw p))) (depth (hdr (raw p)))) ->
  optimize_from_memory e o bytes = Ok out ->
  out = bytes \/ exists p', out = output p' /\ (container_ok p' -> spec_decode_png inflate (output p') = Some pic).
Proof. exact optimize_from_memory_lossless_partial. Qed.
Print Assumptions C01_file_to_file_partial.

(* non-vacuity of the file-level hypotheses: a concrete 1x1 8-bit grey datastream (stored "compression") parses strictly and decodes *)
Definition tiny_png : list Z :=
  spec_signature ++ serialize [(spec_IHDR, [0;0;0;1; 0;0;0;1; 8; 0; 0; 0; 0]); (spec_IDAT, [0; 5]); (spec_IEND, [])].
Example C01_file_example :
  spec_decode_png (fun x => Some x) tiny_png = Some {| pic_w := 1; pic_h := 1; pic_px := [[(1285, 1285, 1285, 65535)]] |}
  /\ exists nm ih rest, spec_parse_png tiny_png = Some ((nm, ih) :: rest) /\ List.filter (named spec_IHDR) rest = [].
Proof. split; [vm_compute; reflexivity|]. eexists _, _, _. split; vm_compute; reflexivity. Qed.

(* the mzeng palette sorter: co-occurrence matrix, heaviest edge, greedy insertion by accumulated co-occurrence sums. Its index
   list contains every index the image uses - the co-occurrence graph of the used indices is connected because consecutive
   pixels in scan order are counted, so an unplaced used index always has a positive sum; the code's phantom choice (index 0
   when all sums are zero) can only replace unused entries; a one-colour image is saved by apply_most_popular_color's lookup -
   hence the re-ordered image means the same picture *)
Theorem C01_image_mzeng : forall img r pic, wf img -> sem img = Some pic ->
  sorted_palette_mzeng img = Ok (Some r) -> sem r = Some pic /\ wf r.
Proof. exact sorted_palette_mzeng_sem. Qed.
Print Assumptions C01_image_mzeng.

(* the co-occurrence matrix: symmetric, non-negative, counts every pair of consecutive pixels and only values that occur *)
Theorem C01_cooccurrence_matrix : forall (n : nat) (lines : list scanline) m,
  Forall (fun l => Forall (fun v => 0 <= v < Z.of_nat n) (l_data l)) lines ->
  co_occurrence_matrix n lines = Ok m -> cooc_inv n m (concat (map l_data lines)).
Proof. exact co_occurrence_inv. Qed.
Print Assumptions C01_cooccurrence_matrix.

(* the battiato palette sorter: chains of vertices grown along the edges in order of weight. Over the complete edge list every pair
   of vertices ends in one chain or has a black (interior) member; every chain keeps exactly two red (endpoint) members; hence a
   single chain - chain 0 - finally holds every palette index exactly once *)
Theorem C01_battiato_permutation : forall n edges c0, (2 <= n)%nat ->
  (forall a b, In (a, b) edges <-> 0 <= a < b /\ b < Z.of_nat n) ->
  battiato_reindex n edges = Ok c0 ->
  NoDup c0 /\ (length c0 <= n)%nat /\ forall v, 0 <= v < Z.of_nat n -> In v c0.
Proof. exact battiato_all_indices. Qed.
Print Assumptions C01_battiato_permutation.

Theorem C01_image_battiato : forall img r pic, wf img -> sem img = Some pic ->
  sorted_palette_battiato img = Ok (Some r) -> sem r = Some pic /\ wf r.
Proof. exact sorted_palette_battiato_sem. Qed.
Print Assumptions C01_image_battiato.

(* THE FULL STATEMENT of C01 on the model: no side condition on what is written - it is derived from the input *)
Theorem C01_file_to_file : forall e o (inflate : list Z -> option (list Z)) bytes out pic nm ih rest M,
  optimize_alpha o = false -> scale_16 o = false ->
  bytes_ok bytes -> lenZ bytes + 5 <= M -> M + 4 < 2 ^ 31 -> (forall d s, lenZ (z_deflate e d s) <= M) ->
  spec_parse_png bytes = Some ((nm, ih) :: rest) ->
  spec_decode_chunks inflate ((nm, ih) :: rest) = Some pic ->
  List.filter (named spec_IHDR) rest = [] ->
  (length (List.filter (named spec_PLTE) rest) <= 1)%nat -> (length (List.filter (named spec_tRNS) rest) <= 1)%nat ->
  (forall x n y, z_inflate e x n = Ok y -> inflate x = Some y /\ bytes_ok y) ->
  (forall d s, inflate (z_deflate e d s) = Some s) ->
  (forall p, from_slice e bytes o = Ok p ->
     spec_raw_size (width (hdr (raw p))) (height (hdr (raw p))) (bpp (hdr (raw p))) (interlaced (hdr (raw p))) true <= usize_max /\
     wf_ctype (ctype (hdr (raw p))) (depth (hdr (raw p)))) ->
  optimize_from_memory e o bytes = Ok out ->
  spec_decode_png inflate out = Some pic.
Proof. exact optimize_from_memory_lossless. Qed.
Print Assumptions C01_file_to_file.

(* the size margin in the alpha-reduction block of perform_reductions (Model/Reductions.s_alpha) is the literal of the current source *)
From OxiVerif Require Import Proofs.SrcLiteralAlpha.
From OxiVerif Require Gen.SrcConsts.
Theorem C01_alpha_margin_literal_is_source : SrcConsts.src_alpha_trns_margin = 1000.
Proof. exact alpha_trns_margin_is_source. Qed.
Print Assumptions C01_alpha_margin_literal_is_source.

(* Extraction of the executable model and specification to OCaml.
   Only the directives of ExtrOcamlBasic are used (bool, option, unit, list, prod, sumbool, …);
   Z, N, positive and nat stay extracted inductives: no Extract Constant, no ExtrOcamlZInt/NatInt. *)
From OxiVerif Require Import Base.Common Spec.Filter Spec.Adam7 Spec.Sem Spec.Decode Model.Types Model.Headers Model.ScanLines Model.Filters Model.Interlace Model.BitDepth Model.Color Model.Palette Model.Options Model.Evaluate Model.Reductions Model.PngData Model.Optimize Model.Cli Model.Io Model.Sched Base.Crc32.
Require Import ExtrOcamlBasic.
Extraction Language OCaml.
Set Extraction KeepSingleton.
Extraction "model.ml"
  paeth_predictor filter_line unfilter_line filter_image filter_image_rows unfilter_image
  scan_lines scan_ranges filter_of_code filter_code
  reduced_bit_depth_16_to_8 scaled_bit_depth_16_to_8 reduced_bit_depth_8_or_less expanded_bit_depth_to_8
  reduced_to_indexed reduced_rgb_to_grayscale indexed_to_channels cleaned_alpha_channel reduced_alpha_channel
  reduced_palette sorted_palette sorted_palette_mzeng sorted_palette_battiato scale_16_to_8
  crc32 default_options from_preset strip_keep is_c2pa parse_next_chunk parse_ihdr_chunk srgb_rendering_intent
  preprocess_chunks postprocess_chunks from_slice output perform_reductions optimize_raw optimize_png optimize_from_memory
  cli_options exit_code collect route is_png_name optimize_io sstep srun sinit some_enabled mu drive sstep_nospin
  evaluator_trials evaluator_best perform_trials
  is_fully_optimized raw_image_new raw_add_chunk raw_add_icc raw_create best_of sequential run init_state min_by_key completeb
  raw_data_size interlace_image deinterlace_image change_interlacing
  paeth_spec spec_recon_line spec_filter_line spec_recon_seq
  spec_layout spec_raw_size spec_image_pixels spec_sem spec_sem_scaled spec_unfilter spec_decode_stream sval picture_eqb picture_alpha_equivb scaled_rgba.

(* Extraction of the executable model and specification to OCaml.
   Only the directives of ExtrOcamlBasic are used (bool, option, unit, list, prod, sumbool, …);
   Z, N, positive and nat stay extracted inductives: no Extract Constant, no ExtrOcamlZInt/NatInt. *)
From OxiVerif Require Import Base.Common Spec.Filter Model.Types Model.ScanLines Model.Filters.
Require Import ExtrOcamlBasic.
Extraction Language OCaml.
Set Extraction KeepSingleton.
Extraction "model.ml"
  paeth_predictor filter_line unfilter_line filter_image filter_image_rows unfilter_image
  scan_lines scan_ranges filter_of_code filter_code
  paeth_spec spec_recon_line spec_filter_line spec_recon_seq.

(* Extraction of the executable model and specification to OCaml.
   Only the directives of ExtrOcamlBasic are used (bool, option, unit, list, prod, sumbool, …);
   Z, N, positive and nat stay extracted inductives: no Extract Constant, no ExtrOcamlZInt/NatInt. *)
From OxiVerif Require Import Base.Common Spec.Filter Spec.Adam7 Spec.Sem Model.Types Model.Headers Model.ScanLines Model.Filters Model.Interlace.
Require Import ExtrOcamlBasic.
Extraction Language OCaml.
Set Extraction KeepSingleton.
Extraction "model.ml"
  paeth_predictor filter_line unfilter_line filter_image filter_image_rows unfilter_image
  scan_lines scan_ranges filter_of_code filter_code
  raw_data_size interlace_image deinterlace_image change_interlacing
  paeth_spec spec_recon_line spec_filter_line spec_recon_seq
  spec_layout spec_raw_size spec_image_pixels spec_sem sval picture_eqb picture_alpha_equivb scaled_rgba.

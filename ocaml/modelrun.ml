(* modelrun: runs the OCaml extraction of the Gallina model / spec on the same line protocol as
   implrun: `<id> <fn> <args…>` per line on stdin, `<id> <result>` per line on stdout. *)
open Model

(* ------------------------------------------------------------ conversions *)
let rec pos_of_int n =
  if n = 1 then XH else if n land 1 = 0 then XO (pos_of_int (n lsr 1)) else XI (pos_of_int (n lsr 1))
let z_of_int n = if n = 0 then Z0 else if n > 0 then Zpos (pos_of_int n) else Zneg (pos_of_int (-n))
let rec int_of_pos = function XH -> 1 | XO p -> 2 * int_of_pos p | XI p -> 2 * int_of_pos p + 1
let int_of_z = function Z0 -> 0 | Zpos p -> int_of_pos p | Zneg p -> - (int_of_pos p)
let rec nat_of_int n = if n <= 0 then O else S (nat_of_int (n - 1))
let rec int_of_nat = function O -> 0 | S n -> 1 + int_of_nat n

(* small table so that bytes share their representation *)
let byte_tab = Array.init 256 z_of_int
let zb i = if i >= 0 && i < 256 then byte_tab.(i) else z_of_int i

let unhex s =
  if s = "-" then [] else
  let n = String.length s / 2 in
  List.init n (fun i -> zb (int_of_string ("0x" ^ String.sub s (2 * i) 2)))
let hex l =
  match l with [] -> "-" | _ ->
  let b = Buffer.create 64 in
  List.iter (fun z -> Buffer.add_string b (Printf.sprintf "%02x" (int_of_z z land 0xffffff))) l;
  Buffer.contents b

let split_on c s = String.split_on_char c s

let filter_of n = match filter_of_code (z_of_int n) with Some f -> f | None -> failwith "bad filter"

let parse_img tok : image =
  match split_on ':' tok with
  | ["img"; w; h; ct; d; il; extra; dat] ->
    let ct = int_of_string ct in
    let color = match ct with
      | 0 -> Gray (if extra = "-" then None else Some (z_of_int (int_of_string extra)))
      | 2 -> RGB (if extra = "-" then None else
                    match List.map (fun x -> z_of_int (int_of_string x)) (split_on ',' extra) with
                    | [r; g; b] -> Some ((r, g), b) | _ -> failwith "bad key")
      | 3 -> let b = unhex extra in
        let rec go = function r :: g :: bb :: a :: t -> (((r, g), bb), a) :: go t | _ -> [] in
        Indexed (go b)
      | 4 -> GrayAlpha
      | 6 -> RGBA
      | _ -> failwith "bad ct" in
    { hdr = { width = z_of_int (int_of_string w); height = z_of_int (int_of_string h); ctype = color;
              depth = z_of_int (int_of_string d); interlaced = (il = "1") };
      data = unhex dat }
  | _ -> failwith "bad img"

let fmt_img (img : image) =
  let ct, extra = match img.hdr.ctype with
    | Gray k -> 0, (match k with None -> "-" | Some t -> string_of_int (int_of_z t))
    | RGB k -> 2, (match k with None -> "-" | Some ((r, g), b) ->
        Printf.sprintf "%d,%d,%d" (int_of_z r) (int_of_z g) (int_of_z b))
    | Indexed p -> 3, hex (List.concat_map (fun (((r, g), b), a) -> [r; g; b; a]) p)
    | GrayAlpha -> 4, "-"
    | RGBA -> 6, "-" in
  Printf.sprintf "img:%d:%d:%d:%d:%d:%s:%s" (int_of_z img.hdr.width) (int_of_z img.hdr.height) ct
    (int_of_z img.hdr.depth) (if img.hdr.interlaced then 1 else 0) extra (hex img.data)

let err_kind = function
  | ENotPNG -> "notpng" | ETruncated -> "truncated" | EInvalidData -> "invaliddata"
  | EAPNGOutOfOrder -> "apngorder" | EChunkMissing -> "chunkmissing" | EInvalidDepthForType -> "depthtype"
  | EIncorrectDataLength -> "datalen" | EC2PA -> "c2pa" | EDeflatedTooLong -> "toolong" | EOther -> "other"

let panic_kind = function
  | PAssert -> "assert" | PIndex -> "index" | POverflow -> "overflow" | PUnwrap -> "unwrap"
  | PFuel -> "fuel" | PUnreachable -> "unreachable"

let res_str f = function
  | Ok a -> "ok " ^ f a
  | Err e -> "err " ^ err_kind e
  | Panic p -> "panic " ^ panic_kind p

(* brute oracle from a list of chosen filter types per row: picks the candidate whose first byte matches *)
let brute_of (types : int list) : brute_oracle =
  let arr = Array.of_list types in
  fun row cands ->
    let r = int_of_nat row in
    let want = if r < Array.length arr then arr.(r) else 0 in
    let rec find i = function
      | [] -> 0
      | (ft :: _) :: t -> if int_of_z ft = want then i else find (i + 1) t
      | [] :: t -> find (i + 1) t in
    nat_of_int (find 0 cands)

let spec_color_of (img : image) : spec_color =
  match img.hdr.ctype with
  | Gray k -> SGray k
  | RGB k -> SRGB k
  | Indexed p -> SIndexed p
  | GrayAlpha -> SGrayAlpha
  | RGBA -> SRGBA
let sem_of_img (img : image) =
  spec_sem img.hdr.width img.hdr.height (spec_color_of img) img.hdr.depth img.hdr.interlaced img.data
let pic_hex (p : picture) =
  let b = Buffer.create 1024 in
  List.iter (List.iter (fun (((r, g), bl), a) ->
      Buffer.add_string b (Printf.sprintf "%04x%04x%04x%04x" (int_of_z r) (int_of_z g) (int_of_z bl) (int_of_z a)))) p.pic_px;
  Buffer.contents b

(* ------------------------------------------------------------ options *)
let names_of s = if s = "" then [] else List.map unhex (split_on '+' s)
let parse_opts tok : options =
  let o = ref default_options in
  if tok <> "-" then
    List.iter (fun kv ->
        match String.index_opt kv '=' with
        | None -> failwith "bad opt"
        | Some i ->
          let k = String.sub kv 0 i and v = String.sub kv (i + 1) (String.length kv - i - 1) in
          let b = (v = "1") in
          let c = !o in
          o := (match k with
              | "preset" -> from_preset (z_of_int (int_of_string v))
              | "fix" -> { c with fix_errors = b }
              | "force" -> { c with force = b }
              | "filters" -> { c with filter0 = (if v = "" then [] else List.map (fun x -> filter_of (int_of_string x)) (split_on '+' v)) }
              | "interlace" -> { c with interlace = (match v with "keep" -> None | "0" -> Some false | _ -> Some true) }
              | "alpha" -> { c with optimize_alpha = b }
              | "bd" -> { c with bit_depth_reduction = b }
              | "ct" -> { c with color_type_reduction = b }
              | "pal" -> { c with palette_reduction = b }
              | "gray" -> { c with grayscale_reduction = b }
              | "recode" -> { c with idat_recoding = b }
              | "scale16" -> { c with scale_16 = b }
              | "strip" ->
                let pre p = String.length v > String.length p && String.sub v 0 (String.length p) = p in
                let suf p = String.sub v (String.length p) (String.length v - String.length p) in
                { c with strip = (if v = "none" then StripNone else if v = "safe" then StripSafe else if v = "all" then StripAll
                                  else if pre "strip:" then StripStrip (names_of (suf "strip:"))
                                  else if pre "keep:" then StripKeep (names_of (suf "keep:"))
                                  else if v = "strip:" then StripStrip [] else if v = "keep:" then StripKeep []
                                  else failwith "bad strip") }
              | "zc" -> { c with deflate = Libdeflater (z_of_int (int_of_string v)) }
              | "zopfli" -> { c with deflate = Zopfli (z_of_int (int_of_string v)) }
              | "fast" -> { c with fast_evaluation = b }
              | "timeout" -> { c with has_timeout = (v <> "-") }
              | _ -> failwith ("bad option key " ^ k)))
      (split_on ',' tok);
  !o

let fmt_deflater = function
  | Libdeflater c -> Printf.sprintf "zc=%d" (int_of_z c)
  | Zopfli i -> Printf.sprintf "zopfli=%d" (int_of_z i)

let fmt_opts (o : options) =
  let names l = String.concat "+" (List.map hex l) in
  Printf.sprintf "fix=%d,force=%d,filters=%s,interlace=%s,alpha=%d,bd=%d,ct=%d,pal=%d,gray=%d,recode=%d,scale16=%d,strip=%s,%s,fast=%d,timeout=%s"
    (Bool.to_int o.fix_errors) (Bool.to_int o.force)
    (String.concat "+" (List.map (fun f -> string_of_int (int_of_z (filter_code f))) o.filter0))
    (match o.interlace with None -> "keep" | Some false -> "0" | Some true -> "1")
    (Bool.to_int o.optimize_alpha) (Bool.to_int o.bit_depth_reduction) (Bool.to_int o.color_type_reduction)
    (Bool.to_int o.palette_reduction) (Bool.to_int o.grayscale_reduction) (Bool.to_int o.idat_recoding)
    (Bool.to_int o.scale_16)
    (match o.strip with StripNone -> "none" | StripSafe -> "safe" | StripAll -> "all"
                      | StripStrip l -> "strip:" ^ names l | StripKeep l -> "keep:" ^ names l)
    (fmt_deflater o.deflate) (Bool.to_int o.fast_evaluation) (if o.has_timeout then "1" else "-")

(* ------------------------------------------------------------ oracle environment from records *)
exception Oracle_miss of string
let split_records (t : string array) (from : int) : string list list =
  let recs = ref [] and cur = ref [] in
  for i = from to Array.length t - 1 do
    if t.(i) = "|" then (if !cur <> [] then recs := List.rev !cur :: !recs; cur := [])
    else cur := t.(i) :: !cur
  done;
  if !cur <> [] then recs := List.rev !cur :: !recs;
  List.rev !recs

(* the clock as recorded from the implementation: skipped trials (K records) and the answers given
   to the reduction sites in program order (M record; the closure is stateful on purpose: the model
   must consult the reduction sites in the same order as the code did) *)
let dl_of_records (recs : string list list) : site -> bool =
  let skipped = Hashtbl.create 16 in
  let answers = ref "" in
  List.iter (function
      | ["K"; e; n; f] -> Hashtbl.replace skipped (int_of_string e, int_of_string n, int_of_string f) ()
      | ["M"; a] -> answers := a
      | _ -> ()) recs;
  let counter = ref 0 in
  fun site ->
    match site with
    | STrial (ev, nth, f) -> Hashtbl.mem skipped (int_of_nat ev, int_of_nat nth, int_of_z f)
    | SFrame _ -> false
    | _ ->
      let i = !counter in
      incr counter;
      if i < String.length !answers then !answers.[i] = '1' else raise (Oracle_miss "clock")

(* oracle bookkeeping: compressor answers recorded by the implementation that the model never asked for *)
let deflate_used : (string * string, unit) Hashtbl.t = Hashtbl.create 64
let deflate_total = ref 0
let env_of_records (recs : string list list) (dlf : site -> bool) : env =
  let dt = Hashtbl.create 64 and it = Hashtbl.create 16 and bt = Hashtbl.create 16 in
  Hashtbl.reset deflate_used;
  List.iter (function
      | ["D"; d; x; y] -> Hashtbl.replace dt (d, x) y
      | ["I"; n; x; y] -> Hashtbl.replace it (n, x) y
      | ["B"; a; tok; types] -> Hashtbl.replace bt (a, tok) types
      | _ -> ()) recs;
  deflate_total := Hashtbl.length dt;
  { z_deflate = (fun d x ->
        let k = (fmt_deflater d, hex x) in
        Hashtbl.replace deflate_used k ();
        match Hashtbl.find_opt dt k with
        | Some "err" -> raise (Oracle_miss "deflate-err")
        | Some y -> unhex y
        | None -> raise (Oracle_miss ("deflate " ^ fst k ^ " " ^ (let h = snd k in if String.length h > 80 then String.sub h 0 80 else h))));
    z_inflate = (fun x n ->
        match Hashtbl.find_opt it (string_of_int (int_of_z n), hex x) with
        | Some r ->
          if String.length r >= 3 && String.sub r 0 3 = "ok:" then Ok (unhex (String.sub r 3 (String.length r - 3)))
          else (match r with
              | "err:invaliddata" -> Err EInvalidData
              | _ -> Err EOther)
        | None -> raise (Oracle_miss "inflate"));
    e_brute = (fun img alpha row cands ->
        match Hashtbl.find_opt bt ((if alpha then "1" else "0"), fmt_img img) with
        | Some types -> brute_of (List.init (String.length types) (fun i -> Char.code types.[i] - 48)) row cands
        | None -> raise (Oracle_miss "brute"));
    dl = dlf }

let run (t : string array) : string =
  match t.(0) with
  | "paeth_digest" ->
    let a = int_of_string t.(1) in
    let s = ref 0 in
    for b = 0 to 255 do for c = 0 to 255 do
        let p = int_of_z (paeth_predictor (zb a) (zb b) (zb c)) in
        s := !s + p * (((b * 256 + c) mod 251) + 1)
      done done;
    Printf.sprintf "ok %d" !s
  | "paeth" ->
    Printf.sprintf "ok %d" (int_of_z (paeth_predictor (zb (int_of_string t.(1))) (zb (int_of_string t.(2))) (zb (int_of_string t.(3)))))
  | "filter_line" ->
    res_str (fun (buf, d) -> hex buf ^ " " ^ hex d)
      (filter_line (filter_of (int_of_string t.(1))) (nat_of_int (int_of_string t.(2))) (unhex t.(4)) (unhex t.(5))
         (nat_of_int (int_of_string t.(3))))
  | "unfilter_line" ->
    res_str hex (unfilter_line (filter_of (int_of_string t.(1))) (nat_of_int (int_of_string t.(2))) (unhex t.(3)) (unhex t.(4)))
  | "filter_image" ->
    (* optional 4th arg: brute=<types as digits> *)
    let brute = if Array.length t > 4 then
        let s = String.sub t.(4) 6 (String.length t.(4) - 6) in
        brute_of (List.init (String.length s) (fun i -> Char.code s.[i] - 48))
      else brute_of [] in
    res_str hex (filter_image brute (parse_img t.(3)) (filter_of (int_of_string t.(1))) (t.(2) = "1"))
  | "unfilter_image" -> res_str hex (unfilter_image (parse_img t.(1)))
  | "scan_lines" ->
    let hf = t.(1) = "1" in
    let img = parse_img t.(2) in
    res_str (fun ls ->
        match ls with [] -> "-" | _ ->
          String.concat "," (List.map (fun l ->
              Printf.sprintf "%d:%s:%d" (List.length l.l_data + (if hf then 1 else 0))
                (match l.l_pass with None -> "-" | Some p -> string_of_int (int_of_z p))
                (int_of_z l.l_npix)) ls))
      (scan_lines img hf)
  | "reduce" ->
    let img = parse_img t.(2) in
    let flag = Array.length t > 3 && t.(3) = "1" in
    let flag2 = Array.length t > 4 && t.(4) = "1" in
    let opt = function Some i -> "some " ^ fmt_img i | None -> "none" in
    let ropt = function Ok o -> opt o | Err e -> "err " ^ err_kind e | Panic p -> "panic " ^ panic_kind p in
    (match t.(1) with
     | "16to8" -> opt (reduced_bit_depth_16_to_8 img flag)
     | "scale16" -> opt (scaled_bit_depth_16_to_8 img)
     | "8orless" -> ropt (reduced_bit_depth_8_or_less img)
     | "expand8" -> ropt (expanded_bit_depth_to_8 img)
     | "rgb2gray" -> opt (reduced_rgb_to_grayscale img)
     | "alpha" -> opt (reduced_alpha_channel img flag)
     | "cleanalpha" -> opt (cleaned_alpha_channel img)
     | "toindexed" -> opt (reduced_to_indexed img flag)
     | "tochannels" -> opt (indexed_to_channels img flag flag2)
     | "palette" -> opt (reduced_palette img flag)
     | "sortpal" -> ropt (sorted_palette img)
     | "battiato" -> ropt (sorted_palette_battiato img)
     | "mzeng" -> ropt (sorted_palette_mzeng img)
     | _ -> failwith "unknown reduction")
  | "scale8_all" ->
    let b = Buffer.create 131072 in
    for v = 0 to 65535 do Buffer.add_string b (Printf.sprintf "%02x" (int_of_z (scale_16_to_8 (z_of_int v)))) done;
    "ok " ^ Buffer.contents b
  | "raw_data_size" -> Printf.sprintf "ok %d" (int_of_z (raw_data_size (parse_img t.(1)).hdr))
  | "interlace" -> res_str fmt_img (interlace_image (parse_img t.(1)))
  | "deinterlace" -> res_str fmt_img (deinterlace_image (parse_img t.(1)))
  | "chil" ->
    (match change_interlacing (parse_img t.(2)) (t.(1) = "1") with
     | Ok (Some i) -> "ok " ^ fmt_img i
     | Ok None -> "none"
     | Err e -> "err " ^ err_kind e
     | Panic p -> "panic " ^ panic_kind p)
  (* spec_layout <w> <h> <bpp> <il> -> len:pass:npix,... (no filter byte) *)
  | "spec_layout" ->
    let ls = spec_layout (z_of_int (int_of_string t.(1))) (z_of_int (int_of_string t.(2))) (z_of_int (int_of_string t.(3))) (t.(4) = "1") in
    "ok " ^ (match ls with [] -> "-" | _ -> String.concat "," (List.map (fun ((p, n), b) ->
        Printf.sprintf "%d:%s:%d" (int_of_z b) (match p with None -> "-" | Some p -> string_of_int (int_of_z p)) (int_of_z n)) ls))
  | "spec_raw_size" ->
    Printf.sprintf "ok %d" (int_of_z (spec_raw_size (z_of_int (int_of_string t.(1))) (z_of_int (int_of_string t.(2))) (z_of_int (int_of_string t.(3))) (t.(4) = "1") (t.(5) = "1")))
  (* spec_pixels <w> <h> <bpp> <il> <data> -> rows of pixel values *)
  | "spec_pixels" ->
    (match spec_image_pixels (z_of_int (int_of_string t.(1))) (z_of_int (int_of_string t.(2))) (z_of_int (int_of_string t.(3))) (t.(4) = "1") (unhex t.(5)) with
     | None -> "none"
     | Some rows -> "ok " ^ String.concat ";" (List.map (fun r -> String.concat "," (List.map (fun px -> string_of_int (int_of_z (sval px))) r)) rows))
  | "opt_replay" ->
    let o = parse_opts t.(1) in
    let recs = split_records t 4 in
    let env = env_of_records recs (if t.(2) = "-" then (fun _ -> false) else dl_of_records recs) in
    (try
       let r = res_str hex (optimize_from_memory env o (unhex t.(3))) in
       (* compressions the implementation performed that the model never asked for (distinct inputs) *)
       let unused = !deflate_total - Hashtbl.length deflate_used in
       if unused > 0 && t.(2) = "-" then r ^ " #unused-deflate=" ^ string_of_int unused else r
     with Oracle_miss m -> "oracle-miss " ^ m)
  (* evalmodel <deflater-opts> <alpha> <final> <init|-> <filters> <order|-> <nimg> <img>... | records *)
  | "evalmodel" ->
    let o = parse_opts t.(1) in
    let alpha = t.(2) = "1" and fin = t.(3) = "1" in
    let init = if t.(4) = "-" then None else Some (z_of_int (int_of_string t.(4))) in
    let filters = List.map (fun x -> filter_of (int_of_string x)) (split_on '+' t.(5)) in
    let nimg = int_of_string t.(7) in
    let images = List.init nimg (fun i -> parse_img t.(8 + i)) in
    let recs = split_records t (8 + nimg) in
    let env = env_of_records recs (fun _ -> false) in
    (try
       match evaluator_trials env O filters o.deflate alpha fin images with
       | Ok outs ->
         let trials = List.map (fun x -> x.to_trial) outs in
         let name (tr : trial) = Printf.sprintf "%d.%d" (int_of_z tr.tNth) (int_of_z tr.tFilter) in
         let optname = function Some tr -> name tr | None -> "none" in
         let index_of nth f =
           let rec go i = function
             | [] -> failwith "unknown trial in order"
             | (tr : trial) :: r -> if int_of_z tr.tNth = nth && int_of_z tr.tFilter = f then i else go (i + 1) r in
           go 0 trials in
         let lts =
           if t.(6) = "-" then "-" else
             let evs = List.map (fun s ->
                 let publish = s.[0] = 'P' in
                 match split_on '.' (String.sub s 1 (String.length s - 1)) with
                 | [_; n; f] -> let i = nat_of_int (index_of (int_of_string n) (int_of_string f)) in
                   if publish then Publish i else Read i
                 | _ -> failwith "bad order") (split_on ',' t.(6)) in
             (match run trials (init_state trials init) evs with
              | Some st ->
                Printf.sprintf "%s complete=%b received=%s" (optname (min_by_key st.received)) (completeb st)
                  (String.concat "," (List.sort compare (List.map name st.received)))
              | None -> "stuck") in
         Printf.sprintf "ok lts=%s best=%s seq=%s sizes=%s" lts (optname (best_of init trials)) (optname (sequential init trials))
           (String.concat "," (List.map (fun (tr : trial) -> Printf.sprintf "%s:%d+%d" (name tr) (int_of_z tr.tL) (int_of_z tr.tK)) trials))
       | Err e -> "err " ^ err_kind e
       | Panic p -> "panic " ^ panic_kind p
     with Oracle_miss m -> "oracle-miss " ^ m)
  (* raw_replay <opts> <img> [name:hex|icc:hex]... | records *)
  | "raw_replay" ->
    let o = parse_opts t.(1) in
    let img = parse_img t.(2) in
    let rec extras i acc = if i >= Array.length t || t.(i) = "|" then (List.rev acc, i) else extras (i + 1) (t.(i) :: acc) in
    let (ex, stop) = extras 3 [] in
    let env = env_of_records (split_records t stop) (fun _ -> false) in
    (try
       match raw_image_new img.hdr.width img.hdr.height img.hdr.ctype img.hdr.depth img.data with
       | Err e -> "err " ^ err_kind e
       | Panic p -> "panic " ^ panic_kind p
       | Ok r ->
         let r = List.fold_left (fun r x ->
             match String.index_opt x ':' with
             | None -> failwith "bad extra"
             | Some i ->
               let n = String.sub x 0 i and d = String.sub x (i + 1) (String.length x - i - 1) in
               if n = "icc" then raw_add_icc env r (unhex d) else raw_add_chunk r (unhex n) (unhex d)) r ex in
         res_str hex (raw_create env r o)
     with Oracle_miss m -> "oracle-miss " ^ m)
  (* cli_options <flags>: o=N|max,f=a+b,timeout=N,a=1,scale16=1,fast=1,force=1,fix=1,nb=1,nc=1,np=1,ng=1,nx=1,nz=1,i=keep|0|1,
     keep=display+hex+..,strip=safe|all|hex+hex,s=1,Z=1,zi=N,zc=N *)
  | "cli_options" ->
    let kv = if t.(1) = "-" then [] else List.map (fun s -> match String.index_opt s '=' with
        | Some i -> (String.sub s 0 i, String.sub s (i + 1) (String.length s - i - 1)) | None -> (s, "1")) (split_on ',' t.(1)) in
    let get k = List.assoc_opt k kv in
    let flag k = get k = Some "1" in
    let zi n = z_of_int (int_of_string n) in
    let f = { fl_opt = (match get "o" with None -> None | Some "max" -> Some (z_of_int 7) | Some n -> Some (zi n));
              fl_filters = (match get "f" with None -> None | Some v -> Some (List.map zi (split_on '+' v)));
              fl_timeout = (match get "timeout" with None -> None | Some n -> Some (zi n));
              fl_alpha = flag "a"; fl_scale16 = flag "scale16"; fl_fast = flag "fast"; fl_force = flag "force"; fl_fix = flag "fix";
              fl_nb = flag "nb"; fl_nc = flag "nc"; fl_np = flag "np"; fl_ng = flag "ng"; fl_nx = flag "nx"; fl_nz = flag "nz";
              fl_interlace = (match get "i" with None -> None | Some "keep" -> Some None | Some "0" -> Some (Some false) | Some _ -> Some (Some true));
              fl_keep = (match get "keep" with None -> None | Some v ->
                  Some (List.map (fun x -> if x = "display" then KiDisplay else KiName (unhex x)) (split_on '+' v)));
              fl_strip = (match get "strip" with None -> None | Some "safe" -> Some SaSafe | Some "all" -> Some SaAll
                                                | Some v -> Some (SaList (List.map unhex (split_on '+' v))));
              fl_strip_safe = flag "s"; fl_zopfli = flag "Z";
              fl_zi = (match get "zi" with None -> z_of_int 15 | Some n -> zi n);
              fl_zc = (match get "zc" with None -> None | Some n -> Some (zi n)) } in
    res_str fmt_opts (cli_options f)
  | "exit_code" ->
    let rs = List.map (function "ok" -> RsOk | "failed" -> RsFailed | _ -> RsSkipped) (if t.(1) = "-" then [] else split_on ',' t.(1)) in
    Printf.sprintf "ok %d" (int_of_z (exit_code rs))
  (* io_plan <in: path|stdin|missing> <out: none|stdout|same|other> <preserve 0|1> <compute: err|improved|same> <fault: -|fN|kN> *)
  | "io_plan" ->
    let q = z_of_int 1 and d = z_of_int 2 in
    let fin = { f_content = [zb 1; zb 2; zb 3]; f_mode = z_of_int 384; f_mtime = z_of_int 1000; f_atime = z_of_int 900 } in
    let fs = if t.(1) = "missing" then [] else [(q, fin)] in
    let inp = if t.(1) = "stdin" then IStdin else IPath q in
    let pres = t.(3) = "1" in
    let outp = match t.(2) with "none" -> ONone | "stdout" -> OStdout | "same" -> OPath (None, pres) | _ -> OPath (Some d, pres) in
    let compute _ = match t.(4) with "err" -> CErr | "improved" -> COut ([zb 9], false) | _ -> COut ([zb 9; zb 9; zb 9; zb 9], true) in
    let flt = if t.(5) = "-" then NoFault else
        let n = nat_of_int (int_of_string (String.sub t.(5) 1 (String.length t.(5) - 1))) in
        if t.(5).[0] = 'f' then FailAt n else KillAt n in
    let r = optimize_io compute [zb 1; zb 2; zb 3] (z_of_int 2000) flt fs inp outp in
    let opn = function
      | OStat _ -> "stat" | OOpenRead _ -> "open" | ORead _ -> "read" | OReadStdin -> "readstdin" | OCompute -> "compute"
      | OWriteStdout -> "wstdout" | OFlushStdout -> "fstdout" | OCreate p -> if int_of_z p = 1 then "create-in" else "create-out"
      | OChmod _ -> "chmod" | OWrite _ -> "write" | OFlush _ -> "flush" | OClose _ -> "close" | OUtimes _ -> "utimes" in
    let (fs', so) = r.r_world in
    let fdesc p = match lookup fs' (z_of_int p) with None -> "absent" | Some f ->
      Printf.sprintf "%s:%d:%d" (hex f.f_content) (int_of_z f.f_mode) (int_of_z f.f_mtime) in
    Printf.sprintf "ok %s result=%s in=%s out=%s stdout=%s" (String.concat "," (List.map opn r.r_trace))
      (match r.r_result with Done_ok -> "ok" | Done_err -> "err" | Killed -> "killed") (fdesc 1) (fdesc 2) (hex so)
  (* sched_trace <filters> <images> <caller_is_worker 0|1> <events S,D,B<i>c|o,T<i>+|-,E<i>,X,Z> : the recorded protocol events as a run of the LTS *)
  | "sched_trace" ->
    let c = { n_filters = nat_of_int (int_of_string t.(1)); caller_is_worker = t.(3) = "1"; others = true } in
    let n = int_of_string t.(2) in
    let evs = if t.(4) = "-" then [] else String.split_on_char ',' t.(4) in
    let num s a b = nat_of_int (int_of_string (String.sub s a (String.length s - a - b))) in
    let rec go s k = function
      | [] -> Printf.sprintf "ok phase=%s recvd=%d steps=%d mu_left=%d"
                (match s.cph with CSubmit _ -> "submit" | CSpin -> "spin" | CRecv -> "recv" | CDone -> "done") (int_of_nat s.recvd) k (int_of_nat (mu c s))
      | e :: rest ->
        let moves = match e.[0] with
          | 'S' -> [ESubmit] | 'D' -> [EDropSender] | 'X' -> [ESpinExit]
          | 'B' -> [EStart (num e 1 1, e.[String.length e - 1] = 'c')]
          | 'T' -> [ETrial (num e 1 1, e.[String.length e - 1] = '+')]
          | 'E' -> [EFinish (num e 1 0)]
          | 'Z' -> List.init (int_of_nat s.queue) (fun _ -> ERecv) @ [ERecvEnd]
          | _ -> failwith "bad event" in
        let rec app s = function
          | [] -> Some s
          | m :: ms -> (match sstep c s m with Some s' -> app s' ms | None -> None) in
        (match app s moves with
         | Some s' -> go s' (k + List.length moves) rest
         | None -> Printf.sprintf "stuck at=%d event=%s phase=%s nth=%d executed=%d senders=%d queue=%d" k e
                     (match s.cph with CSubmit _ -> "submit" | CSpin -> "spin" | CRecv -> "recv" | CDone -> "done")
                     (int_of_nat s.s_nth) (int_of_nat s.s_executed) (int_of_nat s.senders) (int_of_nat s.queue)) in
    go (sinit (nat_of_int n)) 0 evs
  | "preset" -> "ok " ^ fmt_opts (from_preset (z_of_int (int_of_string t.(1))))
  | "default_opts" -> "ok " ^ fmt_opts default_options
  | "crc32" -> Printf.sprintf "ok %d" (int_of_z (crc32 (unhex t.(1))))
  | "keep" -> Printf.sprintf "ok %d" (Bool.to_int (strip_keep (parse_opts ("strip=" ^ t.(1))).strip (unhex t.(2))))
  | "is_c2pa" -> Printf.sprintf "ok %d" (Bool.to_int (is_c2pa (unhex t.(1)) (unhex t.(2))))
  | "fully_optimized" ->
    Printf.sprintf "ok %d" (Bool.to_int (is_fully_optimized (z_of_int (int_of_string t.(1))) (z_of_int (int_of_string t.(2))) (parse_opts t.(3))))
  | "srgb_intent" -> (match srgb_rendering_intent (unhex t.(1)) with Some i -> Printf.sprintf "ok %d" (int_of_z i) | None -> "none")
  (* the img token carries the inflated (still filtered) IDAT stream *)
  | "spec_decode_stream" ->
    let i = parse_img t.(1) in
    (match spec_decode_stream i.hdr.width i.hdr.height (spec_color_of i) i.hdr.depth i.hdr.interlaced i.data with
     | None -> "none"
     | Some p -> Printf.sprintf "ok %dx%d %s" (int_of_z p.pic_w) (int_of_z p.pic_h) (pic_hex p))
  (* spec_rel_stream <img-stream-1> <img-stream-2> [scaled] -> eq|alphaeq|diff|none1|none2 *)
  | "spec_rel_stream" ->
    let i1 = parse_img t.(1) and i2 = parse_img t.(2) in
    let dec (i : image) = spec_decode_stream i.hdr.width i.hdr.height (spec_color_of i) i.hdr.depth i.hdr.interlaced i.data in
    let p1 = if Array.length t > 3 && t.(3) = "scaled" && int_of_z i1.hdr.depth = 16 then
        (match spec_unfilter i1.hdr.width i1.hdr.height (z_of_int (16 * (match i1.hdr.ctype with Gray _ -> 1 | RGB _ -> 3 | GrayAlpha -> 2 | RGBA -> 4 | Indexed _ -> 1))) i1.hdr.interlaced i1.data with
         | Some d -> spec_sem_scaled i1.hdr.width i1.hdr.height (spec_color_of i1) i1.hdr.interlaced d
         | None -> None)
      else dec i1 in
    (match p1, dec i2 with
     | None, _ -> "none1"
     | _, None -> "none2"
     | Some p, Some q -> if picture_eqb p q then "eq" else if picture_alpha_equivb p q then "alphaeq" else "diff")
  (* spec_sem <img> -> 16 hex digits per pixel (rgba, 16 bit each), row-major; spec_rel <img1> <img2> -> eq|alphaeq|diff|none *)
  | "spec_sem" ->
    (match sem_of_img (parse_img t.(1)) with
     | None -> "none"
     | Some p -> Printf.sprintf "ok %dx%d %s" (int_of_z p.pic_w) (int_of_z p.pic_h) (pic_hex p))
  | "spec_rel" ->
    (match sem_of_img (parse_img t.(1)), sem_of_img (parse_img t.(2)) with
     | Some p, Some q -> if picture_eqb p q then "eq" else if picture_alpha_equivb p q then "alphaeq" else "diff"
     | _, _ -> "none")
  (* spec_scaled_rel <img16> <img8>: is sem(img8) = scaled (sem img16)? *)
  | "spec_scaled_rel" ->
    let i16 = parse_img t.(1) in
    (match spec_sem_scaled i16.hdr.width i16.hdr.height (spec_color_of i16) i16.hdr.interlaced i16.data, sem_of_img (parse_img t.(2)) with
     | Some p, Some q -> if picture_eqb p q then "eq" else "diff"
     | _, _ -> "none")
  (* spec-side commands (oracle) *)
  | "spec_recon_line" ->
    "ok " ^ hex (spec_recon_line (nat_of_int (int_of_string t.(1))) (zb (int_of_string t.(2))) (unhex t.(3)) (unhex t.(4)))
  | "spec_filter_line" ->
    "ok " ^ hex (spec_filter_line (nat_of_int (int_of_string t.(1))) (zb (int_of_string t.(2))) (unhex t.(3)) (unhex t.(4)))
  | "spec_paeth_digest" ->
    let a = int_of_string t.(1) in
    let s = ref 0 in
    for b = 0 to 255 do for c = 0 to 255 do
        let p = int_of_z (paeth_spec (zb a) (zb b) (zb c)) in
        s := !s + p * (((b * 256 + c) mod 251) + 1)
      done done;
    Printf.sprintf "ok %d" !s
  (* spec_recon_seq <bpp> <pass:rowhex,...> *)
  | "spec_recon_seq" ->
    let rows = List.map (fun s -> match split_on ':' s with
        | [p; h] -> ((if p = "-" then None else Some (z_of_int (int_of_string p))), unhex h)
        | _ -> failwith "bad row") (split_on ',' t.(2)) in
    (match spec_recon_seq (nat_of_int (int_of_string t.(1))) None rows with
     | Some ls -> "ok " ^ hex (List.concat ls)
     | None -> "none")
  | c -> failwith ("unknown command " ^ c)

let () =
  try
    while true do
      let line = input_line stdin in
      let toks = Array.of_list (List.filter (fun s -> s <> "") (split_on ' ' line)) in
      if Array.length toks >= 2 then begin
        let r = try run (Array.sub toks 1 (Array.length toks - 1))
          with Failure m -> "harness-error " ^ m | Stack_overflow -> "harness-error stack" in
        print_string toks.(0); print_char ' '; print_string r; print_char '\n'
      end
    done
  with End_of_file -> ()

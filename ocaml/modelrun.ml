(* modelrun: runs the OCaml extraction of the Gallina model / spec on the same line protocol as
   implrun: `<id> <fn> <args…>` per line on stdin, `<id> <result>` per line on stdout. *)
open Model

(* ------------------------------------------------------------ conversions *)
let rec pos_of_int n =
  if n = 1 then XH else if n land 1 = 0 then XO (pos_of_int (n lsr 1)) else XI (pos_of_int (n lsr 1))
let z_of_int n = if n = 0 then Z0 else if n > 0 then Zpos (pos_of_int n) else Zneg (pos_of_int (-n))
let rec int_of_pos = function XH -> 1 | XO p -> 2 * int_of_pos p | XI p -> 2 * int_of_pos p + 1
let int_of_z = function Z0 -> 0 | Zpos p -> int_of_pos p | Zneg p -> - (int_of_pos p)
let rec nat_of_int n = if n <= 0 then O else S (nat_of_int (n - 1))
let rec int_of_nat = function O -> 0 | S n -> 1 + int_of_nat n

(* small table so that bytes share their representation *)
let byte_tab = Array.init 256 z_of_int
let zb i = if i >= 0 && i < 256 then byte_tab.(i) else z_of_int i

let unhex s =
  if s = "-" then [] else
  let n = String.length s / 2 in
  List.init n (fun i -> zb (int_of_string ("0x" ^ String.sub s (2 * i) 2)))
let hex l =
  match l with [] -> "-" | _ ->
  let b = Buffer.create 64 in
  List.iter (fun z -> Buffer.add_string b (Printf.sprintf "%02x" (int_of_z z land 0xffffff))) l;
  Buffer.contents b

let split_on c s = String.split_on_char c s

let filter_of n = match filter_of_code (z_of_int n) with Some f -> f | None -> failwith "bad filter"

let parse_img tok : image =
  match split_on ':' tok with
  | ["img"; w; h; ct; d; il; extra; dat] ->
    let ct = int_of_string ct in
    let color = match ct with
      | 0 -> Gray (if extra = "-" then None else Some (z_of_int (int_of_string extra)))
      | 2 -> RGB (if extra = "-" then None else
                    match List.map (fun x -> z_of_int (int_of_string x)) (split_on ',' extra) with
                    | [r; g; b] -> Some ((r, g), b) | _ -> failwith "bad key")
      | 3 -> let b = unhex extra in
        let rec go = function r :: g :: bb :: a :: t -> (((r, g), bb), a) :: go t | _ -> [] in
        Indexed (go b)
      | 4 -> GrayAlpha
      | 6 -> RGBA
      | _ -> failwith "bad ct" in
    { hdr = { width = z_of_int (int_of_string w); height = z_of_int (int_of_string h); ctype = color;
              depth = z_of_int (int_of_string d); interlaced = (il = "1") };
      data = unhex dat }
  | _ -> failwith "bad img"

let fmt_img (img : image) =
  let ct, extra = match img.hdr.ctype with
    | Gray k -> 0, (match k with None -> "-" | Some t -> string_of_int (int_of_z t))
    | RGB k -> 2, (match k with None -> "-" | Some ((r, g), b) ->
        Printf.sprintf "%d,%d,%d" (int_of_z r) (int_of_z g) (int_of_z b))
    | Indexed p -> 3, hex (List.concat_map (fun (((r, g), b), a) -> [r; g; b; a]) p)
    | GrayAlpha -> 4, "-"
    | RGBA -> 6, "-" in
  Printf.sprintf "img:%d:%d:%d:%d:%d:%s:%s" (int_of_z img.hdr.width) (int_of_z img.hdr.height) ct
    (int_of_z img.hdr.depth) (if img.hdr.interlaced then 1 else 0) extra (hex img.data)

let err_kind = function
  | ENotPNG -> "notpng" | ETruncated -> "truncated" | EInvalidData -> "invaliddata"
  | EAPNGOutOfOrder -> "apngorder" | EChunkMissing -> "chunkmissing" | EInvalidDepthForType -> "depthtype"
  | EIncorrectDataLength -> "datalen" | EC2PA -> "c2pa" | EDeflatedTooLong -> "toolong" | EOther -> "other"

let panic_kind = function
  | PAssert -> "assert" | PIndex -> "index" | POverflow -> "overflow" | PUnwrap -> "unwrap"
  | PFuel -> "fuel" | PUnreachable -> "unreachable"

let res_str f = function
  | Ok a -> "ok " ^ f a
  | Err e -> "err " ^ err_kind e
  | Panic p -> "panic " ^ panic_kind p

(* brute oracle from a list of chosen filter types per row: picks the candidate whose first byte matches *)
let brute_of (types : int list) : brute_oracle =
  let arr = Array.of_list types in
  fun row cands ->
    let r = int_of_nat row in
    let want = if r < Array.length arr then arr.(r) else 0 in
    let rec find i = function
      | [] -> 0
      | (ft :: _) :: t -> if int_of_z ft = want then i else find (i + 1) t
      | [] :: t -> find (i + 1) t in
    nat_of_int (find 0 cands)

let run (t : string array) : string =
  match t.(0) with
  | "paeth_digest" ->
    let a = int_of_string t.(1) in
    let s = ref 0 in
    for b = 0 to 255 do for c = 0 to 255 do
        let p = int_of_z (paeth_predictor (zb a) (zb b) (zb c)) in
        s := !s + p * (((b * 256 + c) mod 251) + 1)
      done done;
    Printf.sprintf "ok %d" !s
  | "paeth" ->
    Printf.sprintf "ok %d" (int_of_z (paeth_predictor (zb (int_of_string t.(1))) (zb (int_of_string t.(2))) (zb (int_of_string t.(3)))))
  | "filter_line" ->
    res_str (fun (buf, d) -> hex buf ^ " " ^ hex d)
      (filter_line (filter_of (int_of_string t.(1))) (nat_of_int (int_of_string t.(2))) (unhex t.(4)) (unhex t.(5))
         (nat_of_int (int_of_string t.(3))))
  | "unfilter_line" ->
    res_str hex (unfilter_line (filter_of (int_of_string t.(1))) (nat_of_int (int_of_string t.(2))) (unhex t.(3)) (unhex t.(4)))
  | "filter_image" ->
    (* optional 4th arg: brute=<types as digits> *)
    let brute = if Array.length t > 4 then
        let s = String.sub t.(4) 6 (String.length t.(4) - 6) in
        brute_of (List.init (String.length s) (fun i -> Char.code s.[i] - 48))
      else brute_of [] in
    res_str hex (filter_image brute (parse_img t.(3)) (filter_of (int_of_string t.(1))) (t.(2) = "1"))
  | "unfilter_image" -> res_str hex (unfilter_image (parse_img t.(1)))
  | "scan_lines" ->
    let hf = t.(1) = "1" in
    let img = parse_img t.(2) in
    res_str (fun ls ->
        match ls with [] -> "-" | _ ->
          String.concat "," (List.map (fun l ->
              Printf.sprintf "%d:%s:%d" (List.length l.l_data + (if hf then 1 else 0))
                (match l.l_pass with None -> "-" | Some p -> string_of_int (int_of_z p))
                (int_of_z l.l_npix)) ls))
      (scan_lines img hf)
  | "raw_data_size" -> Printf.sprintf "ok %d" (int_of_z (raw_data_size (parse_img t.(1)).hdr))
  | "interlace" -> res_str fmt_img (interlace_image (parse_img t.(1)))
  | "deinterlace" -> res_str fmt_img (deinterlace_image (parse_img t.(1)))
  (* spec_layout <w> <h> <bpp> <il> -> len:pass:npix,... (no filter byte) *)
  | "spec_layout" ->
    let ls = spec_layout (z_of_int (int_of_string t.(1))) (z_of_int (int_of_string t.(2))) (z_of_int (int_of_string t.(3))) (t.(4) = "1") in
    "ok " ^ (match ls with [] -> "-" | _ -> String.concat "," (List.map (fun ((p, n), b) ->
        Printf.sprintf "%d:%s:%d" (int_of_z b) (match p with None -> "-" | Some p -> string_of_int (int_of_z p)) (int_of_z n)) ls))
  | "spec_raw_size" ->
    Printf.sprintf "ok %d" (int_of_z (spec_raw_size (z_of_int (int_of_string t.(1))) (z_of_int (int_of_string t.(2))) (z_of_int (int_of_string t.(3))) (t.(4) = "1") (t.(5) = "1")))
  (* spec_pixels <w> <h> <bpp> <il> <data> -> rows of pixel values *)
  | "spec_pixels" ->
    (match spec_image_pixels (z_of_int (int_of_string t.(1))) (z_of_int (int_of_string t.(2))) (z_of_int (int_of_string t.(3))) (t.(4) = "1") (unhex t.(5)) with
     | None -> "none"
     | Some rows -> "ok " ^ String.concat ";" (List.map (fun r -> String.concat "," (List.map (fun px -> string_of_int (int_of_z (sval px))) r)) rows))
  (* spec-side commands (oracle) *)
  | "spec_recon_line" ->
    "ok " ^ hex (spec_recon_line (nat_of_int (int_of_string t.(1))) (zb (int_of_string t.(2))) (unhex t.(3)) (unhex t.(4)))
  | "spec_filter_line" ->
    "ok " ^ hex (spec_filter_line (nat_of_int (int_of_string t.(1))) (zb (int_of_string t.(2))) (unhex t.(3)) (unhex t.(4)))
  | "spec_paeth_digest" ->
    let a = int_of_string t.(1) in
    let s = ref 0 in
    for b = 0 to 255 do for c = 0 to 255 do
        let p = int_of_z (paeth_spec (zb a) (zb b) (zb c)) in
        s := !s + p * (((b * 256 + c) mod 251) + 1)
      done done;
    Printf.sprintf "ok %d" !s
  (* spec_recon_seq <bpp> <pass:rowhex,...> *)
  | "spec_recon_seq" ->
    let rows = List.map (fun s -> match split_on ':' s with
        | [p; h] -> ((if p = "-" then None else Some (z_of_int (int_of_string p))), unhex h)
        | _ -> failwith "bad row") (split_on ',' t.(2)) in
    (match spec_recon_seq (nat_of_int (int_of_string t.(1))) None rows with
     | Some ls -> "ok " ^ hex (List.concat ls)
     | None -> "none")
  | c -> failwith ("unknown command " ^ c)

let () =
  try
    while true do
      let line = input_line stdin in
      let toks = Array.of_list (List.filter (fun s -> s <> "") (split_on ' ' line)) in
      if Array.length toks >= 2 then begin
        let r = try run (Array.sub toks 1 (Array.length toks - 1))
          with Failure m -> "harness-error " ^ m | Stack_overflow -> "harness-error stack" in
        print_string toks.(0); print_char ' '; print_string r; print_char '\n'
      end
    done
  with End_of_file -> ()

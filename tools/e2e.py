"""End-to-end machinery shared by C01/C02/C03/C04/C08/C13/C15…: PNG files from image tokens, option
vectors, `optimize_from_memory` on the implementation with oracle records, replay on the extracted
model, independent decode (strict Python container reader + Python zlib + extracted spec)."""
import os
import struct
import zlib

import imggen
import pnggen as pg
import vlib


# ------------------------------------------------------------------------------------- files
def png_from_token(rng, tok, pre=(), mid=(), post=(), simple=False):
    w, h, ct, depth, il, extra, data = pg.parse_img_token(tok)
    plte = trns = None
    if ct == 3:
        pal = extra or [(0, 0, 0, 255)]
        plte = b"".join(bytes(c[:3]) for c in pal)
        alphas = [c[3] for c in pal]
        last = max([i for i, a in enumerate(alphas) if a != 255], default=-1)
        if last >= 0:
            n = last + 1 if (simple or rng.random() < 0.6) else len(pal)
            trns = bytes(alphas[:n])
    elif ct == 0 and extra is not None:
        trns = struct.pack(">H", extra)
    elif ct == 2 and extra is not None:
        trns = struct.pack(">HHH", *extra)
    nrows = len(pg.row_layout(w, h, depth * pg.CHANNELS[ct], il))
    types = [0] if simple else [rng.randrange(5) for _ in range(nrows)]
    return pg.write_png(w, h, ct, depth, il, data, plte=plte, trns=trns, pre=pre, mid=mid, post=post,
                        filter_types=types,
                        idat_split=1 if simple else rng.choice([1, 1, 2, 3, 1, 2, -(8 * rng.choice([1, 2]) + rng.choice([1, 2, 4, 5, 7]))]),
                        level=rng.choice([1, 6, 9]))


UNUSED_IS_BREAK = True


class BadPng(Exception):
    pass


def stream_token(png):
    """Strict container parse + inflate: returns the img token whose data is the inflated, still
    filtered IDAT stream, plus the chunk list. Raises BadPng."""
    try:
        chunks = pg.read_chunks(png)
    except ValueError as e:
        raise BadPng("container: " + str(e))
    if not chunks or chunks[0][0] != b"IHDR" or len(chunks[0][1]) != 13:
        raise BadPng("IHDR not first")
    w, h, depth, ct, comp, flt, il = struct.unpack(">IIBBBBB", chunks[0][1])
    if comp != 0 or flt != 0 or il > 1 or (ct, depth) not in pg.LEGAL or w == 0 or h == 0:
        raise BadPng("illegal IHDR")
    plte = trns = None
    idat = []
    state = 0
    for n, d in chunks[1:]:
        if n == b"IDAT":
            if state == 2:
                raise BadPng("IDAT not consecutive")
            state = 1
            idat.append(d)
        else:
            if state == 1:
                state = 2
            if n == b"PLTE":
                if plte is not None or state != 0:
                    raise BadPng("PLTE misplaced")
                plte = d
            if n == b"tRNS":
                if trns is not None or state != 0:
                    raise BadPng("tRNS misplaced")
                if ct == 3 and plte is None:
                    raise BadPng("tRNS before PLTE")
                trns = d
    if not idat:
        raise BadPng("no IDAT")
    try:
        do = zlib.decompressobj()
        stream = do.decompress(b"".join(idat))
        if not do.eof or do.unused_data:
            raise BadPng("zlib stream incomplete or trailing data")
    except zlib.error as e:
        raise BadPng("zlib: " + str(e))
    extra = None
    if ct == 3:
        if plte is None or len(plte) % 3 or not (1 <= len(plte) // 3 <= 256) or len(plte) // 3 > (1 << depth):
            raise BadPng("bad PLTE")
        n = len(plte) // 3
        if trns is not None and len(trns) > n:
            raise BadPng("tRNS longer than palette")
        al = list(trns or b"") + [255] * n
        extra = [(plte[3 * i], plte[3 * i + 1], plte[3 * i + 2], al[i]) for i in range(n)]
    elif ct == 0 and trns is not None:
        if len(trns) != 2:
            raise BadPng("bad tRNS")
        extra = struct.unpack(">H", trns)[0]
        if extra >> depth:
            raise BadPng("tRNS sample exceeds bit depth")
    elif ct == 2 and trns is not None:
        if len(trns) != 6:
            raise BadPng("bad tRNS")
        extra = struct.unpack(">HHH", trns)
        if any(v >> depth for v in extra):
            raise BadPng("tRNS sample exceeds bit depth")
    elif trns is not None:
        raise BadPng("tRNS not allowed")
    expected = pg.raw_size(w, h, depth * pg.CHANNELS[ct], il == 1, True)
    if len(stream) != expected:
        raise BadPng(f"inflated size {len(stream)} != {expected}")
    return pg.img_token(w, h, ct, depth, il == 1, extra, stream), chunks


# ------------------------------------------------------------------------------------- options
def rand_opts(rng, mode="lossless", small=True):
    """returns the option token. mode: lossless | alpha | scale | any"""
    kv = {}
    if rng.random() < 0.7:
        kv["preset"] = rng.choice([0, 1, 2, 2, 3, 4, 5, 6])
    if rng.random() < 0.4:
        k = rng.choice([0, 1, 1, 2, 3, 5])
        fs = rng.sample(range(10), k)
        kv["filters"] = "+".join(map(str, fs))
    if rng.random() < 0.5:
        kv["interlace"] = rng.choice(["keep", "0", "1"])
    for sw in ("bd", "ct", "pal", "gray"):
        if rng.random() < 0.25:
            kv[sw] = "0"
    if rng.random() < 0.15:
        kv["recode"] = "0"
    if rng.random() < 0.3:
        kv["force"] = "1"
    if rng.random() < 0.35:
        kv["fast"] = rng.choice(["0", "1"])
    if rng.random() < 0.5:
        kv["zc"] = str(rng.choice([0, 1, 3, 5, 6, 7, 8, 9, 10, 11, 12]))
    elif rng.random() < 0.08:
        kv["zopfli"] = str(rng.choice([1, 2, 15]))
    if rng.random() < 0.3:
        kv["strip"] = rng.choice(["none", "safe", "all", "strip:" + b"tEXt".hex(), "keep:" + b"pHYs".hex()])
    if mode == "alpha" or (mode == "any" and rng.random() < 0.3):
        kv["alpha"] = "1"
    if mode == "scale" or (mode == "any" and rng.random() < 0.2):
        kv["scale16"] = "1"
    return ",".join(f"{k}={v}" for k, v in kv.items()) or "-"


def split_result(line):
    """'ok <hex> | D … | …' -> (result string, records string)"""
    if line is None:
        return "missing", ""
    i = line.find(" | ")
    if i < 0:
        return line, ""
    return line[:i], line[i + 1:]


def run_pairs(rep, cases, family):
    """cases: vlib.Cases of `optlog <opts> <exp> <hex>` lines. Runs impl, replays on the model,
    reports correspondence breaks. Returns {cid: (impl result string, records)}."""
    impl = os.path.join(rep.info["bin"], "implrun")
    model = os.path.join(vlib.BUILD, "ocaml", "modelrun")
    ri = vlib.run_cases(impl, cases.lines)
    out = {}
    mlines = []
    for line in cases.lines:
        cid, _, rest = line.partition(" ")
        res, recs = split_result(ri.get(cid))
        out[cid] = (res, recs)
        mlines.append(f"{cid} opt_replay{rest[len('optlog'):]} {recs}")
    rm = vlib.run_cases(model, mlines)
    rep.evaluations += len(cases.lines)
    for cid, m in cases.meta.items():
        a = vlib.canon(out[cid][0])
        mr = rm.get(cid)
        unused = 0
        if mr and " #unused-deflate=" in mr:
            mr, _, n = mr.partition(" #unused-deflate=")
            unused = int(n)
        b = vlib.canon(mr)
        if a != b:
            rep.corr_break(family, m["cmd"], out[cid][0], rm.get(cid))
        elif unused and UNUSED_IS_BREAK and a.startswith("ok "):
            # (only for successful calls: when the call fails, how far concurrent frame recompression got before the error is
            # schedule-dependent and irrelevant)
            # the implementation compressed streams (candidates x filters) that the model's pipeline never produces:
            # the set of transformations actually tried differs from the model's even though this output agrees
            rep.corr_break(family + ": work the model does not predict", m["cmd"],
                           f"{unused} compressor call(s) with inputs the model never compresses", "no such candidate / trial")
        if unused:
            rep.count("unused-deflate-records", unused)
    return out


def chunk_list(png):
    out, off = [], 8
    while off + 12 <= len(png):
        ln = int.from_bytes(png[off:off + 4], "big")
        out.append(png[off:off + 12 + ln])
        off += 12 + ln
    return out


def optimal_differing(rng, impl, opts="-", want=3, tries=60):
    """inputs that the optimiser cannot improve (the call returns them unchanged) although its own re-encoding of them is
    DIFFERENT bytes of the same or larger size: the cases in which 'return / write the original' is observable.
    Built from already-optimal chunk-rich files by moving ancillary chunks to places the encoder does not put them."""
    import chunkgen
    import vlib
    found = []
    forced = (opts + ",force=1") if opts != "-" else "force=1"
    for t in range(tries):
        if len(found) >= want:
            break
        base = chunkgen.gen_png(rng, special_before_plain=(t % 2 == 0))[0]
        r = vlib.run_cases(impl, [f"a opt {opts} {base.hex()}"]).get("a", "")
        if not r.startswith("ok "):
            continue
        x1 = bytes.fromhex(r[3:])
        ch = chunk_list(x1)
        names = [c[4:8] for c in ch]
        if b"IDAT" not in names:
            continue
        idat = names.index(b"IDAT")
        anc = [i for i in range(1, idat) if names[i] not in (b"PLTE",)]
        variants = [x1]
        for _ in range(4):
            if len(anc) >= 2:
                i, j = rng.sample(anc, 2)
                c2 = list(ch)
                c2[i], c2[j] = c2[j], c2[i]
                variants.append(x1[:8] + b"".join(c2))
            if anc:
                # a plain chunk moved behind the image data
                i = rng.choice(anc)
                if names[i] in (b"tEXt", b"zTXt", b"iTXt", b"tIME") or names[i][0:1].islower() and names[i] not in (b"tRNS", b"bKGD", b"hIST", b"sBIT", b"gAMA", b"cHRM", b"sRGB", b"iCCP", b"pHYs", b"sPLT", b"acTL", b"fcTL", b"cICP", b"mDCv", b"cLLi"):
                    c2 = list(ch)
                    c = c2.pop(i)
                    c2.insert(len(c2) - 1, c)
                    variants.append(x1[:8] + b"".join(c2))
        lines = []
        for k, v in enumerate(variants):
            lines.append(f"z{k} opt {opts} {v.hex()}")
            lines.append(f"y{k} opt {forced} {v.hex()}")
        rr = vlib.run_cases(impl, lines)
        for k, v in enumerate(variants):
            z, y = rr.get(f"z{k}", ""), rr.get(f"y{k}", "")
            if z == "ok " + v.hex() and y.startswith("ok ") and y != z and len(y) >= len(z):
                # the forced result may differ only because its image data was recompressed; what matters is a difference
                # that the unforced re-serialisation has too: the order of the chunks
                def order(b):
                    o = []
                    for c in chunk_list(b):
                        if not (o and o[-1] == c[4:8] == b"IDAT"):
                            o.append(c[4:8])
                    return o
                if order(bytes.fromhex(y[3:])) != order(v):
                    found.append(v)
                    break
    return found

"""C12 — files are touched only once the result is complete; I/O errors are reported.

Proof: Properties/C12.v (plan + executor model of `optimize`, all file systems / faults / routings).
Tie: the REAL executable built from /repo (no hooks) runs under strace; the file-relevant system calls
of its fault-free run, normalised to the model's operation alphabet, must equal the model's plan for
the same routing, and the final files must equal the model's final file system.
Oracle / fault exploration: strace fault injection makes each operation of the plan fail (error
return) and kills the process at EVERY system call before the first write-phase call; after each run
the directory is compared with its state before the run and the exit status is checked."""
import os
import re
import shutil
import stat
import subprocess
import tempfile

import e2e
import imggen
import vlib

SYSCALLS = "%file,read,write,close,fchmod,lseek,ftruncate"
LINE = re.compile(r"^(\w+)\((.*)\)\s+= (-?\d+|\?)(.*)$")


def snapshot(d):
    out = {}
    for root, dirs, files in os.walk(d):
        for nm in files:
            p = os.path.join(root, nm)
            st = os.stat(p)
            out[os.path.relpath(p, d)] = (open(p, "rb").read(), stat.S_IMODE(st.st_mode), st.st_mtime_ns)
        for nm in dirs:
            out[os.path.relpath(os.path.join(root, nm), d) + "/"] = None
    return out


def main_log(prefix):
    """-ff writes one file per thread: the process's main thread is the one that performed execve."""
    d = os.path.dirname(prefix)
    logs = [os.path.join(d, f) for f in os.listdir(d) if f.startswith(os.path.basename(prefix) + ".")]
    for f in logs:
        txt = open(f, errors="replace").read()
        if txt.startswith("execve("):
            return txt, logs
    return "\n".join(open(f, errors="replace").read() for f in logs), logs


def normalise(txt, inp, outp, stdin_path, stdout_path, merge=True, cwd=None):
    """system calls of the main thread -> operation alphabet of Model/Io.v (close, flush and the
    computation have no system call of their own; stat is reported separately)."""
    ops, fds, stats = [], {}, 0
    if stdin_path:
        fds[0] = "stdin"
    if stdout_path:
        fds[1] = "stdout"
    started = False

    def push(o):
        if not (merge and ops and ops[-1] == o and o in ("read", "write", "wstdout", "readstdin")):
            ops.append(o)
    for line in txt.splitlines():
        m = LINE.match(line)
        if not m:
            continue
        name, args, ret = m.group(1), m.group(2), m.group(3)
        if name == "execve":
            started = True
            continue
        okret = ret not in ("?",) and int(ret) >= 0
        pm = re.search(r'"((?:[^"\\]|\\.)*)"', args)
        path = os.path.normpath(os.path.join(cwd, pm.group(1)) if cwd else pm.group(1)) if pm else None
        which = "in" if path and inp and path == inp else ("out" if path and outp and path == outp else None)
        if inp and outp and inp == outp and which:
            which = "in"
        if name in ("statx", "newfstatat", "stat", "lstat") and which == "in" and 'AT_EMPTY_PATH' not in args:
            stats += 1
            ops.append("stat")
        elif name in ("openat", "open", "creat") and which:
            wr = ("O_WRONLY" in args or "O_RDWR" in args or name == "creat")
            if wr:
                kind = "create-" + which if ("O_CREAT" in args and "O_TRUNC" in args) or name == "creat" else "openw-" + which
            else:
                kind = "open" if which == "in" else "openr-out"
            ops.append(kind)
            if okret:
                fds[int(ret)] = which + ("w" if wr else "r")
        elif name in ("read", "pread64", "readv"):
            fd = int(args.split(",")[0])
            if fds.get(fd) in ("inr",):
                push("read")
            elif fd == 0:
                push("readstdin")
        elif name in ("write", "pwrite64", "writev"):
            fd = int(args.split(",")[0])
            if fds.get(fd) in ("inw", "outw"):
                push("write")
            elif fd == 1:
                push("wstdout")
        elif name == "close":
            fd = int(args.split(",")[0]) if args.strip().isdigit() else -1
            fds.pop(fd, None) if fd > 2 else None
        elif name == "fchmod":
            fd = int(args.split(",")[0])
            if fds.get(fd) in ("inw", "outw", "inr"):
                ops.append("chmod")
        elif name in ("chmod", "fchmodat") and which:
            ops.append("chmod")
        elif name in ("utimensat", "utimes", "utime", "futimesat") and which:
            ops.append("utimes")
        elif name in ("unlink", "unlinkat", "rename", "renameat", "renameat2", "truncate", "link", "linkat", "symlink", "symlinkat") and which:
            ops.append("other:" + name)
        elif name == "ftruncate":
            fd = int(args.split(",")[0])
            if fds.get(fd):
                ops.append("other:ftruncate")
    return ops


def model_ops(trace):
    return [o for o in trace.split(",") if o not in ("compute", "flush", "fstdout", "stat", "")]


class Scenario:
    def __init__(self, name, in_kind, route, preserve, cls, existing_dest=False):
        self.name, self.in_kind, self.route, self.preserve, self.cls, self.existing_dest = name, in_kind, route, preserve, cls, existing_dest

    def model_args(self):
        i = {"file": "path", "stdin": "stdin", "missing": "missing"}[self.in_kind]
        o = {"inplace": "same", "out": "other", "dir": "other", "dirsame": "same", "stdout": "stdout", "pretend": "none", "implicit": "same",
             "dirrel": "other", "outrel": "other", "pretendout": "none", "pretenddir": "none", "outcase": "other"}[self.route]
        return i, o, "1" if self.preserve and self.route in ("inplace", "out", "dir") else "0", {"improvable": "improved", "optimal": "same", "invalid": "err"}[self.cls]


SCENARIOS = [
    Scenario("inplace-improvable", "file", "inplace", False, "improvable"),
    Scenario("inplace-improvable-preserve", "file", "inplace", True, "improvable"),
    Scenario("inplace-optimal", "file", "inplace", True, "optimal"),
    Scenario("inplace-invalid", "file", "inplace", False, "invalid"),
    Scenario("out-improvable", "file", "out", False, "improvable"),
    Scenario("out-improvable-preserve", "file", "out", True, "improvable"),
    Scenario("out-existing-improvable", "file", "out", True, "improvable", existing_dest=True),
    Scenario("out-optimal-preserve", "file", "out", True, "optimal"),
    Scenario("out-invalid", "file", "out", True, "invalid"),
    Scenario("out-existing-invalid", "file", "out", False, "invalid", existing_dest=True),
    Scenario("dir-improvable", "file", "dir", False, "improvable"),
    Scenario("dir-invalid", "file", "dir", False, "invalid"),
    Scenario("stdout-improvable", "file", "stdout", False, "improvable"),
    Scenario("stdout-optimal", "file", "stdout", False, "optimal"),
    Scenario("stdout-invalid", "file", "stdout", False, "invalid"),
    Scenario("pretend-improvable", "file", "pretend", False, "improvable"),
    Scenario("pretend-invalid", "file", "pretend", False, "invalid"),
    Scenario("stdin-stdout-improvable", "stdin", "stdout", False, "improvable"),
    Scenario("stdin-out-improvable", "stdin", "out", False, "improvable"),
    Scenario("stdin-out-optimal", "stdin", "out", False, "optimal"),
    Scenario("stdin-stdout-optimal", "stdin", "stdout", False, "optimal"),
    Scenario("stdin-implicit-improvable", "stdin", "implicit", False, "improvable"),   # `oxipng -` : standard output is implied
    Scenario("stdin-implicit-optimal", "stdin", "implicit", False, "optimal"),
    Scenario("stdin-implicit-invalid", "stdin", "implicit", False, "invalid"),
    Scenario("stdin-out-invalid", "stdin", "out", False, "invalid"),
    Scenario("missing-out", "missing", "out", True, "improvable"),
    # --dir naming the directory the input already lives in, both given as relative paths: this IS an in-place run
    Scenario("dirsame-optimal", "file", "dirsame", False, "optimal"),
    Scenario("dirsame-improvable", "file", "dirsame", False, "improvable"),
    # the input named by its bare file name, the destination a DIFFERENT file whose path ends in that same name
    Scenario("dirrel-optimal", "file", "dirrel", False, "optimal"),
    Scenario("dirrel-improvable", "file", "dirrel", False, "improvable"),
    Scenario("outrel-optimal", "file", "outrel", False, "optimal"),
    Scenario("outrel-improvable", "file", "outrel", False, "improvable"),
    # --pretend wins over a named destination: nothing may be created there
    Scenario("pretendout-improvable", "file", "pretendout", False, "improvable"),
    Scenario("pretendout-optimal", "file", "pretendout", False, "optimal"),
    Scenario("pretenddir-improvable", "file", "pretenddir", False, "improvable"),
    # a destination whose name differs from the input's only in letter case is a DIFFERENT file here
    Scenario("outcase-optimal", "file", "outcase", False, "optimal"),
    Scenario("outcase-improvable", "file", "outcase", False, "improvable"),
]


class Sandbox:
    """a fresh directory holding the input (and possibly an existing destination) of one run"""

    def __init__(self, base, sc, data, idx):
        self.d = os.path.join(base, f"r{idx}")
        os.makedirs(self.d)
        self.sc = sc
        self.cwd = None
        self.inp = os.path.join(self.d, "in.png")
        if sc.route == "dirsame":
            os.makedirs(os.path.join(self.d, "imgs"))
            self.inp = os.path.join(self.d, "imgs", "in.png")
            self.cwd = self.d
        self.stdin_path = self.stdout_path = None
        if sc.in_kind == "file":
            open(self.inp, "wb").write(data)
            os.chmod(self.inp, 0o640)
            os.utime(self.inp, ns=(1_500_000_000_000_000_000, 1_400_000_000_000_000_000))
        elif sc.in_kind == "stdin":
            self.stdin_path = os.path.join(self.d, "stdin.bin")
            open(self.stdin_path, "wb").write(data)
            self.inp = None
        self.outp = None
        argv = []
        if sc.route == "inplace":
            self.outp = self.inp
        elif sc.route == "out":
            self.outp = os.path.join(self.d, "out.png")
            argv += ["--out", self.outp]
        elif sc.route == "dir":
            self.outp = os.path.join(self.d, "sub", "in.png")
            argv += ["--dir", os.path.join(self.d, "sub")]
        elif sc.route == "dirsame":
            self.outp = self.inp
            argv += ["--dir", "imgs"]
        elif sc.route == "dirrel":
            self.cwd = self.d
            self.outp = os.path.join(self.d, "sub", "in.png")
            argv += ["--dir", "sub"]
        elif sc.route == "outrel":
            self.cwd = self.d
            os.makedirs(os.path.join(self.d, "sub"))
            self.outp = os.path.join(self.d, "sub", "in.png")
            argv += ["--out", "sub/in.png"]
        elif sc.route in ("stdout", "implicit"):
            if sc.route == "stdout":
                argv += ["--stdout"]
            self.stdout_path = os.path.join(self.d, "stdout.bin")
        elif sc.route == "pretend":
            argv += ["--pretend"]
        elif sc.route == "pretendout":
            argv += ["--pretend", "--out", os.path.join(self.d, "out.png")] if idx % 2 else ["--out", os.path.join(self.d, "out.png"), "--pretend"]
        elif sc.route == "pretenddir":
            argv += ["--pretend", "--dir", os.path.join(self.d, "sub")]
        elif sc.route == "outcase":
            self.cwd = self.d
            self.outp = os.path.join(self.d, "IN.PNG")
            argv += ["--out", "IN.PNG"]
        if sc.preserve and sc.route in ("inplace", "out", "dir"):
            argv += ["--preserve"]
        if sc.existing_dest:
            open(self.outp, "wb").write(b"previous content of the destination, longer than any result " * 700)
            os.chmod(self.outp, 0o600)
        argv.append(("imgs/in.png" if sc.route == "dirsame" else "in.png" if sc.route in ("dirrel", "outrel", "outcase") else self.inp) if sc.in_kind != "stdin" else "-")
        self.argv = argv
        if self.stdout_path:
            open(self.stdout_path, "wb").close()
        self.before = snapshot(self.d)

    def run(self, cli, strace_args, idx=0, stdout_override=None):
        prefix = os.path.join(self.d, ".trace")
        cmd = ["strace", "-ff", "-o", prefix, "-e", "trace=" + SYSCALLS] + strace_args + [cli] + self.argv
        si = open(self.stdin_path, "rb") if self.stdin_path else subprocess.DEVNULL
        so = stdout_override if stdout_override is not None else (open(self.stdout_path, "r+b") if self.stdout_path else subprocess.PIPE)
        p = subprocess.run(cmd, stdin=si, stdout=so, stderr=subprocess.PIPE, timeout=120, cwd=self.cwd)
        txt, logs = main_log(prefix)
        for f in logs:
            os.unlink(f)
        if hasattr(si, "close"):
            si.close()
        if hasattr(so, "close"):
            so.close()
        return p.returncode, txt, p.stderr.decode(errors="replace")

    def after(self):
        return snapshot(self.d)


def changed(before, after, ignore=()):
    out = []
    for k in sorted(set(before) | set(after)):
        if k in ignore:
            continue
        if before.get(k) != after.get(k) or (k in before) != (k in after):
            out.append(k)
    return out


def run(rep):
    rng = rep.rng
    quick = rep.tier == "quick"
    cli = rep.info["cli"]
    impl = os.path.join(rep.info["bin"], "implrun")
    model = os.path.join(vlib.BUILD, "ocaml", "modelrun")
    rep.rule = ("routings {in place, --out, --out onto an existing file, --dir, --stdout, --pretend, stdin} x --preserve x input {improvable, already optimal, invalid, "
                "missing}; per scenario: fault-free trace vs the model's plan; an error return injected into each operation of the plan (stat, open, read, create, "
                "chmod, write, utimes, stdout write; /dev/full); SIGKILL at every traced system call of the run before the first write-phase call. "
                "Non-trivial = (scenario, fault) pair in which the process got as far as the faulted operation.")
    # inputs: an improvable PNG, its optimised form (already optimal), an invalid file
    tok, _ = imggen.gen(rng, 2, 8, 24, 17, False, "gray", "none")
    improvable = e2e.png_from_token(rng, tok)
    mo = vlib.run_cases(model, ["o cli_options -"])["o"]
    opts = mo[3:]
    r1 = vlib.run_cases(impl, [f"a opt {opts} {improvable.hex()}"])["a"]
    if not r1.startswith("ok "):
        rep.corr_break("library call for the expected bytes", "opt", r1, "ok")
        return
    optimal = bytes.fromhex(r1[3:])
    improved_out = optimal
    # prefer an input that cannot be improved although its re-encoding is DIFFERENT bytes (writing "the original" is then observable)
    od = e2e.optimal_differing(rng, impl, opts, want=1)
    if od:
        optimal = od[0]
        rep.count("optimal-input:re-encoding-differs")
    else:
        rep.notes.append("no optimal input with a differing re-encoding was found; the already-optimal class uses an idempotent file")
    r2 = vlib.run_cases(impl, [f"a opt {opts} {optimal.hex()}"])["a"]
    optimal_out = bytes.fromhex(r2[3:]) if r2.startswith("ok ") else b""
    if len(improved_out) >= len(improvable) or len(optimal_out) < len(optimal):
        rep.notes.append("input classes not as intended; regenerate")
    invalid = improvable[:40] + bytes([improvable[40] ^ 0x55]) + improvable[41:]   # CRC error in IDAT
    data_of = {"improvable": improvable, "optimal": optimal, "invalid": invalid}
    want_of = {"improvable": improved_out, "optimal": optimal, "invalid": None}
    base = tempfile.mkdtemp(prefix="oxiverif-c12-")
    idx = 0
    scen = SCENARIOS if not quick else SCENARIOS
    try:
        for sc in scen:
            data = data_of[sc.cls]
            mi, mo_, mp, mc = sc.model_args()
            mres = vlib.run_cases(model, [f"m io_plan {mi} {mo_} {mp} {mc} -"])["m"]
            mm = re.match(r"ok (\S*) result=(\w+) in=(\S+) out=(\S+) stdout=(\S+)", mres)
            if not mm:
                rep.corr_break("io_plan", sc.name, "-", mres)
                continue
            mtrace, mresult = mm.group(1).split(","), mm.group(2)
            # ---------------- fault-free run: trace and final state against the model
            idx += 1
            sb = Sandbox(base, sc, data, idx)
            rc, txt, se = sb.run(cli, [])
            ops = normalise(txt, sb.inp, sb.outp, sb.stdin_path, sb.stdout_path, cwd=sb.cwd)
            raw_ops = normalise(txt, sb.inp, sb.outp, sb.stdin_path, sb.stdout_path, merge=False, cwd=sb.cwd)
            n_wstdout, n_wfile = raw_ops.count("wstdout"), raw_ops.count("write")
            rep.evaluations += 1
            rep.count("scenario:" + sc.name)
            got_ops = [o for o in ops if o != "stat"]
            desc = {"scenario": sc.name, "argv": sb.argv, "input_hex": data.hex(), "cases": [f"io_plan {mi} {mo_} {mp} {mc} -"]}
            if got_ops != model_ops(",".join(mtrace)):
                # decide whether the difference breaks the property: a write-phase call before the read phase is complete, or on a failed computation
                first_w = next((i for i, o in enumerate(got_ops) if o.startswith(("create", "openw", "write", "wstdout", "chmod", "utimes", "other"))), None)
                last_r = max((i for i, o in enumerate(got_ops) if o in ("read", "readstdin", "open")), default=-1)
                if first_w is not None and (first_w < last_r or sc.cls == "invalid" or sc.route.startswith("pretend") or (sc.cls == "optimal" and sc.route in ("inplace", "dirsame"))):
                    rep.violation("C12:write-before-result:" + sc.name, f"{sc.name}: the process performs {got_ops}; a destination is opened/written although "
                                  f"the result is not (or never) complete; the model's plan is {model_ops(','.join(mtrace))}", {**desc, "impl_ops": got_ops})
                else:
                    rep.corr_break("strace trace vs model plan", f"io_plan {mi} {mo_} {mp} {mc} - [{sc.name}]", ",".join(got_ops), ",".join(model_ops(",".join(mtrace))))
            if "stat" in mtrace and ("stat" not in ops or ops.index("stat") > ops.index("open") if "open" in ops else False):
                rep.corr_break("metadata read before open", sc.name, ",".join(ops), ",".join(mtrace))
            if (rc == 0) != (mresult == "ok"):
                rep.violation("C12:exit-status:" + sc.name, f"{sc.name}: exit status {rc} but the model's outcome is {mresult} ({se.strip()[-200:]})", desc)
            aft = sb.after()
            want = want_of[sc.cls]
            # final state
            if mresult == "ok" and sc.route in ("out", "dir", "inplace", "dirsame", "dirrel", "outrel", "outcase"):
                rel = os.path.relpath(sb.outp, sb.d)
                exp = data if sc.cls == "optimal" else want
                if sc.cls == "optimal" and sc.route in ("inplace", "dirsame"):
                    if changed(sb.before, aft):
                        rep.violation("C12:touched-without-improvement", f"{sc.name}: nothing can be improved in place but {changed(sb.before, aft)} changed (content, mode or mtime)", desc)
                else:
                    g = aft.get(rel)
                    if g is None or g[0] != exp:
                        rep.violation("C12:destination-content:" + sc.name, f"{sc.name}: destination does not hold the expected bytes", desc)
                    elif sc.preserve and sc.in_kind == "file":
                        src = sb.before["in.png"]
                        if g[1] != src[1] or g[2] != src[2]:
                            rep.violation("C12:preserve", f"{sc.name}: --preserve did not copy mode/mtime ({oct(g[1])} vs {oct(src[1])}, {g[2]} vs {src[2]})", desc)
                    if sc.route not in ("inplace", "dirsame") and sc.in_kind == "file" and aft.get("in.png") != sb.before["in.png"]:
                        rep.violation("C12:input-touched", f"{sc.name}: the input file changed although another destination was named", desc)
            elif mresult == "ok" and sc.route in ("stdout", "implicit"):
                g = aft.get("stdout.bin")
                exp = data if sc.cls == "optimal" else want
                if g is None or g[0] != exp:
                    rep.violation("C12:stdout-content", f"{sc.name}: standard output does not carry the expected bytes", desc)
                if changed(sb.before, aft, ignore=("stdout.bin",)):
                    rep.violation("C12:stdout-touched-files", f"{sc.name}: files changed: {changed(sb.before, aft, ignore=('stdout.bin',))}", desc)
            else:
                ch = changed(sb.before, aft, ignore=("sub/",))
                if ch:
                    rep.violation("C12:touched-on-failure:" + sc.name, f"{sc.name}: the run {'fails' if mresult != 'ok' else 'only pretends'} but {ch} changed", desc)
            shutil.rmtree(sb.d, ignore_errors=True)

            # ---------------- injected error returns, one per operation of the plan
            inj = []
            if "stat" in mtrace:
                inj.append(("stat", lambda b: ["-P", b.inp, "-e", "inject=statx,newfstatat:error=EACCES"], "read"))
            if "open" in mtrace:
                inj.append(("open", lambda b: ["-P", b.inp, "-e", "inject=openat:error=EACCES:when=1"], "read"))
            if "read" in mtrace:
                inj.append(("read#1", lambda b: ["-P", b.inp, "-e", "inject=read:error=EIO:when=1"], "read"))
                inj.append(("read#2", lambda b: ["-P", b.inp, "-e", "inject=read:error=EIO:when=2"], "read"))
            if "readstdin" in mtrace:
                inj.append(("readstdin", lambda b: ["-P", b.stdin_path, "-e", "inject=read:error=EIO:when=1"], "read"))
            if any(o.startswith("create") for o in mtrace):
                when = "when=2" if sc.route in ("inplace", "dirsame") else "when=1"     # in place: the first openat of the path is the read
                inj.append(("create", lambda b, when=when: ["-P", b.outp, "-e", f"inject=openat:error=EACCES:{when}"], "create"))
                for kw in range(1, max(1, n_wfile) + 1):      # every write call of the fault-free run, the last one included
                    inj.append((f"write#{kw}", lambda b, kw=kw: ["-P", b.outp, "-e", f"inject=write:error=ENOSPC:when={kw}"], "write"))
            if "chmod" in mtrace:
                inj.append(("chmod", lambda b: ["-P", b.outp, "-e", "inject=fchmod:error=EPERM:when=1"], "write"))
            if "utimes" in mtrace:
                inj.append(("utimes", lambda b: ["-P", b.outp, "-e", "inject=utimensat:error=EPERM:when=1"], "write"))
            if "wstdout" in mtrace:
                for kw in range(1, max(1, n_wstdout) + 1):    # every write call on standard output, incl. one issued while exiting
                    inj.append((f"wstdout#{kw}", lambda b, kw=kw: ["-P", b.stdout_path, "-e", f"inject=write:error=ENOSPC:when={kw}"], "write"))
                inj.append(("devfull", None, "write"))
            for name, mk, phase in inj:
                idx += 1
                sb = Sandbox(base, sc, data, idx)
                sargs = mk(sb) if mk else None
                if sargs is None:
                    with open("/dev/full", "wb") as full:
                        rc, txt, se = sb.run(cli, [], stdout_override=full)
                else:
                    rc, txt, se = sb.run(cli, sargs)
                rep.evaluations += 1
                rep.count("fault:" + name)
                injected = "INJECTED" in txt or sargs is None
                if not injected:
                    rep.count("fault-not-reached:" + name)
                    shutil.rmtree(sb.d, ignore_errors=True)
                    continue
                rep.nontriv((sc.name, name))
                d2 = {**desc, "fault": name, "strace": sargs}
                if rc == 0:
                    rep.violation("C12:error-not-reported:" + name, f"{sc.name}: {name} failed ({'ENOSPC on /dev/full' if sargs is None else sargs[-1]}) but the exit status is 0", d2)
                aft = sb.after()
                if phase in ("read", "create"):
                    ch = changed(sb.before, aft, ignore=("sub/",))
                    if ch:
                        rep.violation("C12:touched-before-result:" + name, f"{sc.name}: {name} failed, yet {ch} changed", d2)
                elif sc.route not in ("inplace", "dirsame") and sc.in_kind == "file" and aft.get("in.png") != sb.before["in.png"]:
                    rep.violation("C12:input-touched", f"{sc.name}: the input changed after a failing {name} on another destination", d2)
                shutil.rmtree(sb.d, ignore_errors=True)

            # ---------------- SIGKILL at every system call before the write phase
            # number of traced calls of the main thread before the first write-phase call, from a fault-free log
            idx += 1
            sb = Sandbox(base, sc, data, idx)
            rc, txt, se = sb.run(cli, [])
            shutil.rmtree(sb.d, ignore_errors=True)
            lines = [ln for ln in txt.splitlines() if LINE.match(ln)]
            n_before = len(lines)
            for i, ln in enumerate(lines):
                m = LINE.match(ln)
                nm, args = m.group(1), m.group(2)
                if (nm == "openat" and ("O_WRONLY" in args or "O_RDWR" in args)) or (nm == "write" and args.startswith("1,")) or nm in ("fchmod", "utimensat", "unlink", "unlinkat", "rename", "renameat", "renameat2"):
                    n_before = i
                    break
            # strace counts invocations per system call name: (name, k) enumerates every call entry exactly once
            seen, ks = {}, []
            for ln in lines[1:n_before + 1]:
                nm = LINE.match(ln).group(1)
                seen[nm] = seen.get(nm, 0) + 1
                ks.append((nm, seen[nm], ln))
            if quick and len(ks) > 24:
                # every call from the opening of the input onwards, and a sample of the start-up calls
                first_in = next((i for i, (_, _, ln) in enumerate(ks) if "in.png" in ln or "stdin.bin" in ln), max(0, len(ks) - 12))
                first_in = min(first_in, max(0, len(ks) - 10))
                ks = ks[first_in:] + rng.sample(ks[:first_in], min(6, first_in))
            for nm, k, _ in ks:
                idx += 1
                sb = Sandbox(base, sc, data, idx)
                rc, txt, se = sb.run(cli, ["-e", f"inject={nm}:signal=KILL:when={k}"])
                rep.evaluations += 1
                rep.count("kill")
                died = rc in (-9, 137)
                if not died:
                    rep.count("kill-not-reached")
                else:
                    rep.nontriv((sc.name, "kill", nm, k))
                # had the process already entered its write phase in this run? (then the crash point is past the property's scope)
                ops2 = normalise(txt, sb.inp, sb.outp, sb.stdin_path, sb.stdout_path, cwd=sb.cwd)
                wrote = any(o.startswith(("create", "write", "wstdout", "chmod", "utimes")) for o in ops2)
                aft = sb.after()
                ch = changed(sb.before, aft, ignore=("sub/",))
                if died and ch and (not wrote or sc.cls == "invalid" or sc.route.startswith("pretend")):
                    rep.violation("C12:changed-by-crash:" + sc.name, f"{sc.name}: killed at the {k}-th {nm} call (before any write-phase call) and {ch} differ from before the run",
                                  {**desc, "kill_at": [nm, k]})
                shutil.rmtree(sb.d, ignore_errors=True)
        # ---------------- short writes: a large result (several write calls / a write larger than std's buffer) under a file-size
        #                  limit. Whatever happens, exit status 0 must mean that the destination holds the complete result.
        import resource
        tokb, _ = imggen.gen(rng, 2, 8, 200, 160, False, "fewcolors", "none", 16)
        big = e2e.png_from_token(rng, tokb, simple=True)
        rb = vlib.run_cases(impl, [f"a opt {opts} {big.hex()}"])["a"]
        if rb.startswith("ok ") and len(rb) // 2 > 8300 and len(rb) // 2 - 1 < len(big):
            big_out = bytes.fromhex(rb[3:])
            for route in ("out", "inplace", "stdout"):
                sc = Scenario(f"{route}-improvable-big", "file", route, False, "improvable")
                for lim in sorted({1, 4096, 8192, 8193, len(big_out) // 2, len(big_out) - 1}):
                    idx += 1
                    sb = Sandbox(base, sc, big, idx)

                    def limit(lim=lim):
                        resource.setrlimit(resource.RLIMIT_FSIZE, (lim, lim))
                    so = open(sb.stdout_path, "r+b") if sb.stdout_path else subprocess.PIPE
                    p = subprocess.run([cli] + sb.argv, stdin=subprocess.DEVNULL, stdout=so, stderr=subprocess.PIPE, timeout=120, preexec_fn=limit)
                    if hasattr(so, "close"):
                        so.close()
                    rep.evaluations += 1
                    rep.count("fault:file-size-limit")
                    rep.nontriv((sc.name, "fsize", lim))
                    dest = sb.stdout_path if sb.stdout_path else sb.outp
                    got = open(dest, "rb").read() if os.path.exists(dest) else None
                    if p.returncode == 0 and got != big_out:
                        rep.violation("C12:error-not-reported:short-write", f"{sc.name}: with a file-size limit of {lim} bytes the destination holds "
                                      f"{None if got is None else len(got)} of {len(big_out)} bytes but the exit status is 0",
                                      {"scenario": sc.name, "argv": sb.argv, "input_hex": big.hex(), "rlimit_fsize": lim, "cases": []})
                    shutil.rmtree(sb.d, ignore_errors=True)
        else:
            rep.notes.append("no large improvable input for the short-write exploration")
    finally:
        shutil.rmtree(base, ignore_errors=True)
    rep.sample({"scenario": SCENARIOS[0].name, "model": "io_plan path same 0 improved -"})
    rep.extra["trusted_base"] = [
        "strace's report of the system calls and its fault injection; Linux semantics of the calls (a failed call has no effect; a created file is empty until written)",
        "the standard library's BufWriter/File (write_all = write calls; close errors are discarded and therefore not modelled as reportable)",
        "a crash DURING the write phase is outside the property and the model (the destination may be truncated)",
    ]


def replay(payload, info):
    print({k: vlib.short(v, 400) for k, v in payload.items()})
    return 0

"""C04 — never larger: the result is strictly smaller than the input or is the input.

Proof: Properties/C04.v (on the whole pipeline model, for every oracle environment).
Tie: is_fully_optimized on a full small grid; optimize_from_memory replayed on the model.
Oracle: byte comparison (len(out) < len(in) or out == in), chains of repeated runs to a fixed point."""
import os

import e2e
import imggen
import pnggen as pg
import vlib
from props import c01


def apng_bytes(rng, w=4, h=4):
    """a small well-formed APNG (gray 8) with two extra frames"""
    import struct
    import zlib as z
    def fr(w_, h_):
        raw = b"".join(b"\0" + bytes(rng.randrange(256) for _ in range(w_)) for _ in range(h_))
        return z.compress(raw, 1)
    out = bytearray(pg.SIG)
    out += pg.chunk("IHDR", pg.ihdr_bytes(w, h, 8, 0, False))
    out += pg.chunk("acTL", struct.pack(">II", 3, 0))
    out += pg.chunk("fcTL", struct.pack(">IIIIIHHBB", 0, w, h, 0, 0, 1, 10, 0, 0))
    out += pg.chunk("IDAT", fr(w, h))
    seq = 1
    for _ in range(2):
        out += pg.chunk("fcTL", struct.pack(">IIIIIHHBB", seq, w, h, 0, 0, 1, 10, 0, 0))
        out += pg.chunk("fdAT", struct.pack(">I", seq + 1) + fr(w, h))
        seq += 2
    out += pg.chunk("IEND", b"")
    return bytes(out)


def run(rep):
    rng = rep.rng
    quick = rep.tier == "quick"
    impl = os.path.join(rep.info["bin"], "implrun")
    model = os.path.join(vlib.BUILD, "ocaml", "modelrun")
    rep.rule = ("(a) is_fully_optimized on the full grid sizes 0..12 x 0..12 x force; (b) structured PNGs x random options with force off "
                "(incl. already-optimal files = outputs of a previous run, tiny 1x1 files, multi-IDAT files, APNGs), replayed on the model; "
                "(c) repeated runs with the same options until a byte-level fixed point; (d) the REAL executable on inputs that cannot be improved although "
                "their re-encoding differs, through every routing (in place, --out, --dir, --stdout, stdin with implied / explicit stdout / --out). Non-trivial = output differs from input, or the "
                "input was already optimal (equal-size decision taken).")
    # (a)
    cs = vlib.Cases()
    for a in range(13):
        for b in range(13):
            for f in (0, 1):
                cs.add(f"fully_optimized {a} {b} force={f}")
    ri = vlib.run_cases(impl, cs.lines)
    rm = vlib.run_cases(model, cs.lines)
    rep.evaluations += len(cs.lines)
    for cid, cmd, x, y in vlib.diff_results(cs, ri, rm):
        rep.corr_break("is_fully_optimized", cmd, x, y)
    for cid, m in cs.meta.items():
        _, a, b, f = m["cmd"].split(" ")
        want = "ok 1" if (int(a) <= int(b) and f == "force=0") else "ok 0"
        if ri.get(cid) != want:
            rep.violation("C04:decision", f"is_fully_optimized({a},{b},{f}) = {ri.get(cid)}", {"cases": [m["cmd"]], "expected": want})
    # (b)
    cs = vlib.Cases()
    n = 300 if quick else 8000
    for k in range(n):
        kind = k % 6
        o = e2e.rand_opts(rng, "any").replace("force=1", "force=0")
        if kind == 0:
            tok, _ = imggen.gen(rng, *rng.choice(pg.LEGAL), 1, 1, False, "random")
            png = e2e.png_from_token(rng, tok)
        elif kind == 1:
            png = apng_bytes(rng)
        else:
            ct, depth = pg.LEGAL[k % 15]
            w, h = imggen.pick_dims(rng)
            tok, _ = imggen.gen(rng, ct, depth, w, h, rng.random() < 0.3, rng.choice(imggen.CLASSES), rng.choice(imggen.KEY_MODES))
            png = e2e.png_from_token(rng, tok)
        cs.add(f"optlog {o} - {png.hex()}", png=png, opts=o, kind=kind)
    out = e2e.run_pairs(rep, cs, "optimize_from_memory (force off)")

    def judge(m, res, sig):
        if not res.startswith("ok "):
            return None
        ob = bytes.fromhex(res[3:])
        if ob != m["png"] and len(ob) >= len(m["png"]):
            rep.violation(sig, f"output ({len(ob)} bytes) is neither smaller than nor identical to the input ({len(m['png'])} bytes); options {m['opts']}",
                          {"cases": [m["cmd"]], "in_len": len(m["png"]), "out_len": len(ob)})
        return ob
    second = vlib.Cases()
    for cid, m in cs.meta.items():
        ob = judge(m, out[cid][0], "C04:larger")
        rep.count("first:" + out[cid][0].split(" ")[0])
        if ob is not None:
            if ob != m["png"]:
                rep.nontriv(m["cmd"])
            # (c) run again with the same options: already-optimal inputs
            second.add(f"optlog {m['opts']} - {ob.hex()}", png=ob, opts=m["opts"], orig_len=len(m["png"]))
    cur = second
    for rnd in range(4 if quick else 8):
        if not cur.lines:
            break
        o2 = e2e.run_pairs(rep, cur, f"optimize_from_memory (repeat {rnd + 1})")
        nxt = vlib.Cases()
        for cid, m in cur.meta.items():
            ob = judge(m, o2[cid][0], "C04:larger-on-rerun")
            if ob is None:
                continue
            if ob == m["png"]:
                rep.count("fixed-point-after:%d" % (rnd + 1))
                rep.nontriv(("fixed", m["cmd"]))
            else:
                nxt.add(f"optlog {m['opts']} - {ob.hex()}", png=ob, opts=m["opts"])
        cur = nxt
    if cur.lines and not quick:
        rep.notes.append(f"{len(cur.lines)} chains were still shrinking after 8 repeats (allowed: each step strictly shrinks)")
    rep.sample("optlog %s - <%d bytes>" % (cs.meta["c0"]["opts"], len(cs.meta["c0"]["png"])))
    # (d) the routing half through the REAL executable: inputs that cannot be improved although their re-encoding differs
    import subprocess
    import tempfile
    import shutil
    cli = rep.info.get("cli")
    mo = vlib.run_cases(model, ["o cli_options -"])["o"]
    ods = e2e.optimal_differing(rng, impl, mo[3:], want=2 if quick else 6) if cli and mo.startswith("ok ") else []
    rep.count("optimal-inputs-with-differing-re-encoding", len(ods))
    tmp = tempfile.mkdtemp(prefix="oxiverif-c04-")
    try:
        # extra flags that do not ask for forced output: none of them may make the executable deliver anything but a strictly
        # smaller file or the original bytes; --preserve onto an existing, longer destination must not leave a tail behind
        flagsets = [[], ["--preserve"], ["--fix"], ["--fast"], ["--nz"], ["--preserve", "--fix"]]
        for k, x in enumerate(ods):
          for fi, extra_flags in enumerate(flagsets if not quick else flagsets[: 3 + (k % 2) * 3]):
            for route in ("inplace", "out", "dir", "stdout", "stdin-implicit", "stdin-stdout", "stdin-out", "out-existing"):
                if fi and route.startswith("stdin"):
                    continue
                d = os.path.join(tmp, f"{k}-{fi}-{route}")
                os.makedirs(d)
                f = os.path.join(d, "in.png")
                open(f, "wb").write(x)
                os.utime(f, ns=(1_400_000_000_000_000_000, 1_400_000_000_000_000_000))
                o2 = os.path.join(d, "out.png")
                if route == "out-existing":
                    open(o2, "wb").write(b"an older, much longer file at the destination " * 900)
                argv = {"inplace": [f], "out": ["--out", o2, f], "dir": ["--dir", os.path.join(d, "sub"), f], "stdout": ["--stdout", f],
                        "stdin-implicit": ["-"], "stdin-stdout": ["--stdout", "-"], "stdin-out": ["--out", o2, "-"], "out-existing": ["--out", o2, f]}[route]
                argv = extra_flags + argv
                p = subprocess.run([cli] + argv, input=x if route.startswith("stdin") else None, stdout=subprocess.PIPE, stderr=subprocess.PIPE, timeout=300)
                rep.evaluations += 1
                rep.count("route:" + route)
                rep.nontriv(("route", k, route))
                got = {"inplace": lambda: open(f, "rb").read(), "out": lambda: open(o2, "rb").read() if os.path.exists(o2) else None,
                       "dir": lambda: open(os.path.join(d, "sub", "in.png"), "rb").read() if os.path.exists(os.path.join(d, "sub", "in.png")) else None,
                       "stdout": lambda: p.stdout, "stdin-implicit": lambda: p.stdout, "stdin-stdout": lambda: p.stdout,
                       "stdin-out": lambda: open(o2, "rb").read() if os.path.exists(o2) else None,
                       "out-existing": lambda: open(o2, "rb").read() if os.path.exists(o2) else None}[route]()
                desc = {"cases": [f"cli {' '.join(argv)}"], "input_hex": x.hex(), "route": route}
                smaller_png = got is not None and len(got) < len(x) and got[:8] == pg.SIG and got[-12:-8] == b"\0\0\0\0" and got[-8:-4] == b"IEND"
                if p.returncode != 0 or (got != x and not (extra_flags and smaller_png)):
                    rep.violation("C04:route:" + route, f"{route}: the input cannot be improved, yet the executable delivered "
                                  f"{'nothing' if got is None else str(len(got)) + ' bytes that are not the original'} (exit {p.returncode}, input {len(x)} bytes, flags {extra_flags})", desc)
                if route == "inplace" and got == x and os.stat(f).st_mtime_ns != 1_400_000_000_000_000_000:
                    rep.violation("C04:route:inplace-touched", "in place without improvement: the file was rewritten (modification time changed)", desc)
    finally:
        shutil.rmtree(tmp, ignore_errors=True)


replay = c01.replay

"""C19 — every row-filter strategy round-trips every byte pattern.

Proof: Properties/C19.v (model filter = spec filter, spec recon ∘ spec filter = id, model unfilter =
spec recon, image-level round trip for the ten strategies).
Tie: exhaustive Paeth (2^24), filter_line / unfilter_line / filter_image / unfilter_image of the real
code vs the extracted model; oracle: extracted *spec* reconstruction of everything oxipng wrote."""
import os

import pnggen as pg
import vlib


def rand_bytes(rng, n, style):
    if style == 0:
        return bytes(rng.randrange(256) for _ in range(n))
    if style == 1:      # small deltas, wraps around 0/255
        v = rng.randrange(256)
        out = bytearray()
        for _ in range(n):
            v = (v + rng.choice([-2, -1, 0, 0, 1, 2, 127, 128, 129])) & 255
            out.append(v)
        return bytes(out)
    if style == 2:      # extremes
        return bytes(rng.choice([0, 1, 2, 127, 128, 129, 254, 255]) for _ in range(n))
    return bytes(n)     # zeros


def run(rep):
    rng = rep.rng
    impl = os.path.join(rep.info["bin"], "implrun")
    model = os.path.join(vlib.BUILD, "ocaml", "modelrun")
    quick = rep.tier == "quick"
    rep.rule = ("(a) all 2^24 Paeth triples as 256 weighted digests; (b) random/structured scan lines x 5 filter "
                "types x bpp in {1,2,3,4,6,8} through filter_line and unfilter_line; (c) images of all 15 colour/depth "
                "pairs x interlaced/not x 10 strategies through filter_image, decoded by the extracted spec; "
                "(d) spec-filtered streams with arbitrary per-row filter types decoded by unfilter_image. "
                "Non-trivial = distinct case whose filtered output differs from its input bytes (a predictor was used).")

    # ---------------- (a) exhaustive Paeth
    cs = vlib.Cases()
    for a in range(256):
        cs.add(f"paeth_digest {a}", fam="paeth")
    sp = vlib.Cases()
    for a in range(256):
        sp.add(f"spec_paeth_digest {a}", fam="paeth-spec")
    ri = vlib.run_cases(impl, cs.lines)
    rm = vlib.run_cases(model, cs.lines)
    rs = vlib.run_cases(model, sp.lines)
    rep.evaluations += 256
    for cid, cmd, a, b in vlib.diff_results(cs, ri, rm):
        rep.corr_break("paeth_predictor (2^24 exhaustive)", cmd, a, b)
    for cid in cs.meta:
        if vlib.canon(ri.get(cid)) != vlib.canon(rs.get(cid)):
            a_ = int(cs.meta[cid]["cmd"].split()[1])
            # find the concrete triple
            trip = vlib.Cases()
            for b_ in range(256):
                for c_ in range(0, 256):
                    trip.add(f"paeth {a_} {b_} {c_}")
            r1 = vlib.run_cases(impl, trip.lines)
            r2 = vlib.run_cases(model, [l.replace(" paeth ", " paeth ") for l in trip.lines])
            for k, m in trip.meta.items():
                if r1.get(k) != r2.get(k):
                    rep.violation("C19:paeth-differs-from-spec", f"paeth_predictor{tuple(m['cmd'].split()[1:])} = {r1.get(k)} but the specification gives {r2.get(k)}",
                                  {"cases": [m["cmd"]], "impl": r1.get(k), "spec": r2.get(k)})
                    break
        else:
            rep.nontriv(("paeth", cid))
    rep.exhaustive = True
    rep.count("paeth_triples", 1 << 24)
    rep.sample("paeth_digest 7 -> " + str(ri.get("c7")))

    # ---------------- (b) line level
    cs = vlib.Cases()
    nline = 60 if quick else 600
    for bpp in (1, 2, 3, 4, 6, 8):
        for ft in range(5):
            for k in range(nline):
                n = bpp * rng.choice([1, 1, 2, 3, 5, 8, 17])
                style = rng.randrange(4)
                data = rand_bytes(rng, n, style)
                prev = rand_bytes(rng, n, rng.randrange(4))
                cs.add(f"filter_line {ft} {bpp} 0 {pg.hx(data)} {pg.hx(prev)}", fam="filter_line", bpp=bpp, ft=ft,
                       data=data, prev=prev)
    # assertion paths: too-short line, length mismatch
    cs.add("filter_line 1 4 0 0102 0102", fam="filter_line-short", bpp=4, ft=1, data=b"\1\2", prev=b"\1\2")
    cs.add("filter_line 2 1 0 010203 0102", fam="filter_line-mismatch", bpp=1, ft=2, data=b"\1\2\3", prev=b"\1\2")
    ri = vlib.run_cases(impl, cs.lines)
    rm = vlib.run_cases(model, cs.lines)
    rep.evaluations += len(cs.lines)
    for cid, cmd, a, b in vlib.diff_results(cs, ri, rm):
        rep.corr_break("filter_line", cmd, a, b)
    # oracle + unfilter_line on what oxipng wrote
    un = vlib.Cases()
    oracle = vlib.Cases()
    for cid, m in cs.meta.items():
        r = ri.get(cid, "")
        rep.count("filter_line:" + r.split(" ")[0])
        if not r.startswith("ok "):
            continue
        buf = pg.unhx(r.split()[1])
        if buf[1:] != m["data"]:
            rep.nontriv(m["cmd"])
        if buf[0] > 4:
            rep.violation("C19:illegal-filter-type", f"filter_line wrote filter type {buf[0]}", {"cases": [m["cmd"]], "impl": r})
        oracle.add(f"spec_recon_line {m['bpp']} {buf[0]} {pg.hx(buf[1:])} {pg.hx(m['prev'])}", src=cid)
        un.add(f"unfilter_line {buf[0]} {m['bpp']} {pg.hx(buf[1:])} {pg.hx(m['prev'])}", src=cid)
    ro = vlib.run_cases(model, oracle.lines)
    rui = vlib.run_cases(impl, un.lines)
    rum = vlib.run_cases(model, un.lines)
    rep.evaluations += len(un.lines)
    for cid, cmd, a, b in vlib.diff_results(un, rui, rum):
        rep.corr_break("unfilter_line", cmd, a, b)
    for oid, m in oracle.meta.items():
        src = cs.meta[m["src"]]
        want = "ok " + pg.hx(src["data"])
        if ro.get(oid) != want:
            rep.violation("C19:line-roundtrip", "a row written by filter_line does not reconstruct to the input under the specification",
                          {"cases": [src["cmd"]], "impl": ri.get(m["src"]), "spec_decode": ro.get(oid), "expected": want})
    for uid, m in un.meta.items():
        src = cs.meta[m["src"]]
        want = "ok " + pg.hx(src["data"])
        if rui.get(uid) != want:
            rep.violation("C19:unfilter-line", "unfilter_line does not invert filter_line",
                          {"cases": [m["cmd"]], "impl": rui.get(uid), "expected": want})
    rep.sample(cs.lines[0] + " -> " + str(ri.get("c0")))

    # ---------------- (c) image level: filter_image for the 10 strategies
    dims = [(1, 1), (2, 3), (3, 2), (5, 5), (8, 8), (9, 7), (4, 17), (17, 4), (16, 16), (33, 9)]
    if not quick:
        dims += [(w, h) for w in (1, 2, 3, 4, 5, 7, 8, 9, 15, 16, 17, 31, 32, 33) for h in (1, 2, 3, 4, 5, 8, 9)]
    cs = vlib.Cases()
    for (ct, depth) in pg.LEGAL:
        bpp = depth * pg.CHANNELS[ct]
        for il in (False, True):
            sub = dims if not quick else rng.sample(dims, 4)
            for (w, h) in sub:
                n = pg.raw_size(w, h, bpp, il)
                data = rand_bytes(rng, n, rng.randrange(4))
                if rng.random() < 0.3:   # some all-zero rows to hit the heuristics' shortcut
                    rows = pg.split_rows(data, w, h, bpp, il)
                    data = b"".join(bytes(len(r)) if rng.random() < 0.4 else r for _, r in rows)
                pal = [(i, i, i, 255) for i in range(1 << min(depth, 8))] if ct == 3 else None
                tok = pg.img_token(w, h, ct, depth, il, pal, data)
                for f in range(10):
                    cs.add(f"filter_image {f} 0 {tok}", fam="filter_image", f=f, w=w, h=h, ct=ct, depth=depth, il=il,
                           data=data, bpp=bpp, tok=tok)
    # very long scan lines (the Brute strategy compresses a window of several lines into a scratch buffer; heuristics score long rows)
    for (ct, depth, w, h) in ([(0, 8, 20000, 5)] if quick else [(0, 8, 20000, 5), (2, 8, 6000, 6), (6, 16, 2600, 5), (0, 1, 70000, 4)]):
        bpp = depth * pg.CHANNELS[ct]
        n = pg.raw_size(w, h, bpp, False)
        data = bytes(rng.randrange(256) for _ in range(n))
        tok = pg.img_token(w, h, ct, depth, False, None, data)
        for f in ((9, 5) if quick else (9, 5, 6, 7, 8, 4)):
            cs.add(f"filter_image {f} 0 {tok}", fam="filter_image", f=f, w=w, h=h, ct=ct, depth=depth, il=False, data=data, bpp=bpp, tok=tok)
    ri = vlib.run_cases(impl, cs.lines)
    # Brute needs the chooser oracle: the filter types oxipng chose
    mlines = []
    oracle = vlib.Cases()
    for line in cs.lines:
        cid = line.split(" ", 1)[0]
        m = cs.meta[cid]
        r = ri.get(cid, "")
        rep.count(f"filter_image:ct{m['ct']}d{m['depth']}{'i' if m['il'] else 'n'}")
        if r.startswith("ok "):
            out = pg.unhx(r[3:])
            layout = pg.row_layout(m["w"], m["h"], m["bpp"], m["il"])
            rows = []
            off = 0
            for p, _, nb in layout:
                rows.append((p, out[off:off + nb + 1]))
                off += nb + 1
            types = "".join(str(min(rw[0], 9)) if rw else "0" for _, rw in rows)
            if off != len(out):
                rep.violation("C19:filtered-size", "filter_image output has the wrong size",
                              {"cases": [m["cmd"]], "impl_len": len(out), "expected_len": off})
            if any(rw and rw[0] > 4 for _, rw in rows):
                rep.violation("C19:illegal-filter-type", "filter_image wrote an illegal filter type",
                              {"cases": [m["cmd"]], "types": types})
            if m["f"] == 9:
                line = line + " brute=" + types
            bppb = max(1, m["bpp"] // 8)
            oracle.add("spec_recon_seq %d %s" % (bppb, ",".join(("%s:%s" % ("-" if p is None else p, pg.hx(rw))) for p, rw in rows)), src=cid)
            if any(rw[1:] != dr for (_, rw), (_, dr) in zip(rows, pg.split_rows(m["data"], m["w"], m["h"], m["bpp"], m["il"]))):
                rep.nontriv(m["cmd"])
        mlines.append(line)
    rm = vlib.run_cases(model, mlines)
    ro = vlib.run_cases(model, oracle.lines)
    rep.evaluations += len(cs.lines)
    for cid, cmd, a, b in vlib.diff_results(cs, ri, rm):
        rep.corr_break("filter_image", cmd, a, b)
    for oid, m in oracle.meta.items():
        src = cs.meta[m["src"]]
        want = "ok " + pg.hx(src["data"])
        if ro.get(oid) != want:
            rep.violation("C19:image-roundtrip", f"filter_image(strategy {src['f']}) output does not decode to the input under the specification",
                          {"cases": [src["cmd"]], "impl": ri.get(m["src"]), "spec_decode": vlib.short(ro.get(oid), 2000), "expected": want})
    rep.sample(vlib.short(cs.lines[5], 200))

    # ---------------- (c2) the same with alpha optimisation: rows must decode to the input up to the colour under alpha = 0
    from props import c03
    c03.filter_alpha(rep, 25 if quick else 300, "C19")

    # ---------------- (d) foreign streams: spec-filtered, arbitrary types per row, decoded by oxipng
    cs = vlib.Cases()
    for (ct, depth) in pg.LEGAL:
        bpp = depth * pg.CHANNELS[ct]
        for il in (False, True):
            for (w, h) in (rng.sample(dims, 3) if quick else dims):
                n = pg.raw_size(w, h, bpp, il)
                data = rand_bytes(rng, n, rng.randrange(3))
                rows = pg.split_rows(data, w, h, bpp, il)
                types = [rng.randrange(5) for _ in rows]
                stream = pg.filter_rows_spec(rows, max(1, bpp // 8), types)
                pal = [(i, i, i, 255) for i in range(1 << min(depth, 8))] if ct == 3 else None
                cs.add("unfilter_image " + pg.img_token(w, h, ct, depth, il, pal, stream), fam="unfilter_image", data=data)
    # illegal filter type byte -> error, not panic
    cs.add("unfilter_image " + pg.img_token(2, 2, 0, 8, False, None, bytes([5, 1, 2, 0, 3, 4])), fam="unfilter-bad", data=None)
    cs.add("unfilter_image " + pg.img_token(2, 2, 0, 8, False, None, bytes([77, 1, 2, 0, 3, 4])), fam="unfilter-bad", data=None)
    ri = vlib.run_cases(impl, cs.lines)
    rm = vlib.run_cases(model, cs.lines)
    rep.evaluations += len(cs.lines)
    for cid, cmd, a, b in vlib.diff_results(cs, ri, rm):
        rep.corr_break("unfilter_image", cmd, a, b)
    for cid, m in cs.meta.items():
        if m["data"] is None:
            if not ri.get(cid, "").startswith("err"):
                rep.violation("C19:illegal-type-accepted", "unfilter accepted an illegal filter type", {"cases": [m["cmd"]], "impl": ri.get(cid)})
            continue
        rep.nontriv(m["cmd"])
        want = "ok " + pg.hx(m["data"])
        if ri.get(cid) != want:
            rep.violation("C19:foreign-decode", "oxipng's reconstruction of a spec-filtered stream differs from the original bytes",
                          {"cases": [m["cmd"]], "impl": vlib.short(ri.get(cid), 2000), "expected": vlib.short(want, 2000)})
    rep.assumptions.append("Brute strategy: per-row choice is an oracle of the model, instantiated with the filter types oxipng chose")


def replay(payload, info):
    impl = os.path.join(info["bin"], "implrun")
    model = os.path.join(vlib.BUILD, "ocaml", "modelrun")
    lines = [f"r{i} {c}" for i, c in enumerate(payload.get("cases", []))]
    print("impl :", vlib.run_cases(impl, lines))
    print("model:", vlib.run_cases(model, lines))
    print("recorded:", {k: vlib.short(v, 500) for k, v in payload.items() if k not in ("cases",)})
    return 0

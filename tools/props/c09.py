"""C09 — command line means what the manual says: flags, routing, exit status.

Proof: Properties/C09.v (model of parse_opts_into_struct / collect_files / exit fold / routing against
constants parsed from MANUAL.txt). Tie + oracle: the REAL binary built from /repo (no hooks) is run with
random flag vectors (presence/absence, values, shuffled order) on files, several files, stdin and
directories; its stdout / destination files / exit status are compared with the library called with
the option value the extracted MODEL computes from the same flag vector, and with the model's exit
status and file collection."""
import os
import shutil
import subprocess
import tempfile

import chunkgen
import e2e
import imggen
import pnggen as pg
import vlib


def rand_flags(rng):
    kv = {}
    if rng.random() < 0.6:
        kv["o"] = rng.choice(["0", "1", "2", "3", "4", "5", "6", "max"])
    if rng.random() < 0.35:
        k = rng.choice([1, 2, 3])
        kv["f"] = "+".join(map(str, sorted(rng.sample(range(10), k))))
    for fl, p in (("a", 0.2), ("scale16", 0.15), ("fast", 0.3), ("force", 0.2), ("fix", 0.1), ("nb", 0.15), ("nc", 0.15), ("np", 0.15),
                  ("ng", 0.15), ("nx", 0.15), ("nz", 0.12)):
        if rng.random() < p:
            kv[fl] = "1"
    if rng.random() < 0.4:
        kv["i"] = rng.choice(["keep", "0", "1"])
    r = rng.random()
    if r < 0.15:
        kv["strip"] = rng.choice(["safe", "all", b"tEXt".hex(), b"tEXt".hex() + "+" + b"pHYs".hex()])
    elif r < 0.25:
        hx = lambda n: n.encode().hex()
        kv["keep"] = rng.choice(["display", hx("tEXt"), "display+" + hx("tEXt"), hx("pHYs") + "+" + hx("iCCP"),
                                 hx("tEXt") + "+display", hx("eXIf") + "+display+" + hx("tEXt"), hx("tEXt") + "+" + hx("tIME") + "+display",
                                 hx("zTXt") + "+display", "display+" + hx("eXIf") + "+" + hx("tIME"), hx("tIME") + "+" + hx("tEXt")])
    elif r < 0.32:
        kv["s"] = "1"
    if rng.random() < 0.08:
        kv["Z"] = "1"
        if rng.random() < 0.5:
            kv["zi"] = str(rng.choice([1, 3, 15]))
    elif rng.random() < 0.45:
        kv["zc"] = str(rng.randrange(13))
    if rng.random() < 0.1:
        # 0 = already expired (the library then returns its input: deterministic), 3600 = never expires during a check
        kv["timeout"] = rng.choice(["0", "0", "3600"])
    return kv


def argv_of(rng, kv):
    groups = []
    for k, v in kv.items():
        if k == "o":
            groups.append(["-o", v] if rng.random() < 0.5 else ["--opt", v])
        elif k == "f":
            groups.append(["-f", v.replace("+", ",")])
        elif k == "i":
            groups.append(["-i", v] if rng.random() < 0.5 else ["--interlace", v])
        elif k == "strip":
            groups.append(["--strip", v if v in ("safe", "all") else ",".join(bytes.fromhex(x).decode() for x in v.split("+"))])
        elif k == "keep":
            groups.append(["--keep", ",".join(x if x == "display" else bytes.fromhex(x).decode() for x in v.split("+"))])
        elif k == "zc":
            groups.append(["--zc", v])
        elif k == "timeout":
            groups.append(["--timeout", v])
        elif k == "zi":
            groups.append(["--zi", v])
        elif k == "Z":
            groups.append(["-Z"])
        elif k == "s":
            groups.append(["-s"])
        elif k == "a":
            groups.append(["-a"])
        else:
            groups.append(["--" + k])
    rng.shuffle(groups)
    return [x for g in groups for x in g]


def run_cli(cli, argv, stdin=None, cwd=None):
    p = subprocess.run([cli] + argv, input=stdin, stdout=subprocess.PIPE, stderr=subprocess.PIPE, cwd=cwd, timeout=300)
    return p.returncode, p.stdout, p.stderr


def run(rep):
    rng = rep.rng
    quick = rep.tier == "quick"
    cli = rep.info["cli"]
    impl = os.path.join(rep.info["bin"], "implrun")
    model = os.path.join(vlib.BUILD, "ocaml", "modelrun")
    rep.rule = ("random flag vectors over the documented options (presence/absence, values, argument order shuffled, -o before/after explicit "
                "settings) x routing {--stdout, in place, --out, --dir, --pretend, stdin} x inputs {PNG, chunk-rich PNG, APNG, invalid, C2PA}; "
                "plus multi-file and directory scenarios for exit status and file collection. Non-trivial = distinct flag vector with at least one flag.")
    n = 260 if quick else 2500
    cases = []
    # fixed rows (own random stream, so that the sampled rows below do not depend on them): every preset level alone on images on
    # which neighbouring compression levels give different bytes, and every documented form of a --keep list on a file that carries
    # every chunk those lists name
    import random as _random
    r2 = _random.Random(rep.seed * 7 + 1)
    for lvl in ["0", "1", "2", "3", "4", "5", "6", "max"]:
        for rep_i in range(2 if quick else 6):
            w, h = 96, 64
            base = [[((x * 3 + y * 2 + (x * y >> 4)) & 255) for x in range(w)] for y in range(h)]
            data = bytes((base[y][x] + c * 40 + (r2.randrange(7) if (x + y) % 3 else 0)) & 255 for y in range(h) for x in range(w) for c in range(3))
            cases.append(({"o": lvl}, e2e.png_from_token(r2, pg.img_token(w, h, 2, 8, False, None, data), simple=True), "stdout"))
    hx = lambda n_: n_.encode().hex()
    for keep in ["display", hx("tEXt"), "display+" + hx("tEXt"), hx("pHYs") + "+" + hx("iCCP"), hx("tEXt") + "+display", hx("eXIf") + "+display+" + hx("tEXt"),
                 hx("tEXt") + "+" + hx("tIME") + "+display", hx("zTXt") + "+display", "display+" + hx("eXIf") + "+" + hx("tIME"), hx("tIME") + "+" + hx("tEXt"),
                 "display+" + hx("zTXt") + "+" + hx("eXIf")]:
        tok, _ = imggen.gen(r2, 2, 8, 9, 7, False, "random", "none")
        pre = [(b"gAMA", chunkgen.payload(r2, b"gAMA", 2, 8, 0)), (b"pHYs", chunkgen.payload(r2, b"pHYs", 2, 8, 0))]
        post = [(b"tEXt", chunkgen.payload(r2, b"tEXt", 2, 8, 0)), (b"tIME", chunkgen.payload(r2, b"tIME", 2, 8, 0)),
                (b"eXIf", bytes(r2.randrange(256) for _ in range(12))), (b"zTXt", b"k\0\0" + bytes.fromhex("789c030000000001"))]
        cases.append(({"keep": keep, "force": "1"}, e2e.png_from_token(r2, tok, pre=pre, post=post, simple=True), "stdout"))
    nfixed = len(cases)
    for k in range(n):
        kv = rand_flags(rng)
        if k % 13 == 7:
            # a switch that must not leak into another: --scale16 together with --nb / --nx on images that are not 16-bit
            kv = {"scale16": "1", rng.choice(["nb", "nx"]): "1"}
            if rng.random() < 0.5:
                kv["o"] = rng.choice(["0", "2", "4"])
        elif k % 13 == 9:
            # flags that must not imply forced output: --fix, --fast, -a, ... alone on inputs that cannot be improved (second pass below)
            kv = {rng.choice(["fix", "fast", "a", "nz", "ng"]): "1", "o": rng.choice(["0", "1"])}
        if "keep" in kv and "display" in kv["keep"] and "+" in kv["keep"]:
            k = 5 * (k // 5) + 1          # chunk-rich input for keep lists that mix names with `display`
        if k % 5 == 1:
            png = chunkgen.gen_png(rng)[0]
        elif k % 5 == 2:
            png = chunkgen.gen_apng(rng)[0]
        else:
            ct, depth = pg.LEGAL[k % 15]
            cls = rng.choice(imggen.CLASSES)
            # content on which the switches present in the flag vector make a difference
            if "scale16" in kv and ("nb" in kv or "nx" in kv):
                ct, depth, cls = rng.choice([(0, 8, "bitrep"), (3, 8, "bitrep"), (3, 8, "fewcolors"), (0, 8, "bitrep"), (2, 16, "random")])
            elif "nb" in kv or "scale16" in kv:
                ct, depth, cls = rng.choice([(0, 16, "hilo"), (2, 16, "hilo"), (0, 8, "bitrep"), (6, 16, "hilo"), (3, 8, "bitrep")])
            elif "ng" in kv or "nc" in kv:
                ct, depth, cls = rng.choice([(2, 8, "gray"), (6, 8, "gray"), (6, 8, "opaque"), (2, 8, "fewcolors"), (4, 8, "opaque")])
            elif "np" in kv:
                ct, depth, cls = rng.choice([(3, 8, "random"), (3, 4, "random"), (3, 8, "fewcolors")])
            elif "a" in kv:
                ct, depth, cls = rng.choice([(6, 8, "binalpha"), (4, 8, "binalpha"), (6, 16, "binalpha")])
            w, h = imggen.pick_dims(rng)
            w, h = max(w, 4), max(h, 4)
            tok, _ = imggen.gen(rng, ct, depth, w, h, rng.random() < 0.3, cls, rng.choice(imggen.KEY_MODES))
            png = e2e.png_from_token(rng, tok)
        cases.append((kv, png, rng.choice(["stdout", "stdout", "inplace", "out", "dir", "pretend", "stdin", "pretend-dir", "pretend-out"])))
    # options according to the model
    mc = vlib.Cases()
    for kv, png, route in cases:
        mc.add("cli_options " + (",".join(f"{a}={b}" for a, b in kv.items()) or "-"))
    rmo = vlib.run_cases(model, mc.lines)
    # library result with those options
    lc = vlib.Cases()
    ids = list(mc.meta)
    for cid, (kv, png, route) in zip(ids, cases):
        r = rmo.get(cid, "")
        if r.startswith("ok "):
            ostr = r[3:]
            if "timeout" in kv:
                # the model records only THAT a timeout is set; its length is passed through unchanged
                ostr = ostr.replace("timeout=1", "timeout=" + kv["timeout"])
            lc.add(f"opt {ostr} {png.hex()}", src=cid)
    rl = vlib.run_cases(impl, lc.lines)
    lib = {m["src"]: rl.get(c) for c, m in lc.meta.items()}
    tmp = tempfile.mkdtemp(prefix="oxiverif-c09-")
    try:
        for idx, (cid, (kv, png, route)) in enumerate(zip(ids, cases)):
            rep.evaluations += 1
            if kv:
                rep.nontriv(str(sorted(kv.items())))
            mo = rmo.get(cid, "")
            want = lib.get(cid)
            argv = argv_of(rng, kv)
            d = os.path.join(tmp, f"c{idx}")
            os.makedirs(d)
            f = os.path.join(d, "in.png")
            open(f, "wb").write(png)
            rep.count("route:" + route)
            desc = {"argv": argv, "route": route, "flags": kv, "png": png.hex()}

            def bad(sig, what):
                rep.violation(sig, what + f" (argv {' '.join(argv)}, routing {route})", {"cases": [mc.meta[cid]["cmd"]], **desc})
            if not mo.startswith("ok "):
                # the model says the command line is refused
                rc, so, se = run_cli(cli, argv + ["--stdout", f])
                if rc == 0:
                    bad("C09:refused-flags-accepted", "a command line the manual refuses (stripping a critical chunk) was accepted")
                continue
            if want is None or not want.startswith("ok "):
                rc, so, se = run_cli(cli, argv + ["--stdout", f])
                if want is not None and want.startswith("err"):
                    if rc == 0:
                        bad("C09:library-error-cli-ok", f"the library fails ({want}) but the executable reports success")
                else:
                    rep.corr_break("library call with the model's option value", mc.meta[cid]["cmd"], vlib.short(want, 200), mo)
                continue
            rep.count("compared")
            wb = bytes.fromhex(want[3:])
            if route == "stdout":
                rc, so, se = run_cli(cli, argv + ["--stdout", f])
                if rc != 0 or so != wb:
                    bad("C09:stdout-bytes", f"--stdout produced {len(so)} bytes (exit {rc}) but the library produces {len(wb)} bytes for the documented option values")
                if open(f, "rb").read() != png:
                    bad("C09:stdout-touched-input", "--stdout modified the input file")
            elif route == "stdin":
                rc, so, se = run_cli(cli, argv + ["--stdout", "-"], stdin=png)
                if rc != 0 or so != wb:
                    bad("C09:stdin-bytes", "reading from stdin: output differs from the library's")
            elif route == "inplace":
                rc, so, se = run_cli(cli, argv + [f])
                got = open(f, "rb").read()
                if rc != 0 or got != wb or so:
                    bad("C09:inplace", f"in-place result differs from the library's (exit {rc}, stdout {len(so)} bytes)")
            elif route == "out":
                o2 = os.path.join(d, "out.png")
                rc, so, se = run_cli(cli, argv + ["--out", o2, f])
                if rc != 0 or not os.path.exists(o2) or open(o2, "rb").read() != wb or open(f, "rb").read() != png or so:
                    bad("C09:out", "--out result differs from the library's or the input was touched")
            elif route == "dir":
                dd = os.path.join(d, "sub", "dir")
                rc, so, se = run_cli(cli, argv + ["--dir", dd, f])
                o2 = os.path.join(dd, "in.png")
                if rc != 0 or not os.path.exists(o2) or open(o2, "rb").read() != wb or open(f, "rb").read() != png:
                    bad("C09:dir", "--dir did not deliver the library's bytes under the same file name")
            elif route in ("pretend-dir", "pretend-out"):
                dd = os.path.join(d, "outdir")
                o2 = os.path.join(d, "out.png")
                extra = ["--dir", dd] if route == "pretend-dir" else ["--out", o2]
                if rng.random() < 0.5:
                    extra = extra + ["--pretend"]
                    rc, so, se = run_cli(cli, argv + extra + [f])
                else:
                    rc, so, se = run_cli(cli, argv + ["--pretend"] + extra + [f])
                wrote = [x for x in os.listdir(d) if x != "in.png" and (x != "outdir" or os.listdir(dd))]
                if rc != 0 or open(f, "rb").read() != png or so or wrote:
                    bad("C09:pretend", f"--pretend together with {extra[0]} wrote something ({wrote})")
            elif route == "pretend":
                rc, so, se = run_cli(cli, argv + ["--pretend", f])
                if rc != 0 or open(f, "rb").read() != png or so or len(os.listdir(d)) != 1:
                    bad("C09:pretend", "--pretend wrote something")
            shutil.rmtree(d, ignore_errors=True)
        # ---- second pass: the library's own outputs as inputs, same or cheaper options: the executable must agree with the library
        #      (which returns such inputs unchanged unless output is forced)
        sp = vlib.Cases()
        second = []
        for cid, (kv, png, route) in list(zip(ids, cases))[: (80 if quick else 600)]:
            want = lib.get(cid)
            mo = rmo.get(cid, "")
            if want and want.startswith("ok ") and mo.startswith("ok ") and "Z" not in kv:
                second.append((cid, kv, bytes.fromhex(want[3:]), mo[3:].replace("timeout=1", "timeout=" + kv["timeout"]) if "timeout" in kv else mo[3:]))
        for cid, kv, inp, mopts in second:
            sp.add(f"opt {mopts} {inp.hex()}", src=cid)
        rs = vlib.run_cases(impl, sp.lines)
        for (c2, m), (cid, kv, inp, mopts) in zip(sp.meta.items(), second):
            want2 = rs.get(c2)
            if not want2 or not want2.startswith("ok "):
                continue
            rep.evaluations += 1
            rep.count("second-pass")
            if bytes.fromhex(want2[3:]) == inp:
                rep.count("second-pass:unchanged")
            argv = argv_of(rng, kv)
            d = os.path.join(tmp, f"s{c2}")
            os.makedirs(d)
            f = os.path.join(d, "in.png")
            open(f, "wb").write(inp)
            os.utime(f, ns=(1_500_000_000_000_000_000, 1_400_000_000_000_000_000))
            pick = rng.random()
            if pick < 0.3:
                rc, so, se = run_cli(cli, argv + ["--stdout", f])
                got = so
            elif pick < 0.6:
                # the input named by its bare file name (relative to the working directory), the result sent to ANOTHER file of the same
                # name: into --dir, or to an --out path ending in that name. The manual: a copy arrives there even if nothing improved
                os.makedirs(os.path.join(d, "sub"))
                extra = ["--dir", "sub"] if pick < 0.45 else ["--out", os.path.join("sub", "in.png")]
                rc, so, se = run_cli(cli, argv + extra + ["in.png"], cwd=d)
                o2 = os.path.join(d, "sub", "in.png")
                got = open(o2, "rb").read() if os.path.exists(o2) else b""
                if open(f, "rb").read() != inp:
                    rep.violation("C09:second-pass-input-touched", f"the input was modified although {extra[0]} names another file (argv {' '.join(argv + extra)})",
                                  {"cases": [mc.meta[cid]["cmd"]], "argv": argv + extra, "png": inp.hex()})
            else:
                rc, so, se = run_cli(cli, argv + [f])
                got = open(f, "rb").read()
                if rc == 0 and bytes.fromhex(want2[3:]) == inp and "force" not in kv and os.stat(f).st_mtime_ns != 1_400_000_000_000_000_000:
                    rep.violation("C09:second-pass-touched", f"an input that cannot be improved was rewritten in place (argv {' '.join(argv)})",
                                  {"cases": [mc.meta[cid]["cmd"]], "argv": argv, "png": inp.hex()})
            if rc != 0 or got != bytes.fromhex(want2[3:]):
                rep.violation("C09:second-pass-bytes", f"second pass over the library's own output: the executable delivers {len(got)} bytes (exit {rc}), the library "
                              f"{len(want2) // 2 - 1} bytes for the documented option values (argv {' '.join(argv)})",
                              {"cases": [mc.meta[cid]["cmd"]], "argv": argv, "png": inp.hex()})
            shutil.rmtree(d, ignore_errors=True)
        # ---- exit status and file collection
        good = cases[0][1]
        c2pa = chunkgen.gen_png(rng, c2pa=True)[0]
        scen = [
            (["ok"], 0), (["bad"], 1), (["ok", "bad"], 0), (["bad", "bad"], 1), (["c2pa"], 3), (["c2pa", "bad"], 1), (["c2pa", "ok"], 0),
        ]
        for kinds, _ in scen:
            d = tempfile.mkdtemp(dir=tmp)
            files = []
            for i, kd in enumerate(kinds):
                p_ = os.path.join(d, f"f{i}.png")
                open(p_, "wb").write(good if kd in ("ok", "c2pa") else b"not a png at all")
                if kd == "c2pa":
                    open(p_, "wb").write(c2pa)
                files.append(p_)
            extra = ["--keep", "caBX"] if "c2pa" in kinds else []
            rc, so, se = run_cli(cli, ["--pretend"] + extra + files)
            mr = vlib.run_cases(model, ["x exit_code " + ",".join({"ok": "ok", "bad": "failed", "c2pa": "skipped"}[k] for k in kinds)])
            want_rc = int(mr["x"].split(" ")[1])
            rep.evaluations += 1
            rep.count("exit:" + "+".join(kinds))
            if rc != want_rc:
                rep.violation("C09:exit-status", f"files {kinds}: exit status {rc}, the manual says {want_rc}", {"cases": ["exit_code " + ",".join(kinds)], "rc": rc})
        # directories
        d = tempfile.mkdtemp(dir=tmp)
        os.makedirs(os.path.join(d, "t", "sub"))
        names = ["a.png", "b.PNG", "c.apng", "d.txt", "e", "sub/f.png", "sub/g.jpg", ".png"]
        for nm in names:
            open(os.path.join(d, "t", nm), "wb").write(good)
        od = os.path.join(d, "o")
        rc, so, se = run_cli(cli, ["--dir", od, os.path.join(d, "t")])
        rep.evaluations += 1
        if os.path.exists(od) and os.listdir(od):
            rep.violation("C09:dir-without-recursive", "a directory was descended without --recursive", {"cases": ["dir without -r"], "found": os.listdir(od)})
        if rc != 3:
            rep.violation("C09:exit-status", f"only a skipped directory: exit status {rc}, the manual says 3", {"cases": ["dir without -r"], "rc": rc})
        rc, so, se = run_cli(cli, ["-r", "--dir", od, os.path.join(d, "t")])
        got = sorted(os.listdir(od)) if os.path.exists(od) else []
        rep.evaluations += 1
        if got != ["a.png", "b.PNG", "c.apng", "f.png"]:
            rep.violation("C09:recursive-collection", f"--recursive took {got}; only .png/.apng files (any case) are to be taken", {"cases": ["dir with -r"], "found": got})
        # explicit non-png file on the command line is taken
        rc, so, se = run_cli(cli, ["--stdout", os.path.join(d, "t", "d.txt")])
        if rc != 0 or not so:
            rep.violation("C09:explicit-file", "a file named explicitly without .png extension was not processed", {"cases": ["explicit d.txt"], "rc": rc})
    finally:
        shutil.rmtree(tmp, ignore_errors=True)
    rep.sample({"flags": cases[0][0], "route": cases[0][2]})
    rep.extra["trusted_base"] = ["clap's own parsing (conflicts, value validation) is library code: modelled as accepted / refused only"]


def replay(payload, info):
    print({k: vlib.short(v, 400) for k, v in payload.items()})
    return 0

"""C13 — a timeout expiring at any moment still yields a correct result.

Proof: Properties/C13.v (pipeline theorems hold for every clock oracle; evaluator with skipped trials).
Tie: deadline hook of the `verif` feature: count the K consultations of an untimed run, then for EVERY
k in 0..K rerun with consultations >= k answering "expired"; the recorded answers (reduction sites in
program order, skipped trials) are the clock oracle of the model replay. Oracle: every such output is
decoded by the extracted specification (fidelity), strictly parsed (well-formedness) and compared in size."""
import os

import subprocess
import tempfile

import chunkgen
import e2e
import imggen
import pnggen as pg
import vlib
from props import c01, c04, c07, c10


def apng_smooth(rng, nframes, w, h):
    """gray-8 APNG whose frames are smooth, pairwise different pictures stored uncompressed: every frame can be made smaller,
    and a frame that received another frame's data shows a different picture"""
    import struct
    import zlib as z

    def fr(seed):
        raw = b"".join(b"\0" + bytes(((x * (seed + 1) + y * 3 + seed * 40) // 2) & 255 for x in range(w)) for y in range(h))
        return z.compress(raw, 0)
    out = bytearray(pg.SIG)
    out += pg.chunk("IHDR", pg.ihdr_bytes(w, h, 8, 0, False))
    out += pg.chunk("acTL", struct.pack(">II", nframes + 1, 0))
    out += pg.chunk("fcTL", struct.pack(">IIIIIHHBB", 0, w, h, 0, 0, 1, 10, 0, 0))
    out += pg.chunk("IDAT", fr(0))
    seq = 1
    for i in range(nframes):
        out += pg.chunk("fcTL", struct.pack(">IIIIIHHBB", seq, w, h, 0, 0, 1, 10, 0, 0))
        out += pg.chunk("fdAT", struct.pack(">I", seq + 1) + fr(i + 1))
        seq += 2
    out += pg.chunk("IEND", b"")
    return bytes(out)


def run(rep):
    rng = rep.rng
    quick = rep.tier == "quick"
    impl = os.path.join(rep.info["bin"], "implrun")
    rep.rule = ("structured PNGs x random options (lossless and --alpha), first untimed to count the K clock consultations, then every "
                "landing point k = 0..K (expiry first seen at the k-th check). Non-trivial = distinct (case, k) whose output differs from "
                "the untimed output (the timeout changed the result).")
    base = vlib.Cases()
    n = 40 if quick else 500
    for k in range(n):
        ct, depth = pg.LEGAL[k % 15]
        w, h = imggen.pick_dims(rng)
        tok, _ = imggen.gen(rng, ct, depth, w, h, rng.random() < 0.3, rng.choice(imggen.CLASSES), rng.choice(imggen.KEY_MODES))
        if k % 3 == 1:
            # chunk-rich files: metadata that depends on the pixel format (bKGD, sBIT, hIST, sRGB, iCCP) must stay consistent with it
            # wherever the clock strikes; reducible content so that the format actually changes
            import chunkgen
            tok, _ = imggen.gen(rng, ct, depth, max(w, 8), max(h, 8), rng.random() < 0.3, rng.choice(["fewcolors", "gray", "opaque", "hilo", "bitrep"]), "none")
            png = chunkgen.gen_png(rng, tok=tok, dup=False)[0]
        else:
            png = e2e.png_from_token(rng, tok)
        mode = "alpha" if k % 4 == 3 else "lossless"
        o = e2e.rand_opts(rng, mode)
        base.add(f"optlog {o} - {png.hex()}", png=png, opts=o, mode=mode, depth=depth, orig=png, rich=(k % 3 == 1))
    for k in range(6 if quick else 40):
        # animated images: every frame consults the clock on its own worker thread, so ANY subset of the frames can be the ones
        # that see the timeout expired
        png = (c04.apng_bytes(rng) if k % 3 == 2 else chunkgen.gen_apng(rng, extra_frames=3 + k % 4)[0] if k % 3 == 1
               else apng_smooth(rng, 5 + k % 4, 24 + k, 16))
        o = "alpha=1" if k % 6 == 5 else rng.choice(["-", "preset=2", "preset=4"])
        base.add(f"optlog {o} - {png.hex()}", png=png, opts=o, mode="apng", depth=8, orig=png, policy="none")
    out0 = e2e.run_pairs(rep, base, "optimize_from_memory (untimed)")
    # a timeout that can never expire ("or never"): the largest representable durations behave exactly like no timeout
    never = vlib.Cases()
    for cid, m in list(base.meta.items())[: (6 if quick else 40)]:
        for secs in ("18446744073709551615", "9223372036854775807", "4294967296"):
            o = (m["opts"] + "," if m["opts"] != "-" else "") + "timeout=" + secs
            never.add(f"optlog {o} - {m['png'].hex()}", src=cid, secs=secs)
    rn = vlib.run_cases(impl, never.lines)
    rep.evaluations += len(never.lines)
    for nid, m in never.meta.items():
        got = e2e.split_result(rn.get(nid))[0]
        if got != out0[m["src"]][0]:
            rep.violation("C13:never-expiring-timeout", f"a timeout of {m['secs']} s (it can never expire) changes the outcome: {vlib.short(got, 120)} "
                          f"instead of {vlib.short(out0[m['src']][0], 60)}", {"cases": [m["cmd"]]})
        else:
            rep.nontriv(("never", nid))
    timed = vlib.Cases()
    ks = []
    for cid, m in base.meta.items():
        res, recs = out0[cid]
        recl = [r.strip().split(" ") for r in recs.split("|") if r.strip()]
        K = int(next((r[1] for r in recl if r[0] == "N"), "0"))
        ks.append(K)
        for k in range(K + 1):
            timed.add(f"optlog {m['opts']} {k} {m['png'].hex()}", png=m["png"], opts=m["opts"], mode=m["mode"], depth=m["depth"],
                      orig=m["png"], k=k, K=K, untimed=res, must_succeed=True, rich=m.get("rich", False), policy=m.get("policy"))
        if m["mode"] == "apng" and K > 0:
            # explicit answer patterns over the last consultations (the frame checks): one frame only, every other frame, all but one
            tail = min(K, 10)
            masks = set()
            for j in range(tail):
                masks.add("0" * (K - tail + j) + "1" + "0" * (tail - j - 1))
                masks.add("0" * (K - tail) + "1" * j + "0" + "1" * (tail - j - 1))
            masks.add("0" * (K - tail) + ("10" * tail)[:tail])
            masks.add("0" * (K - tail) + ("01" * tail)[:tail])
            for mk in sorted(masks):
                timed.add(f"optlog {m['opts']} m{mk} {m['png'].hex()}", png=m["png"], opts=m["opts"], mode=m["mode"], depth=m["depth"],
                          orig=m["png"], k="mask " + mk[K - tail:], K=K, untimed=res, must_succeed=True, rich=False, policy=m.get("policy"))
    rep.extra["consultations_per_case"] = {"min": min(ks), "max": max(ks), "mean": round(sum(ks) / max(1, len(ks)), 1)}
    # APNG frames consult the clock on worker threads (not replayable through the recorded answers): oracle only
    replayable = vlib.Cases()
    only_oracle = vlib.Cases()
    for cid, m in timed.meta.items():
        (only_oracle if m["mode"] == "apng" else replayable).add(m["cmd"], **{k: v for k, v in m.items() if k != "cmd"})
    out = e2e.run_pairs(rep, replayable, "optimize_from_memory with expiry at check k")
    if only_oracle.lines:
        r2 = vlib.run_cases(impl, only_oracle.lines)
        rep.evaluations += len(only_oracle.lines)
        out2 = {cid: e2e.split_result(r2.get(cid)) for cid in only_oracle.meta}
    for cases, res in ((replayable, out),) + (((only_oracle, out2),) if only_oracle.lines else ()):
        for cid, m in cases.meta.items():
            r = res[cid][0]
            if r.startswith("died") or r.startswith("missing"):
                rep.violation("C13:no-result", f"the call did not return with expiry at check {m['k']} of {m['K']}", {"cases": [m["cmd"]], "impl": vlib.short(r, 200)})
            if r != m["untimed"]:
                rep.nontriv((m["cmd"]))
            if r.startswith("ok ") and "force=1" not in m["opts"]:
                ob = bytes.fromhex(r[3:])
                if ob != m["png"] and len(ob) >= len(m["png"]):
                    rep.violation("C13:larger", f"with expiry at check {m['k']} the output is larger than the input", {"cases": [m["cmd"]]})
            if r.startswith("ok ") and m.get("rich"):
                import pngvalid
                vin, _ = pngvalid.validate(m["png"])
                vout, _ = pngvalid.validate(bytes.fromhex(r[3:]))
                if vout - vin:
                    rep.violation("C13:malformed:" + sorted(vout - vin)[0], f"with expiry at check {m['k']} of {m['K']} the output violates {sorted(vout - vin)} "
                                  f"which the input satisfies (options {m['opts']})", {"cases": [m["cmd"]]})
        if cases is replayable:
            c01.oracle(rep, cases, res, lambda m: "alphaeq" if m["mode"] == "alpha" else "eq", "C13",
                       "with the timeout expiring at some check the output no longer decodes to the input's pixels")
        else:
            # animated images: structure, every fcTL field, and the pixels of the default image and of EVERY frame
            model = os.path.join(vlib.BUILD, "ocaml", "modelrun")
            safe = c07.manual_safe_list()
            orc = vlib.Cases()
            for cid, m in cases.meta.items():
                r = res[cid][0]
                if r.startswith("ok "):
                    c10.check_apng_output(rep, m, bytes.fromhex(r[3:]), orc, cid, safe, sig="C13", ctx=f" with clock answers {m['k']}")
            c10.run_oracle(rep, model, orc, cases.meta, sig="C13")
    file_routes(rep, base)
    rep.sample("optlog %s k=0..K - <%d bytes>, K=%d" % (base.meta["c0"]["opts"], len(base.meta["c0"]["png"]), ks[0]))
    rep.assumptions.append("the wall clock is replaced by the hook (k-th and later consultations answer expired); monotonicity of Instant is not needed for these safety statements")


def file_routes(rep, base):
    """the file entry point with a timeout that is already expired when the input has been read (`--timeout 0`): the run must still
    deliver a correct file wherever the manual says the result goes (--out, onto an existing --out, --dir, --stdout, stdin)"""
    cli = rep.info.get("cli")
    if not cli or not os.path.exists(cli):
        rep.notes.append("executable not built; file routes with an expired timeout not run")
        return
    model = os.path.join(vlib.BUILD, "ocaml", "modelrun")
    orc = vlib.Cases()
    metas = {}
    picks = [m for m in base.meta.values() if m["mode"] == "lossless"][: (4 if rep.tier == "quick" else 25)]
    for i, m in enumerate(picks):
        for route in ("out", "out-existing", "dir", "stdout", "stdin"):
            with tempfile.TemporaryDirectory(prefix="c13_") as d:
                src = os.path.join(d, "in.png")
                open(src, "wb").write(m["png"])
                dest = None
                argv = ["--timeout", "0", "-q"] if route != "stdin" else ["--timeout", "0"]
                stdin = None
                if route in ("out", "out-existing"):
                    dest = os.path.join(d, "res.png")
                    if route == "out-existing":
                        open(dest, "wb").write(b"stale" * 400)
                    argv += ["--out", dest, src]
                elif route == "dir":
                    os.mkdir(os.path.join(d, "sub"))
                    dest = os.path.join(d, "sub", "in.png")
                    argv += ["--dir", os.path.join(d, "sub"), src]
                elif route == "stdout":
                    argv += ["--stdout", src]
                else:
                    argv += ["--stdout", "-"]
                    stdin = m["png"]
                desc = {"argv": argv, "input_hex": m["png"].hex(), "route": route, "cases": []}
                rep.evaluations += 1
                try:
                    p = subprocess.run([cli] + argv, input=stdin, stdout=subprocess.PIPE, stderr=subprocess.PIPE, timeout=120)
                except subprocess.TimeoutExpired:
                    rep.violation("C13:does-not-terminate", f"`--timeout 0` via {route}: the executable did not return within 120 s", desc)
                    return            # one hanging run is enough; do not wait two minutes for each of the others
                got = p.stdout if dest is None else (open(dest, "rb").read() if os.path.exists(dest) else None)
                if p.returncode != 0:
                    rep.violation("C13:file-route-failed", f"`--timeout 0` via {route}: exit status {p.returncode}: {p.stderr[-200:]!r}", desc)
                    continue
                if not got:
                    rep.violation("C13:file-route-no-result", f"`--timeout 0` via {route}: the run reports success but delivered nothing", desc)
                    continue
                rep.nontriv(("route", i, route))
                if got != m["png"] and len(got) >= len(m["png"]):
                    rep.violation("C13:file-route-larger", f"`--timeout 0` via {route}: the delivered file is neither the input nor smaller", desc)
                try:
                    ta, _ = e2e.stream_token(m["png"])
                    tb, _ = e2e.stream_token(got)
                except Exception as ex:
                    rep.violation("C13:file-route-unreadable", f"`--timeout 0` via {route}: delivered bytes are not a well-formed PNG: {ex}", desc)
                    continue
                oid = orc.add(f"spec_rel_stream {ta} {tb}", route=route)
                metas[oid] = desc
    ro = vlib.run_cases(model, orc.lines)
    for oid, mo in orc.meta.items():
        if ro.get(oid) != "eq":
            rep.violation("C13:file-route-pixels", f"`--timeout 0` via {mo['route']}: the delivered file does not decode to the input's pixels ({ro.get(oid)})", metas[oid])


replay = c01.replay

"""C13 — a timeout expiring at any moment still yields a correct result.

Proof: Properties/C13.v (pipeline theorems hold for every clock oracle; evaluator with skipped trials).
Tie: deadline hook of the `verif` feature: count the K consultations of an untimed run, then for EVERY
k in 0..K rerun with consultations >= k answering "expired"; the recorded answers (reduction sites in
program order, skipped trials) are the clock oracle of the model replay. Oracle: every such output is
decoded by the extracted specification (fidelity), strictly parsed (well-formedness) and compared in size."""
import os

import e2e
import imggen
import pnggen as pg
import vlib
from props import c01, c04


def run(rep):
    rng = rep.rng
    quick = rep.tier == "quick"
    impl = os.path.join(rep.info["bin"], "implrun")
    rep.rule = ("structured PNGs x random options (lossless and --alpha), first untimed to count the K clock consultations, then every "
                "landing point k = 0..K (expiry first seen at the k-th check). Non-trivial = distinct (case, k) whose output differs from "
                "the untimed output (the timeout changed the result).")
    base = vlib.Cases()
    n = 40 if quick else 500
    for k in range(n):
        ct, depth = pg.LEGAL[k % 15]
        w, h = imggen.pick_dims(rng)
        tok, _ = imggen.gen(rng, ct, depth, w, h, rng.random() < 0.3, rng.choice(imggen.CLASSES), rng.choice(imggen.KEY_MODES))
        if k % 3 == 1:
            # chunk-rich files: metadata that depends on the pixel format (bKGD, sBIT, hIST, sRGB, iCCP) must stay consistent with it
            # wherever the clock strikes; reducible content so that the format actually changes
            import chunkgen
            tok, _ = imggen.gen(rng, ct, depth, max(w, 8), max(h, 8), rng.random() < 0.3, rng.choice(["fewcolors", "gray", "opaque", "hilo", "bitrep"]), "none")
            png = chunkgen.gen_png(rng, tok=tok, dup=False)[0]
        else:
            png = e2e.png_from_token(rng, tok)
        mode = "alpha" if k % 4 == 3 else "lossless"
        o = e2e.rand_opts(rng, mode)
        base.add(f"optlog {o} - {png.hex()}", png=png, opts=o, mode=mode, depth=depth, orig=png, rich=(k % 3 == 1))
    if not quick:
        for k in range(40):
            png = c04.apng_bytes(rng)
            o = e2e.rand_opts(rng, "lossless")
            base.add(f"optlog {o} - {png.hex()}", png=png, opts=o, mode="apng", depth=8, orig=png)
    out0 = e2e.run_pairs(rep, base, "optimize_from_memory (untimed)")
    # a timeout that can never expire ("or never"): the largest representable durations behave exactly like no timeout
    never = vlib.Cases()
    for cid, m in list(base.meta.items())[: (6 if quick else 40)]:
        for secs in ("18446744073709551615", "9223372036854775807", "4294967296"):
            o = (m["opts"] + "," if m["opts"] != "-" else "") + "timeout=" + secs
            never.add(f"optlog {o} - {m['png'].hex()}", src=cid, secs=secs)
    rn = vlib.run_cases(impl, never.lines)
    rep.evaluations += len(never.lines)
    for nid, m in never.meta.items():
        got = e2e.split_result(rn.get(nid))[0]
        if got != out0[m["src"]][0]:
            rep.violation("C13:never-expiring-timeout", f"a timeout of {m['secs']} s (it can never expire) changes the outcome: {vlib.short(got, 120)} "
                          f"instead of {vlib.short(out0[m['src']][0], 60)}", {"cases": [m["cmd"]]})
        else:
            rep.nontriv(("never", nid))
    timed = vlib.Cases()
    ks = []
    for cid, m in base.meta.items():
        res, recs = out0[cid]
        recl = [r.strip().split(" ") for r in recs.split("|") if r.strip()]
        K = int(next((r[1] for r in recl if r[0] == "N"), "0"))
        ks.append(K)
        for k in range(K + 1):
            timed.add(f"optlog {m['opts']} {k} {m['png'].hex()}", png=m["png"], opts=m["opts"], mode=m["mode"], depth=m["depth"],
                      orig=m["png"], k=k, K=K, untimed=res, must_succeed=True, rich=m.get("rich", False))
    rep.extra["consultations_per_case"] = {"min": min(ks), "max": max(ks), "mean": round(sum(ks) / max(1, len(ks)), 1)}
    # APNG frames consult the clock on worker threads (not replayable through the recorded answers): oracle only
    replayable = vlib.Cases()
    only_oracle = vlib.Cases()
    for cid, m in timed.meta.items():
        (only_oracle if m["mode"] == "apng" else replayable).add(m["cmd"], **{k: v for k, v in m.items() if k != "cmd"})
    out = e2e.run_pairs(rep, replayable, "optimize_from_memory with expiry at check k")
    if only_oracle.lines:
        r2 = vlib.run_cases(impl, only_oracle.lines)
        rep.evaluations += len(only_oracle.lines)
        out2 = {cid: e2e.split_result(r2.get(cid)) for cid in only_oracle.meta}
    for cases, res in ((replayable, out),) + (((only_oracle, out2),) if only_oracle.lines else ()):
        for cid, m in cases.meta.items():
            r = res[cid][0]
            if r.startswith("died") or r.startswith("missing"):
                rep.violation("C13:no-result", f"the call did not return with expiry at check {m['k']} of {m['K']}", {"cases": [m["cmd"]], "impl": vlib.short(r, 200)})
            if r != m["untimed"]:
                rep.nontriv((m["cmd"]))
            if r.startswith("ok ") and "force=1" not in m["opts"]:
                ob = bytes.fromhex(r[3:])
                if ob != m["png"] and len(ob) >= len(m["png"]):
                    rep.violation("C13:larger", f"with expiry at check {m['k']} the output is larger than the input", {"cases": [m["cmd"]]})
            if r.startswith("ok ") and m.get("rich"):
                import pngvalid
                vin, _ = pngvalid.validate(m["png"])
                vout, _ = pngvalid.validate(bytes.fromhex(r[3:]))
                if vout - vin:
                    rep.violation("C13:malformed:" + sorted(vout - vin)[0], f"with expiry at check {m['k']} of {m['K']} the output violates {sorted(vout - vin)} "
                                  f"which the input satisfies (options {m['opts']})", {"cases": [m["cmd"]]})
        if cases is replayable:
            c01.oracle(rep, cases, res, lambda m: "alphaeq" if m["mode"] == "alpha" else "eq", "C13",
                       "with the timeout expiring at some check the output no longer decodes to the input's pixels")
    rep.sample("optlog %s k=0..K - <%d bytes>, K=%d" % (base.meta["c0"]["opts"], len(base.meta["c0"]["png"]), ks[0]))
    rep.assumptions.append("the wall clock is replaced by the hook (k-th and later consultations answer expired); monotonicity of Instant is not needed for these safety statements")


replay = c01.replay

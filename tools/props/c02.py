"""C02 — output is always a well-formed PNG/APNG that independent decoders accept.

Proof: Properties/C02.v (output = signature ++ serialisation of an explicit chunk sequence; the
specification's strict container parser reads it back; structure IHDR … IDAT … IEND; CRC width).
Tie: optimize_from_memory replayed on the model (incl. lossy switches, zopfli, force, strip modes, APNG).
Oracle: strict validator written from the specification (tools/pngvalid.py) + the extracted spec decoder
(filter types, indices inside the palette): the output must not violate any constraint the input satisfies."""
import os
import struct

import chunkgen
import e2e
import imggen
import pngvalid
import pnggen as pg
import vlib
from props import c01


def truecolour_with_plte_hist(rng):
    """well-formed truecolour image with a suggested palette and its histogram (finding F8)"""
    tok, _ = imggen.gen(rng, 2, 8, 6, 5, False, "random")
    n = 4
    plte = bytes(rng.randrange(256) for _ in range(3 * n))
    hist = b"".join(struct.pack(">H", rng.randrange(100)) for _ in range(n))
    w, h, ct, depth, il, extra, data = pg.parse_img_token(tok)
    return pg.write_png(w, h, ct, depth, il, data, plte=plte, mid=[(b"hIST", hist)])


def run(rep):
    rng = rep.rng
    quick = rep.tier == "quick"
    model = os.path.join(vlib.BUILD, "ocaml", "modelrun")
    rep.rule = ("well-formed PNGs (structured images, chunk-rich files) and APNGs x random options including alpha, scale16, zopfli, force and "
                "all strip modes. Every output is validated strictly; a constraint counts only if the input satisfied it. "
                "Non-trivial = output differs from the input.")
    cs = vlib.Cases()
    n = 450 if quick else 12000
    for k in range(n):
        kind = k % 4
        if kind == 0:
            png, _ = chunkgen.gen_apng(rng)
        elif kind == 1:
            png, _ = chunkgen.gen_png(rng, special_before_plain=rng.random() < 0.2, c2pa=None)
        elif kind == 2 and k % 40 == 2:
            png = truecolour_with_plte_hist(rng)
        else:
            ct, depth = pg.LEGAL[k % 15]
            w, h = imggen.pick_dims(rng, big=not quick and k % 11 == 0)
            tok, _ = imggen.gen(rng, ct, depth, w, h, rng.random() < 0.3, rng.choice(imggen.CLASSES), rng.choice(imggen.KEY_MODES))
            png = e2e.png_from_token(rng, tok)
        o = e2e.rand_opts(rng, "any")
        if kind == 0 and rng.random() < 0.3:
            # policies that name only SOME of the three animation chunk types (they are stripped together unless all three are kept)
            hx = lambda *ns: "+".join(n.encode().hex() for n in ns)
            pol = rng.choice(["strip:" + hx("fdAT"), "strip:" + hx("fcTL"), "strip:" + hx("fcTL", "fdAT"), "strip:" + hx("acTL"),
                              "keep:" + hx("acTL"), "keep:" + hx("acTL", "fcTL"), "keep:" + hx("fcTL", "fdAT"), "keep:" + hx("acTL", "fcTL", "fdAT")])
            o = ",".join([x for x in o.split(",") if x != "-" and not x.startswith("strip=")] + ["strip=" + pol])
        cs.add(f"optlog {o} - {png.hex()}", png=png, opts=o, kind=kind)
    out = e2e.run_pairs(rep, cs, "optimize_from_memory (all options)")
    orc = vlib.Cases()
    for cid, m in cs.meta.items():
        res = out[cid][0]
        rep.count("result:" + res.split(" ")[0])
        vin, _ = pngvalid.validate(m["png"])
        if vin:
            rep.notes.append("generator produced an input violating: " + ",".join(sorted(vin)))
        if not res.startswith("ok "):
            if not vin:
                rep.violation("C02:failed", f"optimisation of a well-formed file failed: {res[:60]}", {"cases": [m["cmd"]]})
            continue
        ob = bytes.fromhex(res[3:])
        if ob != m["png"]:
            rep.nontriv(m["cmd"])
        vout, info = pngvalid.validate(ob)
        new = sorted(vout - vin)
        for c in new:
            sig = "C02:" + c
            if c == "hist-needs-plte" and info.get("ct") in (2, 6):
                sig = "C02:hIST-without-PLTE:truecolour"
            rep.violation(sig, f"the output violates '{c}' which the input satisfied (options {m['opts']})",
                          {"cases": [m["cmd"]], "constraint": c, "out_len": len(ob)})
        if "stream" in info and not vout & {"zlib-stream", "zlib-size"}:
            try:
                tok, _ = e2e.stream_token(ob)
                orc.add(f"spec_decode_stream {tok}", src=cid)
            except e2e.BadPng as ex:
                if not vin:
                    rep.violation("C02:strict-reader", f"strict reader rejects the output: {ex}", {"cases": [m["cmd"]]})
    ro = vlib.run_cases(model, orc.lines)
    for oid, mo in orc.meta.items():
        if not ro.get(oid, "").startswith("ok "):
            src = cs.meta[mo["src"]]
            rep.violation("C02:undecodable", "the extracted specification cannot decode the output (illegal filter type or pixel index outside the palette)",
                          {"cases": [src["cmd"]], "spec": vlib.short(ro.get(oid), 100)})
    rep.sample("optlog %s - <%d bytes>" % (cs.meta["c1"]["opts"], len(cs.meta["c1"]["png"])))


replay = c01.replay

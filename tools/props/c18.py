"""C18 — Adam7 geometry is exact for every image size.

Proof: Properties/C18.v (scan-line iterator = spec layout for all w,h>=1; raw_data_size = spec total;
routing table = spec 8x8 matrix; interlace pixel routing = spec; position of k-th pass pixel).
Tie: scan_lines / raw_data_size / interlace_image / deinterlace_image of the real code vs the extracted
model on every geometry of the tier; oracle: the extracted *spec* (spec_layout, spec_image_pixels)."""
import os

import pnggen as pg
import vlib


def run(rep):
    rng = rep.rng
    impl = os.path.join(rep.info["bin"], "implrun")
    model = os.path.join(vlib.BUILD, "ocaml", "modelrun")
    quick = rep.tier == "quick"
    maxd = 24 if quick else 72
    rep.rule = (f"every (w,h) in 1..{maxd} squared (plus sparse large sizes) x colour-type/bit-depth pairs (all 15 on small sizes, "
                "round-robin on the rest) x {scan_lines with/without filter byte, raw_data_size, interlace, deinterlace}. "
                "Content is random (geometry is content independent). Distinct = distinct (w,h,bits-per-pixel,direction).")
    geoms = [(w, h) for w in range(1, maxd + 1) for h in range(1, maxd + 1)]
    large = [(100, 1), (1, 100), (255, 3), (256, 5), (257, 2), (3, 300), (640, 2), (2, 513), (1000, 1), (129, 130)]
    # sizes beyond every power-of-two table or buffer size a conversion might use (8192, 16384, 32768 columns or rows)
    # (the extracted model and specification work on lists: quadratic in the row length, so only a few such sizes)
    huge = [(8194, 2), (8200, 1), (2, 8200)] + ([] if quick else [(8193, 3), (3, 8195)])
    cs = vlib.Cases()
    k = 0
    for (w, h) in geoms + large + huge:
        if w <= 9 and h <= 9 and (quick is False or (w * h) % 2 == 1 or w <= 5):
            pairs = pg.LEGAL
        else:
            pairs = [pg.LEGAL[k % 15], pg.LEGAL[(k * 7 + 3) % 15]] if quick else pg.LEGAL[k % 15:k % 15 + 5] + pg.LEGAL[:max(0, k % 15 + 5 - 15)]
            if (w, h) in huge:
                pairs = [(0, 8), (0, 1)] if quick else [(0, 8), (0, 1), (6, 16)]
            k += 1
        for (ct, depth) in pairs:
            bpp = depth * pg.CHANNELS[ct]
            pal = [(i, i, i, 255) for i in range(1 << min(depth, 8))] if ct == 3 else None
            for il in (False, True):
                n = pg.raw_size(w, h, bpp, il)
                data = bytes(rng.randrange(256) for _ in range(n))
                tok = pg.img_token(w, h, ct, depth, il, pal, data)
                m = dict(w=w, h=h, ct=ct, depth=depth, bpp=bpp, il=il, data=data)
                cs.add(f"scan_lines 0 {tok}", kind="scan0", **m)
                tokf = pg.img_token(w, h, ct, depth, il, pal, bytes(pg.raw_size(w, h, bpp, il, True)))
                cs.add(f"scan_lines 1 {tokf}", kind="scan1", **m)
                cs.add(f"raw_data_size {pg.img_token(w, h, ct, depth, il, pal, b'')}", kind="rawsize", **m)
                cs.add(("deinterlace " if il else "interlace ") + tok, kind="conv", **m)
                if w * h <= 64 or k % 5 == 0:
                    # the same conversion through PngImage::change_interlacing, the entry point the optimiser uses
                    cs.add(f"chil {0 if il else 1} {tok}", kind="conv", **m)
    ri = vlib.run_cases(impl, cs.lines)
    rm = vlib.run_cases(model, cs.lines)
    rep.evaluations += len(cs.lines)
    for cid, cmd, a, b in vlib.diff_results(cs, ri, rm):
        rep.corr_break(cs.meta[cid]["kind"], cmd, a, b)

    # oracle: the specification
    orc = vlib.Cases()
    for cid, m in cs.meta.items():
        r = ri.get(cid, "")
        kind = m["kind"]
        rep.count(kind)
        if kind in ("scan0", "scan1"):
            orc.add(f"spec_layout {m['w']} {m['h']} {m['bpp']} {1 if m['il'] else 0}", src=cid, what="layout")
        elif kind == "rawsize":
            orc.add(f"spec_raw_size {m['w']} {m['h']} {m['bpp']} {1 if m['il'] else 0} 1", src=cid, what="size")
        elif kind == "conv":
            rep.nontriv((m["w"], m["h"], m["bpp"], m["il"]))
            orc.add(f"spec_pixels {m['w']} {m['h']} {m['bpp']} {1 if m['il'] else 0} {pg.hx(m['data'])}", src=cid, what="in")
            if r.startswith("ok img:"):
                _, _, _, _, il2, _, out = pg.parse_img_token(r[3:])
                if il2 == m["il"]:
                    rep.violation("C18:flag", "conversion did not flip the interlace flag", {"cases": [m["cmd"]], "impl": vlib.short(r, 500)})
                orc.add(f"spec_pixels {m['w']} {m['h']} {m['bpp']} {1 if il2 else 0} {pg.hx(out)}", src=cid, what="out")
            else:
                rep.violation("C18:conversion-failed", "interlace conversion did not produce an image", {"cases": [m["cmd"]], "impl": vlib.short(r, 500)})
    ro = vlib.run_cases(model, orc.lines)
    pix = {}
    for oid, m in orc.meta.items():
        src = cs.meta[m["src"]]
        if m["what"] == "layout":
            want = ro.get(oid, "")
            if src["kind"] == "scan1" and want.startswith("ok ") and want != "ok -":
                want = "ok " + ",".join(
                    "%d:%s:%s" % (int(x.split(":")[0]) + 1, x.split(":")[1], x.split(":")[2]) for x in want[3:].split(","))
            if ri.get(m["src"]) != want:
                rep.violation("C18:scan-lines", f"scan lines of a {src['w']}x{src['h']} image ({src['bpp']} bpp, interlaced={src['il']}) differ from the specification's pass sizes / row lengths",
                              {"cases": [src["cmd"]], "impl": vlib.short(ri.get(m["src"]), 800), "spec": vlib.short(want, 800)})
        elif m["what"] == "size":
            if ri.get(m["src"]) != ro.get(oid):
                rep.violation("C18:raw-size", f"raw_data_size of {src['w']}x{src['h']} ({src['bpp']} bpp, interlaced={src['il']}) differs from the specification",
                              {"cases": [src["cmd"]], "impl": ri.get(m["src"]), "spec": ro.get(oid)})
        else:
            pix.setdefault(m["src"], {})[m["what"]] = ro.get(oid)
    for src_id, d in pix.items():
        src = cs.meta[src_id]
        if "out" in d and d["in"] != d["out"]:
            rep.violation("C18:pixel-positions", f"{'de' if src['il'] else ''}interlacing a {src['w']}x{src['h']} image ({src['bpp']} bpp) moved pixels to positions the specification does not assign",
                          {"cases": [src["cmd"]], "impl": vlib.short(ri.get(src_id), 800), "spec_pixels_in": vlib.short(d["in"], 800), "spec_pixels_out": vlib.short(d["out"], 800)})

    # round trip through both directions on the implementation
    rt = vlib.Cases()
    for cid, m in cs.meta.items():
        if m["kind"] == "conv" and ri.get(cid, "").startswith("ok img:"):
            rt.add(("interlace " if m["il"] else "deinterlace ") + ri[cid][3:], src=cid)
    rri = vlib.run_cases(impl, rt.lines)
    rrm = vlib.run_cases(model, rt.lines)
    rep.evaluations += len(rt.lines)
    for cid, cmd, a, b in vlib.diff_results(rt, rri, rrm):
        rep.corr_break("conv-back", cmd, a, b)
    orc2 = vlib.Cases()
    for cid, m in rt.meta.items():
        src = cs.meta[m["src"]]
        r = rri.get(cid, "")
        if r.startswith("ok img:"):
            out = pg.parse_img_token(r[3:])[6]
            orc2.add(f"spec_pixels {src['w']} {src['h']} {src['bpp']} {1 if src['il'] else 0} {pg.hx(out)}", src=m["src"])
    ro2 = vlib.run_cases(model, orc2.lines)
    for oid, m in orc2.meta.items():
        if pix.get(m["src"], {}).get("in") != ro2.get(oid):
            src = cs.meta[m["src"]]
            rep.violation("C18:roundtrip", f"converting a {src['w']}x{src['h']} image ({src['bpp']} bpp) there and back does not return the original pixels",
                          {"cases": [src["cmd"]], "spec_pixels_in": vlib.short(pix.get(m["src"], {}).get("in"), 800), "spec_pixels_back": vlib.short(ro2.get(oid), 800)})
    rep.sample(vlib.short(cs.lines[3], 200) + " -> " + vlib.short(ri.get("c3"), 120))
    rep.sample(vlib.short(cs.lines[0], 200) + " -> " + vlib.short(ri.get("c0"), 120))
    rep.extra["geometries"] = len(geoms) + len(large)
    rep.notes.append("deinterlace_image = the specification's de-interlacing for every w, h and pixel size is proved (C18_deinterlace_is_spec); the code is "
                     "tied to the model by correspondence and to the specification by the oracle on every geometry of the tier.")


def replay(payload, info):
    impl = os.path.join(info["bin"], "implrun")
    model = os.path.join(vlib.BUILD, "ocaml", "modelrun")
    lines = [f"r{i} {c}" for i, c in enumerate(payload.get("cases", []))]
    print("impl :", vlib.run_cases(impl, lines))
    print("model:", vlib.run_cases(model, lines))
    print("recorded:", {k: vlib.short(v, 500) for k, v in payload.items() if k not in ("cases",)})
    return 0

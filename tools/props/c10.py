"""C10 — animated PNGs keep every frame, its timing and its pixels.

Proof: Properties/C10.v. Tie: optimize_from_memory on generated APNGs replayed on the model.
Oracle: structural parse of input and output (frame count/order, every fcTL field, acTL payload,
default-image flag, consecutive sequence numbers, IHDR) + every frame decoded by the extracted spec."""
import os
import struct
import zlib

import chunkgen
import e2e
import pnggen as pg
import vlib
from props import c01, c07


def frame_stream_tok(info_hdr, fields, data):
    """img token carrying the inflated frame stream; None when it does not inflate"""
    w, h, ct, depth, il, extra = info_hdr
    try:
        st = zlib.decompress(data)
    except zlib.error:
        return None
    return pg.img_token(fields[0], fields[1], ct, depth, il, extra, st)


def hdr_of(png):
    tok, _ = e2e.stream_token(png)
    w, h, ct, depth, il, extra, _ = pg.parse_img_token(tok)
    return (w, h, ct, depth, il, extra), tok


def check_apng_output(rep, m, ob, orc, src, safe, sig="C10", ctx=""):
    """structural comparison of an APNG and its optimised form; queues the pixel comparisons (default image and every frame,
    decoded by the extracted specification) on `orc`. m: png, opts, policy, cmd[, info]"""
    if ob == m["png"]:
        return
    keep = c07.keep_fn(m["policy"], safe)
    kept = keep(b"acTL") and keep(b"fcTL") and keep(b"fdAT")
    alpha = "alpha=1" in m["opts"]
    try:
        a, b = chunkgen.parse_apng(m["png"]), chunkgen.parse_apng(ob)
        ha, ta = hdr_of(m["png"])
        hb, tb = hdr_of(ob)
    except Exception as ex:
        rep.violation(sig + ":unreadable", f"output is not a well-formed (A)PNG{ctx}: {ex}", {"cases": [m["cmd"]]})
        return

    def bad(s_, what):
        rep.violation(sig + s_[3:], what + f"{ctx} (options {m['opts']})", {"cases": [m["cmd"]]})
    if not kept:
        if b["actl"] is not None or b["first"] is not None or b["frames"] or b["seqs"]:
            bad("C10:dangling-animation-chunks", "the policy strips animation chunks but the output still carries acTL/fcTL/fdAT")
        orc.add(f"spec_rel_stream {ta} {tb}", src=src, what="default image" + ctx, rel="alphaeq" if alpha else "eq")
        return
    if m.get("info", {}).get("frames"):
        rep.nontriv(m["cmd"])
    if a["actl"] != b["actl"]:
        bad("C10:actl", "frame count / play count changed")
    if (a["first"] is None) != (b["first"] is None) or (a["first"] is not None and a["first"] != b["first"]):
        bad("C10:default-image-fctl", "the default image's membership in the animation or its fcTL fields changed")
    if len(a["frames"]) != len(b["frames"]):
        bad("C10:frame-count", f"number of frames changed {len(a['frames'])} -> {len(b['frames'])}")
        return
    if b["seqs"] != list(range(len(b["seqs"]))):
        bad("C10:sequence-numbers", f"sequence numbers are not consecutive from zero: {b['seqs'][:12]}")
    if ha[2:5] != hb[2:5]:
        bad("C10:format-changed", f"colour type / bit depth / interlacing of an animated image changed {ha[2:5]} -> {hb[2:5]}")
        return
    orc.add(f"spec_rel_stream {ta} {tb}", src=src, what="default image" + ctx, rel="alphaeq" if alpha else "eq")
    for i, ((fa, da), (fb, db)) in enumerate(zip(a["frames"], b["frames"])):
        if fa != fb:
            bad("C10:fctl-fields", f"fcTL fields of frame {i} changed {fa} -> {fb}")
        if len(db) > len(da):
            bad("C10:frame-grew", f"frame {i} data grew")
        t1, t2 = frame_stream_tok(ha, fa, da), frame_stream_tok(hb, fb, db)
        if t2 is None:
            bad("C10:frame-undecodable", f"frame {i} data does not inflate")
        elif t1 is not None:
            orc.add(f"spec_rel_stream {t1} {t2}", src=src, what=f"frame {i}" + ctx, rel="alphaeq" if alpha else "eq")


def run_oracle(rep, model, orc, src_meta, sig="C10"):
    ro = vlib.run_cases(model, orc.lines)
    for oid, mo in orc.meta.items():
        got = ro.get(oid)
        if not (got == "eq" or (mo["rel"] == "alphaeq" and got == "alphaeq")):
            src = src_meta[mo["src"]]
            rep.violation(sig + ":pixels", f"{mo['what']} no longer decodes to the same pixels (relation {got}; options {src['opts']})",
                          {"cases": [src["cmd"]], "relation": got})


def run(rep):
    rng = rep.rng
    quick = rep.tier == "quick"
    model = os.path.join(vlib.BUILD, "ocaml", "modelrun")
    safe = c07.manual_safe_list()
    rep.rule = ("generated well-formed APNGs: 0..4 extra frames, fdAT split 1..3 ways, default image in or out of the animation, sub-rectangle "
                "frames, all colour types/depths, interlaced or not x random options x policies that keep / strip the animation chunks "
                "(also partially). Non-trivial = at least one extra frame and output differs from input.")
    cs = vlib.Cases()
    n = 250 if quick else 6000
    for k in range(n):
        png, info = chunkgen.gen_apng(rng)
        pol = rng.choice(["none", "none", "safe", "safe", "all", "strip:" + b"acTL".hex(), "strip:" + b"fcTL".hex(), "strip:" + b"fdAT".hex(),
                          "keep:" + "+".join(x.hex() for x in (b"acTL", b"fcTL", b"fdAT")), "keep:" + b"fcTL".hex() + "+" + b"fdAT".hex(),
                          "strip:" + b"tEXt".hex()])
        o = e2e.rand_opts(rng, "any")
        o = ",".join(kv for kv in o.split(",") if not kv.startswith(("strip=", "scale16=")) and kv != "-")
        o = (o + "," if o else "") + "strip=" + pol
        if pol in ("none", "strip:" + b"tEXt".hex(), "keep:" + "+".join(x.hex() for x in (b"acTL", b"fcTL", b"fdAT"))) and k % 5 == 2:
            # an animated image is never reduced, so a 16-to-8 scaling request must leave image AND frames at their depth
            o += ",scale16=1" + (",recode=0" if k % 10 == 2 else "")
        cs.add(f"optlog {o} - {png.hex()}", png=png, opts=o, policy=pol, info=info, orig=png)
    out = e2e.run_pairs(rep, cs, "optimize_from_memory (APNG)")
    orc = vlib.Cases()
    for cid, m in cs.meta.items():
        res = out[cid][0]
        rep.count("result:" + res.split(" ")[0])
        if not res.startswith("ok "):
            rep.violation("C10:failed", f"optimisation of a well-formed APNG failed: {res[:60]}", {"cases": [m["cmd"]]})
            continue
        check_apng_output(rep, m, bytes.fromhex(res[3:]), orc, cid, safe)
    run_oracle(rep, model, orc, cs.meta)
    rep.sample("optlog %s - <apng %dx%d ct%d depth %d, %d extra frames>" % (cs.meta["c0"]["opts"], cs.meta["c0"]["info"]["w"], cs.meta["c0"]["info"]["h"],
                                                                           cs.meta["c0"]["info"]["ct"], cs.meta["c0"]["info"]["depth"], len(cs.meta["c0"]["info"]["frames"])))


replay = c01.replay

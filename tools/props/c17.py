"""C17 — the smallest completed trial is the one that is emitted.

Proof: Properties/C17.v (for every schedule the returned candidate is a received trial, minimal under
the fixed key among all received trials, and the minimum of all eligible trials).
Tie: optimize_raw of the real code with the trial tap: per-trial sizes of every final-round evaluator vs
the emitted IDAT; the Evaluator alone under random schedules: winner = min by key over the trials that
completed. Oracle: pure comparison of tapped sizes (no model involved)."""
import os

import e2e
import imggen
import pnggen as pg
import vlib
from props import c06


def key_chunks_size(tok):
    w, h, ct, depth, il, extra, data = pg.parse_img_token(tok)
    if ct == 3:
        n = len(extra or [])
        last = max([i for i, c in enumerate(extra or []) if c[3] != 255], default=-1)
        return 12 + 3 * n + ((12 + last + 1) if last >= 0 else 0)
    if ct == 0 and extra is not None:
        return 14
    if ct == 2 and extra is not None:
        return 18
    return 0


def parse_recs(recs):
    return [r.strip().split(" ") for r in recs.split("|") if r.strip()]


def run(rep):
    rng = rep.rng
    quick = rep.tier == "quick"
    impl = os.path.join(rep.info["bin"], "implrun")
    rep.rule = ("(a) optimize_raw on structured images (indexed / keyed images so that PLTE/tRNS overhead K > 0) under option vectors that make the "
                "evaluation deflater coincide with the main one (--fast --zc 0..7, >= 2 filters) and under the presets; every completed final-round "
                "trial is compared with what was emitted; (b) the Evaluator alone, random schedules, winner vs min-by-key of completed trials. "
                "Non-trivial = at least two completed final-round trials.")
    cs = vlib.Cases()
    n = 300 if quick else 6000
    for k in range(n):
        ct, depth = rng.choice([(3, 8), (3, 4), (3, 2), (0, 8), (2, 8), (6, 8), (4, 8), (3, 8)])
        w, h = rng.choice([(8, 8), (16, 6), (48, 16), (5, 5), (12, 9)])
        tok, _ = imggen.gen(rng, ct, depth, w, h, False, rng.choice(["fewcolors", "random", "bitrep", "gray"]), rng.choice(imggen.KEY_MODES), ncolors=rng.choice([2, 4, 16]))
        kind = k % 3
        if k % 4 == 1:
            # tie-prone stratum: tiny periodic indexed / gray images on which several filters reach exactly the same size, palette in
            # non-luma order (so that a reduction candidate is evaluated and carried over into the fast path), many filters
            w, h = rng.choice([(13, 3), (8, 4), (12, 3), (9, 5), (16, 2), (7, 7), (6, 3)])
            ncol = rng.choice([2, 3, 4, 5, 6, 7])
            fn = rng.choice([lambda x, y: (x * x + y) % ncol, lambda x, y: (x + y) % ncol, lambda x, y: x % ncol,
                             lambda x, y: (x // 2 + y) % ncol, lambda x, y: (x * y) % ncol, lambda x, y: (x + 2 * y) % ncol])
            idx = [[(fn(x, y),) for x in range(w)] for y in range(h)]
            pal = [tuple(rng.randrange(256) for _ in range(3)) + (rng.choice([255, 255, 255, 0, 128]),) for _ in range(ncol)]
            tok = pg.img_token(w, h, 3, 8, False, pal, pg.pack_image(idx, w, h, 3, 8, False))
            allf = list(range(10)) if rng.random() < 0.6 else sorted(rng.sample(range(10), rng.choice([4, 6, 8])))
            o = f"fast=1,zc={rng.choice([1, 3, 5, 6, 7])},filters={'+'.join(map(str, allf))}"
            if rng.random() < 0.6:
                o += ",bd=0"
            if rng.random() < 0.2:
                o += ",pal=0"
            kind = -1
        if kind != -1 and k % 4 == 3:
            # full (non-fast) path with main deflater = evaluation deflater: the compressed winner of the reduction evaluation is a
            # completed final-round trial that the main trials (filters that do not include the evaluation's None/Bigrams) must beat
            # fairly - images with key chunks (PLTE/tRNS overhead K > 0), palette in non-luma order so that an evaluation runs
            w, h = rng.choice([(24, 24), (16, 12), (32, 8), (20, 20)])
            ncol = rng.choice([3, 5, 9, 17, 40])
            pal = [tuple(rng.randrange(256) for _ in range(3)) + (rng.choice([255, 255, 255, 0, 128]),) for _ in range(ncol)]
            idx = [[(rng.randrange(ncol),) for x in range(w)] for y in range(h)]
            tok = pg.img_token(w, h, 3, 8, False, pal, pg.pack_image(idx, w, h, 3, 8, False))
            fs = sorted(rng.sample([1, 2, 3, 4, 5, 6, 8, 9], rng.choice([1, 2, 3])))
            o = f"fast=0,zc={rng.choice([1, 3, 5, 8, 8])},filters={'+'.join(map(str, fs))}"
            if rng.random() < 0.5:
                o += ",bd=0"
            kind = -1
        if kind == -1:
            pass
        elif kind == 0:
            fs = rng.sample(range(9), rng.choice([2, 3, 4]))
            o = f"fast=1,zc={rng.randrange(8)},filters={'+'.join(map(str, fs))}"
        elif kind == 1:
            o = f"preset={rng.choice([0, 1, 2, 3, 5])}"
        else:
            o = e2e.rand_opts(rng, "any")
        if rng.random() < 0.3:
            o = "force=1" if o == "-" else o + ",force=1"
        mx = "-" if "force=1" in o else str(rng.choice([40, 80, 200, 2000]))
        cs.add(f"optraw {o} {mx} {tok}", o=o, mx=mx, tok=tok)
    ri = vlib.run_cases(impl, cs.lines)
    rep.evaluations += len(cs.lines)
    # the same calls with the timeout first seen expired at the k-th check of the clock: a trial that COMPLETED (its size was
    # reported) stays a candidate, whatever the clock says afterwards
    timed = vlib.Cases()
    for cid, m in list(cs.meta.items())[: (60 if quick else 800)]:
        res0, recs0 = e2e.split_result(ri.get(cid))
        K = int(next((r[1] for r in parse_recs(recs0) if r[0] == "N"), "0"))
        for kk in sorted({K - 1, K - 2, K - 3, K // 2, rng.randrange(K + 1)} if K > 0 else set()):
            if kk >= 0:
                timed.add(f"optraw {m['o']} {m['mx']} {m['tok']} {kk}", o=m["o"] + f" [expiry at check {kk}]", mx=m["mx"], tok=m["tok"])
    rt = vlib.run_cases(impl, timed.lines)
    rep.evaluations += len(timed.lines)
    allcases = [(cid, m, ri.get(cid)) for cid, m in cs.meta.items()] + [(cid, m, rt.get(cid)) for cid, m in timed.meta.items()]
    # the build without the `parallel` feature has its own (sequential) collector: the same calls, the same oracle
    try:
        with vlib.Lock():
            nopar = os.path.join(vlib.build_harness(parallel=False), "implrun")
    except vlib.BuildError as ex:
        nopar = None
        rep.notes.append("non-parallel harness build failed: " + str(ex)[:200])
    if nopar and os.path.exists(nopar):
        sub = list(cs.meta.items())[: (150 if quick else 2500)]
        rn = vlib.run_cases(nopar, [f"{cid} {m['cmd']}" for cid, m in sub])
        rep.evaluations += len(sub)
        allcases += [(cid, dict(m, o=m["o"] + " [non-parallel build]"), rn.get(cid)) for cid, m in sub]
        rep.count("non-parallel-build-cases", len(sub))
    for cid, m, raw_res in allcases:
        res, recs = e2e.split_result(raw_res)
        recl = parse_recs(recs)
        finals = {r[1] for r in recl if r[0] == "E" and r[4] == "1"}
        cand = {(r[1], r[2]): r[3] for r in recl if r[0] == "C"}
        done = [(int(r[4]), len(pg.parse_img_token(cand[(r[1], r[2])])[6]), int(r[3]), r[1], int(r[2]))
                for r in recl if r[0] == "T" and r[1] in finals and r[4] != "-" and (r[1], r[2]) in cand]
        rep.count("optraw:" + res.split(" ")[0])
        if len(done) >= 2:
            rep.nontriv(m["cmd"])
        mx = None if m["mx"] == "-" else int(m["mx"])
        if res.startswith("some "):
            p = res.split(" ")
            f, est, itok, idat = int(p[1]), int(p[2]), p[3], pg.unhx(p[4])
            if est != len(idat) + key_chunks_size(itok):
                rep.violation("C17:estimate-inconsistent", "estimated size of the emitted candidate is not IDAT length + PLTE/tRNS size",
                              {"cases": [m["cmd"]], "impl": vlib.short(res, 300)})
            mine = (est, len(pg.parse_img_token(itok)[6]), f)
            for t in done:
                if (t[0], t[1], t[2]) < mine:
                    rep.violation("C17:lost-trial-emitted", f"emitted (size {est}, raw {mine[1]}, filter {f}) although a completed final-round trial has (size {t[0]}, raw {t[1]}, filter {t[2]})",
                                  {"cases": [m["cmd"]], "emitted": list(mine), "better_trial": list(t[:3]), "impl": vlib.short(res, 200)})
                    break
        elif res == "none":
            ok = [t for t in done if mx is None or t[0] < mx]
            if ok:
                rep.violation("C17:winner-dropped", f"nothing was emitted although a completed final-round trial of size {ok[0][0]} is below the limit {mx}",
                              {"cases": [m["cmd"]], "trial": list(ok[0][:3])})
        elif res.startswith("panic") or res.startswith("died"):
            rep.violation("C17:panic", "optimize_raw panicked", {"cases": [m["cmd"]], "impl": vlib.short(res, 300)})
    rep.sample(vlib.short(cs.lines[0], 260) + " -> " + vlib.short(e2e.split_result(ri.get("c0"))[0], 80))

    # (b) evaluator alone, natural (unforced) and randomly slotted schedules
    ev = vlib.Cases()
    for k in range(60 if quick else 800):
        imgs = c06.tie_images(rng)
        nimg = rng.choice([1, 2, 3, 4])
        filters = rng.sample([0, 1, 2, 3, 4, 5, 6, 7, 8], rng.choice([1, 2, 3]))
        trials = [(n_, f) for n_ in range(nimg) for f in filters]
        evs = [("R", t) for t in trials] + [("P", t) for t in trials]
        rng.shuffle(evs)
        pos = {e: i for i, e in enumerate(evs)}
        evs = sorted(evs, key=lambda e: (max(pos[e], pos[("R", e[1])] + 0.5) if e[0] == "P" else pos[e]))
        slots = "-" if k % 3 == 0 else ",".join(f"{k_}{n_}.{f}={i}" for i, (k_, (n_, f)) in enumerate(evs))
        ev.add(f"evalrun {len(trials) + 2} zc={rng.choice([1, 5, 9])} 0 1 {rng.choice(['-', '-', '50'])} {'+'.join(map(str, filters))} {slots} {' '.join(imgs[:nimg])}",
               imgs=imgs[:nimg])
    re_ = vlib.run_cases(impl, ev.lines, shards=4)
    rep.evaluations += len(ev.lines)
    for cid, m in ev.meta.items():
        res, recs = e2e.split_result(re_.get(cid))
        recl = parse_recs(recs)
        done = [(int(r[4]), len(pg.parse_img_token(m["imgs"][int(r[2])])[6]), int(r[3]), -int(r[2])) for r in recl if r[0] == "T" and r[4] != "-"]
        if res.startswith("some "):
            p = res.split(" ")
            mine = (int(p[3]), len(pg.parse_img_token(m["imgs"][int(p[1])])[6]), int(p[2]), -int(p[1]))
            if done and min(done) != mine:
                rep.violation("C17:evaluator-not-min", f"the evaluator returned {mine} but the minimum by key over the completed trials is {min(done)}",
                              {"cases": [m["cmd"]], "completed": [list(d) for d in sorted(done)], "impl": vlib.short(res, 200)})
            if len(done) >= 2:
                rep.nontriv(("ev", cid))
        elif res == "none" and done:
            rep.violation("C17:evaluator-dropped", "the evaluator returned nothing although trials completed", {"cases": [m["cmd"]]})


replay = c06.replay

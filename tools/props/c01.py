"""C01 — lossless: the optimised file decodes to exactly the same pixels.

Proof: Properties/C01.v. Tie: (i) every reduction function, real code vs extracted model;
(ii) optimize_from_memory end to end, real code vs model replay under the recorded zlib oracle;
Search/oracle: every image a reduction produced and every output file is decoded by the extracted
*specification* (container parsed strictly in Python, inflate by Python zlib) and compared with the input."""
import os

import e2e
import imggen
import pnggen as pg
import redcheck
import vlib


def gen_cases(rep, n, mode, chain_opts=None):
    rng = rep.rng
    cs = vlib.Cases()
    for k in range(n):
        ct, depth = pg.LEGAL[k % 15]
        w, h = imggen.pick_dims(rng, big=(rep.tier != "quick" and k % 7 == 0))
        il = rng.random() < 0.3
        cls = rng.choice(imggen.CLASSES)
        tok, _ = imggen.gen(rng, ct, depth, w, h, il, cls, rng.choice(imggen.KEY_MODES))
        png = e2e.png_from_token(rng, tok)
        o = e2e.rand_opts(rng, mode)
        cs.add(f"optlog {o} - {png.hex()}", png=png, opts=o, ct=ct, depth=depth, il=il, cls=cls, orig=png, step=0)
    return cs


def oracle(rep, cs, out, expect, sig_prefix, what):
    """expect(meta) -> 'eq' | 'alphaeq' | 'scaled'. Compares decode(original) with decode(output)."""
    model = os.path.join(vlib.BUILD, "ocaml", "modelrun")
    orc = vlib.Cases()
    for cid, m in cs.meta.items():
        res = out[cid][0]
        rep.count("result:" + res.split(" ")[0])
        if res.startswith("err") and m.get("must_succeed", True):
            rep.violation(f"{sig_prefix}:valid-input-rejected", f"a well-formed PNG was rejected ({res})",
                          {"cases": [m["cmd"]], "impl": res})
            continue
        if not res.startswith("ok "):
            if res.startswith("panic") or res.startswith("died"):
                rep.violation(f"{sig_prefix}:panic", "optimisation of a well-formed PNG panicked", {"cases": [m["cmd"]], "impl": vlib.short(res, 300)})
            continue
        outb = bytes.fromhex(res[3:])
        if outb != m["png"]:
            rep.nontriv(m["cmd"])
        try:
            intok, _ = e2e.stream_token(m["orig"])
        except e2e.BadPng as ex:
            rep.notes.append("generator produced an ill-formed file: " + str(ex))
            continue
        try:
            outtok, _ = e2e.stream_token(outb)
        except e2e.BadPng as ex:
            rep.violation(f"{sig_prefix}:output-not-decodable", f"the output file is not a well-formed PNG: {ex}",
                          {"cases": [m["cmd"]], "impl": vlib.short(res, 600)})
            continue
        rel = expect(m)
        if rel == "scaled" and (outb == m["png"] or pg.parse_img_token(outtok)[3] == 16):
            # the input is returned, or nothing was emitted (the image data of the input is written back, possibly with fewer
            # chunks): the image is kept as it is (C04). Whatever IS emitted under --scale16 is at most 8 bits deep
            # (C15_emitted_scaled): new image data at 16 bits means the scaling was skipped
            idat = lambda b: b"".join(c[8:-4] for c in e2e.chunk_list(b) if c[4:8] == b"IDAT")
            if outb != m["png"] and idat(outb) != idat(m["png"]):
                rep.violation(f"{sig_prefix}:emitted-16-bit", "with --scale16 and bit-depth reductions enabled new image data was emitted at 16 bits per sample "
                              f"(options {m['opts']})", {"cases": [m["cmd"]], "impl": vlib.short(res, 300)})
                continue
            rel = "eq"
        orc.add(f"spec_rel_stream {intok} {outtok}" + (" scaled" if rel == "scaled" else ""), src=cid, rel=rel)
    ro = vlib.run_cases(model, orc.lines)
    for oid, m in orc.meta.items():
        got = ro.get(oid)
        ok = got == "eq" or (m["rel"] == "alphaeq" and got == "alphaeq")
        if not ok:
            src = cs.meta[m["src"]]
            rep.violation(f"{sig_prefix}:pixels", f"{what} (relation of decoded input and output: {got}, expected {m['rel']}; options {src['opts']})",
                          {"cases": [src["cmd"]], "impl": vlib.short(out[m["src"]][0], 600), "relation": got})


def run(rep):
    quick = rep.tier == "quick"
    rep.rule = ("(i) structured images of all 15 colour/depth pairs (content classes chosen so each reduction fires) through every "
                "lossless reduction function; (ii) the same image family as PNG files (random row filters, split IDAT) x random option "
                "vectors with alpha/scale16 off through optimize_from_memory, replayed on the model; (iii) 2-step chains. "
                "Non-trivial = distinct case where a reduction fired / the output bytes differ from the input.")
    redcheck.run_reductions(rep, redcheck.LOSSLESS, 450 if quick else 6000, "lossless", "C01", big=not quick)
    cs = gen_cases(rep, 450 if quick else 12000, "lossless")
    out = e2e.run_pairs(rep, cs, "optimize_from_memory")
    oracle(rep, cs, out, lambda m: "eq", "C01", "the optimised file does not decode to the input's pixels")
    # chains: feed outputs back with other options
    rng = rep.rng
    cur, cur_out = cs, out
    for step in (1, 2) if quick else (1, 2, 3):
        nxt = vlib.Cases()
        for cid, m in list(cur.meta.items())[: (150 if quick else 3000)]:
            res = cur_out[cid][0]
            if res.startswith("ok "):
                o = e2e.rand_opts(rng, "lossless")
                nxt.add(f"optlog {o} - {res[3:]}", png=bytes.fromhex(res[3:]), opts=m["opts"] + " ; " + o, orig=m["orig"], step=step)
        nout = e2e.run_pairs(rep, nxt, f"optimize_from_memory (chain step {step})")
        oracle(rep, nxt, nout, lambda m: "eq", "C01", f"after {step + 1} successive optimisations the file no longer decodes to the original pixels")
        cur, cur_out = nxt, nout
    rep.sample("optlog %s - <%d-byte png of class %s>" % (cs.meta["c0"]["opts"], len(cs.meta["c0"]["png"]), cs.meta["c0"]["cls"]))
    rep.assumptions += [
        "zlib oracle: compressors are functions of (deflater, input) and succeed iff the result fits the cap; inflate(deflate x) = x "
        "(every output file of this run was re-inflated by Python zlib)",
    ]


def replay(payload, info):
    impl = os.path.join(info["bin"], "implrun")
    lines = [f"r{i} {c}" for i, c in enumerate(payload.get("cases", []))]
    r = vlib.run_cases(impl, lines)
    print("impl :", {k: vlib.short(v, 400) for k, v in r.items()})
    print("recorded:", {k: vlib.short(v, 500) for k, v in payload.items() if k not in ("cases",)})
    return 0

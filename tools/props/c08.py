"""C08 — disabled transformation classes are really disabled.

Proof: Properties/C08.v (on the pipeline model: bit depth, colour type, grayscale, palette, keep/requested
interlacing, dimensions, and the nx+nz identity; every oracle environment).
Tie: optimize_from_memory replayed on the model. Oracle: headers / PLTE / tRNS / IDAT of input and
output compared directly (strict Python chunk reader)."""
import os
import struct
import zlib

import e2e
import imggen
import pnggen as pg
import vlib
from props import c01


def facts(png):
    ch = pg.read_chunks(png)
    d = dict()
    w, h, depth, ct, _, _, il = struct.unpack(">IIBBBBB", ch[0][1])
    idat = b"".join(c[1] for c in ch if c[0] == b"IDAT")
    return dict(w=w, h=h, depth=depth, ct=ct, il=il, plte=next((c[1] for c in ch if c[0] == b"PLTE"), None),
                trns=next((c[1] for c in ch if c[0] == b"tRNS"), None), idat=idat)


def run(rep):
    rng = rep.rng
    quick = rep.tier == "quick"
    rep.rule = ("all 16 subsets of the four reduction switches x interlace in {keep, 0, 1} x recoding x force x preset, on structured "
                "images whose content lets the disabled reduction fire if it were not disabled. Non-trivial = the output differs from the input.")
    cs = vlib.Cases()
    combos = [(bd, ct, pal, gray) for bd in "01" for ct in "01" for pal in "01" for gray in "01"]
    n_per = 14 if quick else 120
    k = 0
    for (bd, ct_, pal, gray) in combos:
        for j in range(n_per):
            ct, depth = pg.LEGAL[k % 15]
            k += 1
            w, h = imggen.pick_dims(rng)
            il = rng.random() < 0.4
            cls = rng.choice(["hilo", "gray", "opaque", "bitrep", "fewcolors", "binalpha"])
            tok, _ = imggen.gen(rng, ct, depth, w, h, il, cls, rng.choice(imggen.KEY_MODES), ncolors=rng.choice([2, 4, 16]))
            png = e2e.png_from_token(rng, tok)
            inter = rng.choice(["keep", "0", "1"])
            o = f"preset={rng.choice([0, 2, 3, 5])},bd={bd},ct={ct_},pal={pal},gray={gray},interlace={inter},recode={rng.choice('011')},force={rng.choice('01')}"
            if rng.random() < 0.3:
                o += ",alpha=1"
            cs.add(f"optlog {o} - {png.hex()}", png=png, opts=o, bd=bd, ctr=ct_, pal=pal, gray=gray, inter=inter, orig=png, tok=tok)
    # targeted strata (seeded round 3): inputs on which a transformation of a DISABLED class would clearly pay off
    import chunkgen
    for j in range(24 if quick else 240):
        if j % 2 == 0:
            # palette changes disabled, everything else on, expensive presets: an indexed image whose palette order is bad
            # (shuffled palette, spatially coherent picture) - any palette sorter that runs would win
            w, h = rng.choice([(24, 24), (32, 16), (40, 30)])
            ncol = rng.choice([8, 24, 64, 200])
            pal = [tuple(rng.randrange(256) for _ in range(3)) + (255,) for _ in range(ncol)]
            idx = [[((x // 3 + y // 2) * 7 % ncol,) for x in range(w)] for y in range(h)]
            tok = pg.img_token(w, h, 3, 8, False, pal, pg.pack_image(idx, w, h, 3, 8, False))
            png = e2e.png_from_token(rng, tok)
            o = f"preset={rng.choice([3, 4, 5, 6])},bd={rng.choice('01')},ct=1,pal=0,gray={rng.choice('01')},interlace=keep,recode=1,force={rng.choice('01')}"
            cs.add(f"optlog {o} - {png.hex()}", png=png, opts=o, bd=o.split("bd=")[1][0], ctr="1", pal="0", gray=o.split("gray=")[1][0], inter="keep", orig=png, tok=tok)
        else:
            # grayscale changes disabled on gray-valued truecolour images that carry colour-space chunks, under policies that
            # rewrite those chunks (the option value is adjusted while chunks are pre-processed)
            ct, depth = rng.choice([(2, 8), (6, 8), (2, 16)])
            w, h = rng.choice([(16, 16), (20, 12)])
            tok, _ = imggen.gen(rng, ct, depth, w, h, False, "gray", "none")
            png = chunkgen.gen_png(rng, tok=tok, with_colorspace=rng.choice(["iccp-srgb", "both", "sRGB", "iccp-other"]), dup=False)[0]
            pol = rng.choice(["safe", "keep:" + b"sRGB".hex() + "+" + b"iCCP".hex(), "keep:" + b"sRGB".hex(), "strip:" + b"tEXt".hex(), "none"])
            o = f"preset={rng.choice([0, 2, 3])},bd=1,ct=1,pal=1,gray=0,interlace=keep,recode=1,strip={pol}"
            cs.add(f"optlog {o} - {png.hex()}", png=png, opts=o, bd="1", ctr="1", pal="1", gray="0", inter="keep", orig=png, tok=tok)
    # palette changes disabled while the pixels use only the first few entries of a much larger palette (depths 8, 4, 2): a depth
    # reduction that looks at the used indices instead of the palette size would have to cut the palette
    for j in range(12 if quick else 120):
        depth = (8, 8, 4, 2)[j % 4]
        cap = 1 << depth
        ncol = min(cap, rng.choice([40, 17, 200, 256, 5, 3]))
        used = rng.choice([1, 2, 2, 4, 6]) if ncol > 2 else 1
        used = min(used, ncol)
        w, h = rng.choice([(16, 16), (24, 10)])
        pal = [tuple(rng.randrange(256) for _ in range(3)) + (rng.choice([255, 255, 128]),) for _ in range(ncol)]
        idx = [[(rng.randrange(used),) for x in range(w)] for y in range(h)]
        tok = pg.img_token(w, h, 3, depth, False, pal, pg.pack_image(idx, w, h, 3, depth, False))
        png = e2e.png_from_token(rng, tok)
        o = f"preset={rng.choice([0, 2, 3, 5])},bd=1,ct={rng.choice('01')},pal=0,gray={rng.choice('01')},interlace=keep,recode=1,force={rng.choice('01')}"
        cs.add(f"optlog {o} - {png.hex()}", png=png, opts=o, bd="1", ctr=o.split("ct=")[1][0], pal="0", gray=o.split("gray=")[1][0], inter="keep", orig=png, tok=tok)
    # the documented identity: --nx --nz (all off, keep interlacing, no recoding)
    for j in range(20 if quick else 300):
        ct, depth = pg.LEGAL[j % 15]
        w, h = imggen.pick_dims(rng)
        tok, _ = imggen.gen(rng, ct, depth, w, h, rng.random() < 0.4, rng.choice(imggen.CLASSES), rng.choice(imggen.KEY_MODES))
        png = e2e.png_from_token(rng, tok)
        o = f"preset={rng.choice([0, 2, 4, 6])},bd=0,ct=0,pal=0,gray=0,interlace=keep,recode=0,force={rng.choice('01')}"
        cs.add(f"optlog {o} - {png.hex()}", png=png, opts=o, bd="0", ctr="0", pal="0", gray="0", inter="keep", orig=png, nxnz=True, tok=tok)
    out = e2e.run_pairs(rep, cs, "optimize_from_memory (switch subsets)")
    for cid, m in cs.meta.items():
        res = out[cid][0]
        rep.count("result:" + res.split(" ")[0])
        if not res.startswith("ok "):
            if res.startswith(("panic", "died", "err")):
                rep.violation("C08:failed", f"optimisation of a well-formed PNG failed: {res[:60]}", {"cases": [m["cmd"]]})
            continue
        ob = bytes.fromhex(res[3:])
        if ob != m["png"]:
            rep.nontriv(m["cmd"])
        try:
            a, b = facts(m["png"]), facts(ob)
        except Exception as ex:
            rep.violation("C08:unreadable", f"output unreadable: {ex}", {"cases": [m["cmd"]]})
            continue
        GRAY = (0, 4)
        def bad(sig, what):
            rep.violation(sig, what + f" (options {m['opts']})", {"cases": [m["cmd"]], "in": {k: v for k, v in a.items() if k not in ("idat", "plte", "trns")},
                                                                  "out": {k: v for k, v in b.items() if k not in ("idat", "plte", "trns")}})
        if (a["w"], a["h"]) != (b["w"], b["h"]):
            bad("C08:dimensions", "width/height changed")
        if m["bd"] == "0" and a["depth"] != b["depth"]:
            bad("C08:bit-depth", f"bit depth changed {a['depth']} -> {b['depth']} although bit-depth changes are disabled")
        if m["ctr"] == "0" and a["ct"] != b["ct"]:
            bad("C08:color-type", f"colour type changed {a['ct']} -> {b['ct']} although colour-type changes are disabled")
        if m["gray"] == "0" and (a["ct"] in GRAY) != (b["ct"] in GRAY):
            bad("C08:grayscale", f"image moved between grayscale and colour ({a['ct']} -> {b['ct']}) although grayscale changes are disabled")
        if m["pal"] == "0" and a["ct"] == 3 and b["ct"] == 3:
            # exact palette entries in order (RGBA: PLTE + tRNS padded with 255)
            def entries(f):
                n = len(f["plte"]) // 3
                al = list(f["trns"] or b"") + [255] * n
                return [(f["plte"][3 * i], f["plte"][3 * i + 1], f["plte"][3 * i + 2], al[i]) for i in range(n)]
            if entries(a) != entries(b):
                bad("C08:palette", "palette entries changed although palette changes are disabled")
        if m["inter"] == "keep" and a["il"] != b["il"]:
            bad("C08:keep-interlace", "interlace flag changed under 'keep'")
        if m["inter"] in "01" and "force=1" in m["opts"] and b["il"] != int(m["inter"]):
            bad("C08:requested-interlace", f"output interlace mode {b['il']} is not the requested {m['inter']}")
        if m.get("nxnz") and a["idat"] != b["idat"]:
            bad("C08:nx-nz-identity", "with all transformations and recompression disabled the IDAT stream changed")
    rep.sample("optlog %s - <%d bytes>" % (cs.meta["c0"]["opts"], len(cs.meta["c0"]["png"])))


replay = c01.replay

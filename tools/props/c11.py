"""C11 — raw-image API encodes exactly the pixels it was given.

Proof: Properties/C11.v. Tie: RawImage::new / add_png_chunk / add_icc_profile / create_optimized_png,
real code vs model replay. Oracle: the created file is strictly validated and decoded by the extracted
specification; it must equal the meaning of the raw samples (alpha-equivalent with --alpha); attached
chunks must obey the policy; inconsistent tuples must be rejected with an error."""
import os
import zlib

import chunkgen
import e2e
import imggen
import pngvalid
import pnggen as pg
import vlib
from props import c01, c07


def run(rep):
    rng = rep.rng
    quick = rep.tier == "quick"
    impl = os.path.join(rep.info["bin"], "implrun")
    model = os.path.join(vlib.BUILD, "ocaml", "modelrun")
    safe = c07.manual_safe_list()
    rep.rule = ("generated (width, height, colour type with palette or key, bit depth, data, attached chunks / ICC profile) tuples, consistent and "
                "inconsistent (wrong data length, depth illegal for the colour type, zero dimensions), x random options with recompression on. "
                "Non-trivial = distinct accepted tuple.")
    cs = vlib.Cases()
    n = 350 if quick else 9000
    for k in range(n):
        ct, depth = pg.LEGAL[k % 15]
        w, h = imggen.pick_dims(rng)
        cls = rng.choice(imggen.CLASSES)
        if ct in (2, 6) and depth == 8 and k % 3 == 0:
            cls = "gray"             # r = g = b everywhere: convertible to grayscale unless colour-space metadata forbids it
        bloated = k % 25 == 5
        if bloated:
            # an attached profile that the pre-processing cannot read back (it inflates beyond the guessed buffer) still pins the
            # colour type: an r = g = b truecolour image must stay truecolour and keep the profile
            ct, depth, cls = rng.choice([(2, 8), (6, 8)]) + ("gray",)
        if ct in (4, 6) and k % 4 == 1 and not bloated:
            cls = "nearalpha"        # alpha one byte away from opaque / transparent (0xFFxx, 0x00xx, 254, 1)
        tok, _ = imggen.gen(rng, ct, depth, w, h, False, cls, rng.choice(["none", "used", "unused"]))
        w_, h_, ct_, d_, il_, extra, data = pg.parse_img_token(tok)
        bad = None
        r = rng.random()
        if r < 0.08:
            data = data[:-1] if data else b"\0"
            bad = "datalen"
        elif r < 0.14:
            data = data + b"\0"
            bad = "datalen"
        elif r < 0.18:
            w_ = 0
            bad = "datalen"
        elif r < 0.24:
            newd = rng.choice([1, 2, 4]) if ct in (2, 4, 6) else 16 if ct == 3 else d_
            if newd != d_:
                d_ = newd
                bad = "depthtype"
        tok2 = pg.img_token(w_, h_, ct_, d_, False, extra, data)
        o = e2e.rand_opts(rng, "any")
        o = ",".join(kv for kv in o.split(",") if not kv.startswith(("recode=", "interlace=")) and kv != "-") or "-"
        extras = []
        names = []
        for nm in (b"tEXt", b"pHYs", b"gAMA", b"prVt", b"sRGB"):
            if rng.random() < 0.25:
                pl = chunkgen.payload(rng, nm, ct, depth, 0)
                extras.append(f"{nm.hex()}:{pl.hex() or '-'}")
                names.append((nm, pl))
        icc = None
        if bloated:
            o = rng.choice(["-", "preset=2", "preset=3", "strip=none"])
            icc = chunkgen.icc_profile(rng, "other", bloated=True)
            extras = [x for x in extras if not x.startswith(b"sRGB".hex())]
            names = [x for x in names if x[0] != b"sRGB"]
            extras.append("icc:" + icc.hex())
        elif rng.random() < 0.2:
            icc = chunkgen.icc_profile(rng, rng.choice(["srgb", "other"]))
            extras.append("icc:" + icc.hex())
        cs.add(f"rawlog {o} {tok2} {' '.join(extras)}".strip(), tok=tok2, opts=o, bad=bad, names=names, icc=icc, depth=d_, ct=ct_)
    # dimensions whose byte size does not fit 64 bits (or 32): rejected as a wrong data length, never a panic or a wrap-around
    for (w_, h_, ct_, d_) in ((1 << 30, 1 << 31, 6, 16), (0xffffffff, 0xffffffff, 6, 16), (1 << 31, 1 << 31, 2, 8), (0xffffffff, 2, 0, 1),
                              (1 << 29, 1 << 32 - 1, 6, 16), (65536, 65536, 6, 16), (1 << 31, 1, 0, 8)):
        tok2 = pg.img_token(w_, h_, ct_, d_, False, None, b"")
        cs.add(f"rawlog - {tok2}", tok=tok2, opts="-", bad="datalen", names=[], icc=None, depth=d_, ct=ct_)
    ri = vlib.run_cases(impl, cs.lines)
    mlines = []
    res = {}
    for line in cs.lines:
        cid, _, rest = line.partition(" ")
        r, recs = e2e.split_result(ri.get(cid))
        res[cid] = r
        mlines.append(f"{cid} raw_replay{rest[len('rawlog'):]} {recs}")
    rm = vlib.run_cases(model, mlines)
    rep.evaluations += len(cs.lines)
    for cid, m in cs.meta.items():
        if vlib.canon(res[cid]) != vlib.canon(rm.get(cid)):
            rep.corr_break("RawImage API", vlib.short(m["cmd"], 300), vlib.short(res[cid], 200), vlib.short(rm.get(cid), 200))
    orc = vlib.Cases()
    for cid, m in cs.meta.items():
        r = res[cid]
        rep.count(f"{'bad:' + m['bad'] if m['bad'] else 'good'}:{r.split(' ')[0]}")
        if r.startswith(("panic", "died")):
            rep.violation("C11:panic", f"the raw-image API panicked: {vlib.short(r, 120)}", {"cases": [m["cmd"]]})
            continue
        if m["bad"]:
            if not r.startswith("err " + m["bad"]):
                rep.violation("C11:inconsistent-accepted", f"inconsistent arguments ({m['bad']}) were not rejected with the matching error: {vlib.short(r, 80)}", {"cases": [vlib.short(m["cmd"], 400)]})
            continue
        if not r.startswith("ok "):
            rep.violation("C11:rejected", f"a consistent raw image was rejected: {r[:60]}", {"cases": [m["cmd"]]})
            continue
        rep.nontriv(m["cmd"])
        ob = bytes.fromhex(r[3:])
        vout, _ = pngvalid.validate(ob)
        if vout - {"iccp-and-srgb"}:
            rep.violation("C11:invalid:" + sorted(vout)[0], f"the created PNG violates {sorted(vout)}", {"cases": [m["cmd"]]})
            continue
        try:
            otok, chunks = e2e.stream_token(ob)
        except e2e.BadPng as ex:
            rep.violation("C11:unreadable", f"created PNG unreadable: {ex}", {"cases": [m["cmd"]]})
            continue
        # the raw samples as a filter-type-0 stream
        w, h, ct, d, il, extra, data = pg.parse_img_token(m["tok"])
        rows = pg.split_rows(data, w, h, d * pg.CHANNELS[ct], False)
        itok = pg.img_token(w, h, ct, d, False, extra, b"".join(b"\0" + rw for _, rw in rows))
        opts = dict(kv.split("=", 1) for kv in m["opts"].split(",") if "=" in kv)
        rel = "alphaeq" if opts.get("alpha") == "1" else "eq"
        scaled = opts.get("scale16") == "1" and d == 16 and opts.get("bd", "1") == "1"
        orc.add(f"spec_rel_stream {itok} {otok}" + (" scaled" if scaled else ""), src=cid, rel=rel)
        # attached chunks per policy
        pol = opts.get("strip", "none")
        keep = c07.keep_fn(pol, safe)
        outnames = [(n_, d_) for n_, d_ in chunks if n_ not in c07.CRITICAL]
        octok = pg.parse_img_token(otok)
        gray_moved = (octok[2] in (0, 4)) != (ct in (0, 4))
        # (a recognised sRGB profile may be replaced by an sRGB chunk when stripping is enabled, and a move between grayscale and
        # colour - allowed after such a replacement - drops every colour-space chunk: C14)
        legit_move = gray_moved and pol != "none"
        if m["icc"] is not None and keep(b"iCCP") and not legit_move and not any(n_ in (b"iCCP", b"sRGB") for n_, d_ in outnames):
            rep.violation("C11:attached-profile-lost", f"the attached ICC profile ({len(m['icc'])} bytes) is kept by policy {pol} but the file carries neither iCCP nor sRGB",
                          {"cases": [m["cmd"]]})
        for n_, d_ in outnames:
            if n_ == b"iCCP" and m["icc"] is not None:
                try:
                    prof = zlib.decompress(d_[d_.index(b"\0") + 2:])
                except Exception:
                    prof = None
                if prof != m["icc"]:
                    rep.violation("C11:attached-profile-changed", "the iCCP chunk of the created file does not inflate to the attached profile", {"cases": [m["cmd"]]})
        for nm, pl in m["names"]:
            present = (nm, pl) in outnames
            if keep(nm) and not present and nm != b"sRGB":
                rep.violation("C11:attached-chunk-lost", f"attached chunk {nm.decode()} kept by policy {pol} is missing", {"cases": [m["cmd"]]})
            if not keep(nm) and present:
                rep.violation("C11:attached-chunk-not-stripped", f"attached chunk {nm.decode()} stripped by policy {pol} is present", {"cases": [m["cmd"]]})
    ro = vlib.run_cases(model, orc.lines)
    for oid, mo in orc.meta.items():
        got = ro.get(oid)
        if not (got == "eq" or (mo["rel"] == "alphaeq" and got == "alphaeq")):
            src = cs.meta[mo["src"]]
            rep.violation("C11:pixels", f"the created PNG does not decode to the samples given (relation {got}; options {src['opts']})", {"cases": [src["cmd"]], "relation": got})
    rep.sample(vlib.short(cs.lines[0], 240))


replay = c01.replay

"""C16 — optimisation always terminates, whatever the thread-pool shape.

Proof: Properties/C16.v (collector / task protocol as an LTS: no stuck state, decreasing measure,
maximal runs have returned and left nothing behind; deadlock witness for the protocol without the wait).
Tie: the protocol events recorded by the hooks in the REAL rayon pool (submit, task begin/end, sender
dropped, all started, drained; trials) of every Evaluator of every call are validated as a run of the
LTS by the extracted model (trace validation).
Runtime exploration (what the model cannot exhibit): one process per pool configuration - pool sizes
x concurrent images x call site {plain threads on the global pool, pool workers, nested parallel
iterator, install} x options x scheduling perturbation at the hook points - under a watchdog; after
the rounds the same pool must run ordinary parallel work and one more call."""
import os
import subprocess
import tempfile

import chunkgen
import e2e
import imggen
import vlib


def make_inputs(rng, kind):
    out = []
    if kind == "apng":
        for nfr in (1, 3, 4):          # always animated: the frames are re-encoded on the pool too
            out.append(chunkgen.gen_apng(rng, extra_frames=nfr)[0])
        return out
    if kind == "faulty":
        # calls that FAIL after they have started (an animated image whose last frame's data is cut short: the default image
        # is optimised, then re-encoding that frame fails), and one that fails at once: error returns must leave nothing behind
        import struct
        import zlib
        from props import c05, c13
        for nfr in (2, 3):
            b = c13.apng_smooth(rng, nfr, 20, 12)
            off, ln, name = [sp for sp in c05.chunk_spans(b) if sp[2] == b"fdAT"][-1]
            body = b"fdAT" + b[off + 8:off + 8 + 4 + (ln - 4) // 2]
            out.append(b[:off] + struct.pack(">I", len(body) - 4) + body + struct.pack(">I", zlib.crc32(body) & 0xffffffff) + b[off + 12 + ln:])
        out.append(b"\x89PNG\r\n\x1a\n" + bytes(20))
        return out
    if kind == "chunky":
        # files with ancillary chunks, each with an ICC profile that is kept and recompressed (work outside the image pipeline that
        # must not wait for the pool either)
        for cs_ in ("iccp-other", "iccp-other", "iccp-srgb", "both", "iccp-other", "sRGB"):
            out.append(chunkgen.gen_png(rng, with_colorspace=cs_, c2pa=False)[0])
        return out
    if kind == "big":
        # one very large (64 MiB of raw data and a little more) but trivially compressible image: size-dependent code paths
        import struct
        import zlib
        import pnggen as pg
        w, h = 8192, 8200
        raw = zlib.compress(bytes((w + 1) * h), 1)
        return [pg.SIG + pg.chunk("IHDR", struct.pack(">IIBBBBB", w, h, 8, 0, 0, 0, 0)) + pg.chunk("IDAT", raw) + pg.chunk("IEND", b"")]
    for (ct, d, cls) in [(2, 8, "gray"), (6, 8, "opaque"), (3, 8, "random"), (0, 16, "hilo"), (6, 16, "binalpha"), (3, 4, "fewcolors")]:
        w, h = rng.choice([(20, 14), (9, 31), (33, 8)])
        tok, _ = imggen.gen(rng, ct, d, w, h, rng.random() < 0.3, cls, "none")
        out.append(e2e.png_from_token(rng, tok))
    return out


def run(rep):
    rng = rep.rng
    quick = rep.tier == "quick"
    exe = os.path.join(rep.info["bin"], "poolrun")
    model = os.path.join(vlib.BUILD, "ocaml", "modelrun")
    rep.rule = ("one process per configuration: call site {plain threads/global pool, pool workers (scope), nested parallel iterator, install} x pool size x "
                "concurrently optimised inputs x options {default (fast evaluation), slow evaluation with 4+ filters, APNG frames} x perturbation seed "
                "(sleep / yield / spin at every protocol hook); 2 rounds on the same pool, then ordinary parallel work and one more call; watchdog per process. "
                "Every Evaluator's recorded event sequence is replayed on the LTS. Non-trivial = distinct configuration that completed with at least one task started.")
    sites = ["plain", "worker", "nested", "install"]
    if quick:
        threads = [1, 2, 3, 16]
        concs = [1, 3, 9]
        optsets = [("-", "png"), ("fast=0,filters=0+1+4+9", "png"), ("-", "apng"), ("timeout=0", "png"), ("fast=0,filters=0+1+4+9,timeout=0", "apng"),
                   ("zopfli=1,fast=0,filters=0+5", "png"), ("-", "chunky")]
        seeds = [0, 1 + rng.randrange(1 << 30)]
        watchdog = 60
    else:
        threads = [1, 2, 3, 4, 5, 8, 12, 16]
        concs = [1, 2, 5, 16, 64]
        optsets = [("-", "png"), ("fast=0,filters=0+1+4+9", "png"), ("preset=5", "png"), ("-", "apng"), ("fast=0,filters=0+5", "apng"),
                   ("timeout=0", "png"), ("fast=0,filters=0+1+4+9,timeout=0", "png"), ("timeout=0", "apng"),
                   ("zopfli=1,fast=0,filters=0+5", "png"), ("zopfli=1,fast=0,filters=0+1+9", "apng"), ("-", "chunky"), ("preset=4,strip=safe", "chunky")]
        seeds = [0] + [1 + rng.randrange(1 << 30) for _ in range(3)]
        watchdog = 600
    tmp = tempfile.mkdtemp(prefix="oxiverif-c16-")
    jobs = []
    try:
        files = {}
        for kind in ("png", "apng", "big", "faulty", "chunky"):
            ins = make_inputs(rng, kind)
            files[kind] = os.path.join(tmp, kind + ".txt")
            open(files[kind], "w").write("\n".join(x.hex() for x in ins) + "\n")
        for site in sites:
            for th in threads:
                for cc in concs:
                    for (o, kind) in optsets:
                        for sd in seeds:
                            if quick and rng.random() < 0.5 and not (th == 1 or cc >= th):
                                continue
                            jobs.append((site, th, cc, o, kind, sd))

        # failing calls, at least as many as the pool has threads, from every call site; the pool and later calls must be unaffected
        for site in sites:
            for th, cc in ((1, 3), (2, 4), (3, 9)):
                jobs.append((site, th, cc, "-", "faulty", 0))
        # very large input: outside caller on a wide pool, and from inside a one-thread pool
        jobs.append(("plain", 16, 1, "preset=0", "big", 0))
        jobs.append(("install", 1, 1, "preset=0", "big", 0))
        hangs = []

        def work(job):
            site, th, cc, o, kind, sd = job
            if len(hangs) >= 3:
                return job, -1000, "", "skipped"
            cmd = [exe, site, str(th), str(cc), "1" if kind == "big" else "2", str(sd), o, files[kind]]
            try:
                p = subprocess.run(cmd, stdout=subprocess.PIPE, stderr=subprocess.PIPE, timeout=watchdog)
                return job, p.returncode, p.stdout.decode(errors="replace"), p.stderr.decode(errors="replace")[-400:]
            except subprocess.TimeoutExpired:
                hangs.append(job)
                return job, None, "", "watchdog"
        # pools of up to 16 threads each: run a few configurations at a time
        from concurrent.futures import ThreadPoolExecutor
        with ThreadPoolExecutor(max_workers=4) as ex:
            results = list(ex.map(work, jobs))
        # the shared bound (AtomicMin) under contention, against its sequential specification (fetch_min of Model/Evaluate.v)
        am_jobs = [(th, 150 if quick else 3000, 200, 1 + rng.randrange(1 << 30)) for th in ([2, 4, 8, 16] if quick else [2, 3, 4, 6, 8, 12, 16, 32])]
        for th, rounds, calls, sd in am_jobs:
            cmd = [exe, "atomicmin", str(th), str(rounds), str(calls), str(sd)]
            rep.evaluations += 1
            rep.count("atomicmin-contention")
            desc = {"cmd": " ".join(["poolrun"] + cmd[1:]), "cases": []}
            try:
                p = subprocess.run(cmd, stdout=subprocess.PIPE, stderr=subprocess.PIPE, timeout=watchdog)
                o = p.stdout.decode(errors="replace").strip()
                if p.returncode != 0 or not o.startswith("ok "):
                    rep.violation("C16:atomicmin-spec", f"the shared best-size bound does not behave as an atomic minimum under contention ({th} threads): {o or p.stderr.decode(errors='replace')[-200:]}", desc)
                else:
                    rep.nontriv(("atomicmin", th))
            except subprocess.TimeoutExpired:
                rep.violation("C16:hang:atomicmin", f"a set_min call on the shared best-size bound did not return within {watchdog}s ({th} threads, {rounds} rounds of {calls} calls each)", desc)
        mc = vlib.Cases()
        for job, rc, out, err in results:
            site, th, cc, o, kind, sd = job
            if rc == -1000:
                rep.count("not-run-after-three-hangs")
                continue
            rep.evaluations += 1
            rep.count("site:" + site)
            rep.count(f"threads:{th}")
            desc = {"cmd": f"poolrun {site} {th} {cc} 2 {sd} {o} <{kind} inputs>", "inputs_hex": open(files[kind]).read().split(), "cases": []}
            if rc is None:
                rep.violation(f"C16:hang:{site}", f"no return within {watchdog}s: call site {site}, pool of {th}, {cc} concurrent inputs, options {o}, {kind}, perturbation seed {sd}", desc)
                continue
            if rc != 0 or not out.startswith("ok "):
                rep.violation(f"C16:crash:{site}", f"process ended abnormally (status {rc}): {site}, pool {th}, {cc} inputs: {err}", desc)
                continue
            head, *evals = out.strip().split(" ; ")
            kv = dict(x.split("=") for x in head.split()[1:])
            if kv.get("pool_ok") != "1":
                rep.violation("C16:pool-unusable", f"the pool did not execute ordinary work after the calls: {site}, pool {th}", desc)
            rounds = 1 if kind == "big" else 2
            if int(kv.get("calls", 0)) != rounds * cc + 1:
                rep.violation("C16:calls-lost", f"{kv.get('calls')} of {rounds * cc + 1} calls were made: {site}, pool {th}", desc)
            if kv.get("errs") != "0":
                rep.notes.append(f"{kv.get('errs')} calls returned an error in {desc['cmd']}")
            started = 0
            for ev in evals:
                hd, _, seq = ev.partition(" : ")
                eid, f = hd.split()
                f = f.split("=")[1]
                evs = [x for x in seq.split(",") if x]
                n = sum(1 for x in evs if x.startswith("S"))
                started += sum(1 for x in evs if x.startswith("B"))
                rep.count("task-start:on-collector", sum(1 for x in evs if x.startswith("B") and x.endswith("c")))
                rep.count("task-start:on-other-worker", sum(1 for x in evs if x.startswith("B") and x.endswith("o")))
                mc.add(f"sched_trace {f} {n} 1 {','.join(evs) or '-'}", job=job, complete=bool(evs) and evs[-1] == "Z")
            rep.count("evaluators", len(evals))
            if started:
                rep.nontriv(job)
        rm = vlib.run_cases(model, mc.lines)
        for cid, m in mc.meta.items():
            r = rm.get(cid, "")
            if not r.startswith("ok "):
                rep.corr_break("recorded protocol events are not a run of the LTS", m["cmd"][:600], "recorded by the hooks", r)
            elif m["complete"] and "phase=done" not in r:
                rep.corr_break("the collector returned but the LTS run is not at its end", m["cmd"][:600], "Z recorded", r)
            else:
                rep.count("traces-validated")
    finally:
        import shutil
        shutil.rmtree(tmp, ignore_errors=True)
    rep.sample({"cmd": "poolrun nested 1 3 2 7 - <png inputs>"})
    rep.extra["trusted_base"] = [
        "rayon 1.10 (job start when a worker is free, work stealing, yield_local) and crossbeam-channel: ASSUMED live; exercised under a watchdog, not modelled",
        "the protocol hooks record events in the order of a global mutex; TaskStart is recorded before the task counts itself, TaskEnd before its sender is dropped",
        "the inner parallel iterator over filters is modelled as sequential trials of its task",
    ]


def replay(payload, info):
    print({k: vlib.short(v, 400) for k, v in payload.items()})
    return 0

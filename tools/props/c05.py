"""C05 — any byte string is handled without panic, abort, overflow or runaway memory.

Proof: Properties/C05.v (chunk walker total, legal headers, decoded size bounded by the compressed size).
Tie: outcome class (ok / error kind) of optimize_from_memory on malformed inputs, real code vs model replay.
Oracle: isolated worker processes (catch_unwind, counting global allocator, RLIMIT_AS, watchdog) over
every truncation and single-byte corruption of a structured corpus plus chunk- and field-level edits,
debug profile (overflow checks on) and, in the thorough tier, release profile."""
import os
import resource
import struct
import subprocess
import zlib

import chunkgen
import e2e
import imggen
import pnggen as pg
import vlib
from props import c04

AS_LIMIT = 3 << 30           # address space limit of a worker (bytes)
ALLOC_FACTOR = 8 * 1032      # allowed single request per input byte (1-bit -> 8-bit expansion of a maximally compressed stream)
ALLOC_CONST = 4 << 20        # fixed slack: co-occurrence matrix, hash sets, thread stacks, compressor state


def _limits():
    try:
        resource.setrlimit(resource.RLIMIT_AS, (AS_LIMIT, AS_LIMIT))
    except Exception:
        pass


def run_isolated(exe, lines, per_case_timeout=40, max_hangs=6):
    """runs lines in a worker, one result line per case; a case that produces nothing for per_case_timeout seconds is a hang
    (the worker is killed and restarted behind it), a worker that dies is restarted behind the fatal case. Returns {id: result}."""
    import select
    import threading
    res = {}
    todo = list(lines)
    hangs = 0
    while todo:
        p = subprocess.Popen([exe], stdin=subprocess.PIPE, stdout=subprocess.PIPE, stderr=subprocess.DEVNULL, preexec_fn=_limits)
        payload = ("\n".join(todo) + "\n").encode()

        def feed(p=p, payload=payload):
            try:
                p.stdin.write(payload)
                p.stdin.close()
            except Exception:
                pass
        threading.Thread(target=feed, daemon=True).start()
        done = 0
        buf = b""
        timed_out = False
        fd = p.stdout.fileno()
        while done < len(todo):
            r, _, _ = select.select([fd], [], [], per_case_timeout)
            if not r:
                timed_out = True
                break
            chunk = os.read(fd, 1 << 16)
            if not chunk:
                break
            buf += chunk
            while b"\n" in buf:
                line, buf = buf.split(b"\n", 1)
                if line:
                    k, _, v = line.decode(errors="replace").partition(" ")
                    res[k] = v
                    done += 1
        p.kill()
        p.wait()
        if done >= len(todo):
            break
        bad = todo[done].split(" ", 1)[0]
        res[bad] = "timeout" if timed_out else f"died rc={p.returncode}"
        todo = todo[done + 1:]
        if timed_out:
            hangs += 1
            if hangs >= max_hangs:
                for l in todo:
                    res[l.split(" ", 1)[0]] = "not-run (too many hangs before it)"
                break
    return res


def run_sharded(exe, lines, shards=vlib.NPROC):
    import threading
    parts = [lines[i::shards] for i in range(shards)]
    outs = [None] * shards

    def work(i):
        outs[i] = run_isolated(exe, parts[i])
    ths = [threading.Thread(target=work, args=(i,)) for i in range(shards)]
    for t in ths:
        t.start()
    for t in ths:
        t.join()
    res = {}
    for o in outs:
        res.update(o)
    return res


def fix_crcs(b):
    """recompute the CRC of every complete chunk so that mutated fields reach the parser"""
    out = bytearray(b[:8])
    off = 8
    while off + 12 <= len(b):
        ln = struct.unpack(">I", b[off:off + 4])[0]
        if off + 12 + ln > len(b):
            break
        body = b[off + 4:off + 8 + ln]
        out += b[off:off + 4] + body + struct.pack(">I", zlib.crc32(body) & 0xffffffff)
        off += 12 + ln
    out += b[off:]
    return bytes(out)


def corpus(rng):
    files = []
    for (ct, depth) in pg.LEGAL:
        for il in (False, True):
            tok, _ = imggen.gen(rng, ct, depth, 4, 3, il, "random", "used" if ct in (0, 2) else "none")
            files.append(("plain", e2e.png_from_token(rng, tok, simple=True)))
    for _ in range(3):
        files.append(("apng", chunkgen.gen_apng(rng, extra_frames=2)[0]))
        files.append(("chunky", chunkgen.gen_png(rng, with_colorspace="iccp-srgb", c2pa=True)[0]))
        files.append(("chunky", chunkgen.gen_png(rng, with_colorspace="sRGB")[0]))
    return files


def boundary_files(rng):
    """valid files whose content sits on an internal limit: 255..258 distinct colours (palette capacity), one used colour in a
    large palette, 256-entry palettes with every entry used, 1-pixel-wide and 1-pixel-high interlaced images"""
    files = []
    for ct in (2, 6):
        for ncol in (255, 256, 257, 258):
            w, h = 23, 12
            cols = set()
            while len(cols) < ncol:
                c = tuple(rng.randrange(256) for _ in range(3)) + ((rng.choice([255, 255, 0, 128]),) if ct == 6 else ())
                cols.add(c)
            cols = list(cols)
            px = cols + [rng.choice(cols) for _ in range(w * h - ncol)]
            rng.shuffle(px)
            data = b"".join(bytes(c) for c in px)
            tok = pg.img_token(w, h, ct, 8, False, None, data)
            files.append((f"ncolors{ncol}", e2e.png_from_token(rng, tok, simple=True)))
    for n, used in ((256, 256), (256, 1), (200, 2), (3, 1)):
        pal = [tuple(rng.randrange(256) for _ in range(3)) for _ in range(n)]
        idx = list(range(used)) + [rng.randrange(used) for _ in range(max(0, 300 - used))]
        rng.shuffle(idx)
        w, h = 20, len(idx) // 20
        data = bytes(idx[: w * h])
        tok = pg.img_token(w, h, 3, 8, False, [c + (255,) for c in pal], data)
        files.append((f"palette{n}used{used}", e2e.png_from_token(rng, tok, simple=True)))
    for (w, h) in ((1, 9), (9, 1), (2, 2), (5, 3)):
        tok, _ = imggen.gen(rng, 2, 8, w, h, True, "random", "none")
        files.append(("thin-interlaced", e2e.png_from_token(rng, tok, simple=True)))
    return files


def short_palette_files(rng):
    """indexed files (every depth, interlaced or not) whose PLTE is shorter than the pixel indices in use: decoders render the
    missing entries as opaque black; with and without a tRNS entry"""
    files = []
    for depth in (1, 2, 4, 8):
        for il in (False, True):
            for npal in ((1,) if depth == 1 else (1, 3) if depth == 2 else (3, 9)):
                w, h = rng.choice([(5, 4), (9, 3), (4, 7)])
                top = min(1 << depth, npal + 4)
                idx = [rng.randrange(top) for _ in range(w * h)]
                idx[rng.randrange(w * h)] = top - 1           # at least one index beyond the palette
                pal = [(rng.randrange(256), rng.randrange(256), rng.randrange(256), rng.choice([255, 255, 0, 77])) for _ in range(npal)]
                if rng.random() < 0.5:
                    pal = [(c[0], c[0], c[0], c[3]) for c in pal]      # grey palettes reach the grey target of indexed_to_channels
                px = [[(idx[y * w + x],) for x in range(w)] for y in range(h)]
                tok = pg.img_token(w, h, 3, depth, il, pal, pg.pack_image(px, w, h, 3, depth, il))
                b = e2e.png_from_token(rng, tok, simple=True)
                files.append(b)
    return files


def chunk_spans(b):
    spans = []
    off = 8
    while off + 12 <= len(b):
        ln = struct.unpack(">I", b[off:off + 4])[0]
        if off + 12 + ln > len(b):
            break
        spans.append((off, ln, b[off + 4:off + 8]))
        off += 12 + ln
    return spans


def mutants(rng, kind, b, quick):
    out = []
    n = len(b)
    stride = 3 if quick else 1
    for cut in range(0, n, stride):
        out.append(("trunc", b[:cut]))
    for pos in range(8, n, stride):
        for val in ({0, 255, b[pos] ^ 1, b[pos] ^ 0x80, (b[pos] + 1) & 255} if not quick else {0, 255, b[pos] ^ 0x80}):
            if val != b[pos]:
                m = bytearray(b)
                m[pos] = val
                out.append(("byte", bytes(m)))
                if pos % 2 == 0:
                    out.append(("byte+crc", fix_crcs(bytes(m))))
    spans = chunk_spans(b)
    for i, (off, ln, name) in enumerate(spans):
        end = off + 12 + ln
        out.append(("del-chunk", b[:off] + b[end:]))
        out.append(("dup-chunk", b[:end] + b[off:end] + b[end:]))
        if i + 1 < len(spans):
            o2, l2, _ = spans[i + 1]
            e2_ = o2 + 12 + l2
            out.append(("swap-chunks", b[:off] + b[o2:e2_] + b[off:end] + b[e2_:]))
        for newlen in (0, 1, ln - 1, ln + 1, 0x7fffffff, 0xffffffff):
            if 0 <= newlen != ln:
                out.append(("len-edit", b[:off] + struct.pack(">I", newlen & 0xffffffff) + b[off + 4:]))
        if name in (b"IHDR", b"fcTL", b"acTL"):
            for fo in range(0, min(ln, 24), 4):
                for v in (0, 1, 2, 0x7fffffff, 0x80000000, 0xffffffff, 65536, 100000, 250000):
                    m = bytearray(b)
                    m[off + 8 + fo:off + 12 + fo] = struct.pack(">I", v)
                    out.append(("field32:" + name.decode(), fix_crcs(bytes(m))))
        if name in (b"IHDR",):
            for fo in range(8, 13):
                for v in (0, 1, 2, 3, 4, 5, 6, 7, 8, 16, 32, 255):
                    m = bytearray(b)
                    m[off + 8 + fo] = v
                    out.append(("field8:IHDR", fix_crcs(bytes(m))))
        if name == b"caBX":
            # JUMBF boxes: the length field of the outer box and of the boxes nested at the usual offsets, with the special values of
            # ISO BMFF (0 = to the end, 1 = 64-bit length follows) and off-by-a-few lengths, on the full and on shortened payloads
            for fo in (0, 8, 16, 24):
                for v in (0, 1, 2, 7, 8, 9, 15, 16, 17, ln - 1, ln + 1, 0xffffffff):
                    for newln in {ln, 8, 9, 12, 15, 16, 17, 24} | {fo + 4, fo + 8, fo + 12}:
                        if fo + 4 <= newln <= ln and v >= 0:
                            pay = bytearray(b[off + 8:off + 8 + newln])
                            pay[fo:fo + 4] = struct.pack(">I", v & 0xffffffff)
                            body = name + bytes(pay)
                            out.append(("jumbf-length", b[:off] + struct.pack(">I", newln) + body + struct.pack(">I", zlib.crc32(body) & 0xffffffff) + b[end:]))
        if name not in (b"IHDR", b"IDAT", b"IEND"):
            # every payload length of short chunks (each boundary between the fields of a structured payload is one of them),
            # a spread of lengths of long ones
            cuts = set(range(0, min(ln, 96))) | {max(0, ln - 1), ln // 2} | ({rng.randrange(ln) for _ in range(6)} if ln > 96 else set())
            for newln in sorted(cuts):
                if newln < ln:
                    body = name + b[off + 8:off + 8 + newln]
                    out.append(("payload-cut:" + name.decode(), b[:off] + struct.pack(">I", newln) + body + struct.pack(">I", zlib.crc32(body) & 0xffffffff) + b[end:]))
    return out


def run(rep):
    rng = rep.rng
    quick = rep.tier == "quick"
    bindir = rep.info["bin"]
    fz = os.path.join(bindir, "fuzzrun")
    rep.rule = ("structured corpus (all 15 colour/depth pairs, interlaced or not, APNG, iCCP, caBX, chunk-rich) x every truncation, single-byte "
                "corruptions (with and without CRC repair), chunk deletion / duplication / swap, length-field edits, 32-bit and 8-bit field edits of "
                "IHDR/fcTL/acTL, payload cuts at EVERY length of every ancillary / palette / animation chunk x fix_errors x option vectors; plus hand-built absurd headers and "
                "RawImage tuples. Non-trivial = distinct mutant that differs from its parent and passes the signature check.")
    files = corpus(rng)
    lines = []
    meta = {}
    seen = set()
    opts_pool = ["-", "fix=1", "preset=0,fix=1", "preset=3,fix=1,alpha=1", "fix=1,strip=safe,interlace=1", "fix=1,force=1,scale16=1", "strip=all",
                 "timeout=0", "preset=3,fix=1,timeout=0"]
    for kind, b in files:
        ms = mutants(rng, kind, b, quick)
        if quick:
            # structure-aware mutants are always run; the bulk byte-level ones are sampled
            bulk = [m for m in ms if m[0] in ("trunc", "byte", "byte+crc")]
            ms = [m for m in ms if m[0] not in ("trunc", "byte", "byte+crc")] + rng.sample(bulk, min(len(bulk), 300))
        for mk, mb in ms:
            d = vlib.digest(mb.hex())
            if d in seen:
                continue
            seen.add(d)
            o = rng.choice(opts_pool)
            cid = f"m{len(lines)}"
            lines.append(f"{cid} mem {o} {mb.hex() or '-'}")
            meta[cid] = (mk, len(mb), o, mb, kind)
    # the unmutated corpus under option vectors that exercise every phase, with and without an already expired timeout
    # ("never fails to terminate": an expired clock must not leave the collector waiting for work that will never be counted)
    for kind, b in files:
        for o in ("timeout=0", "preset=3,timeout=0", "preset=5,timeout=0,alpha=1", "timeout=0,fast=0,filters=0+1+9", "preset=4", "timeout=0,interlace=1,force=1"):
            cid = f"v{len(lines)}"
            lines.append(f"{cid} mem {o} {b.hex()}")
            meta[cid] = ("valid", len(b), o, b, kind)
    # valid files on internal limits (palette capacity, palette usage, thin interlaced images), unmutated, under option vectors
    for kind, b in boundary_files(rng):
        for o in ("-", "preset=0", "preset=3,alpha=1", "preset=5,interlace=1", "preset=2,fast=0,filters=5", "preset=4,strip=all"):
            cid = f"b{len(lines)}"
            lines.append(f"{cid} mem {o} {b.hex()}")
            meta[cid] = ("boundary:" + kind, len(b), o, b, kind)
    # every reduction stage is gated by its own option, so a stage may meet an image that an earlier (now disabled) stage would
    # have normalised: files with pixel indices beyond a short palette, boundary files and the plain corpus under vectors that
    # switch the stages on and off independently
    toggled = [("short-palette", b) for b in short_palette_files(rng)] + [("boundary:" + k, b) for k, b in boundary_files(rng)[::2]] + \
              [("plain", b) for k, b in files if k == "plain"][::3]
    for kind, b in toggled:
        vecs = {"pal=0,fast=0", "preset=3,pal=0", "pal=0,bd=0,fast=0", "ct=0,gray=0", "preset=4,bd=0"}
        while len(vecs) < (9 if quick else 24):
            v = [f"{k}={rng.randrange(2)}" for k in ("bd", "ct", "pal", "gray", "alpha", "fast", "scale16") if rng.random() < 0.6]
            if rng.random() < 0.4:
                v.append(f"preset={rng.randrange(7)}")
                v.reverse()            # the preset first: it resets the other fields
            if rng.random() < 0.3:
                v.append(f"interlace={rng.choice(['0', '1'])}")
            if rng.random() < 0.15:
                v.append("timeout=0")
            vecs.add(",".join(v) or "-")
        for o in sorted(vecs):
            cid = f"g{len(lines)}"
            lines.append(f"{cid} mem {o} {b.hex()}")
            meta[cid] = ("toggles:" + kind.split(":")[0], len(b), o, b, kind)
    # absurd headers (F3/F4/F11 reproducers) and raw tuples
    def hdr_png(w, h, depth, ct, il, idat=b"\x78\x9c\x03\x00\x00\x00\x00\x01"):
        return pg.SIG + pg.chunk("IHDR", pg.ihdr_bytes(w, h, depth, ct, il)) + pg.chunk("IDAT", idat) + pg.chunk("IEND", b"")
    hand = [hdr_png(0, 2, 8, 0, 0), hdr_png(2, 0, 8, 0, 0), hdr_png(1, 1, 4, 2, 0), hdr_png(1, 1, 2, 6, 0), hdr_png(0xffffffff, 0xffffffff, 16, 6, 0),
            hdr_png(100000, 250000, 8, 6, 0), hdr_png(30000, 30000, 8, 2, 1), hdr_png(70000, 70000, 1, 0, 0), hdr_png(0x7fffffff, 1, 1, 0, 1),
            hdr_png(1, 0x7fffffff, 1, 0, 1), hdr_png(65536, 65536, 1, 0, 0, zlib.compress(bytes(1000)))]
    for i, mb in enumerate(hand):
        for o in ("-", "fix=1"):
            cid = f"h{i}{o[0]}"
            lines.append(f"{cid} mem {o} {mb.hex()}")
            meta[cid] = ("hand-header", len(mb), o, mb, "hand")
    raws = [(0, 0, 0, 8, "-", ""), (1, 0, 2, 8, "-", ""), (0xffffffff, 0xffffffff, 6, 16, "-", ""), (3, 3, 2, 4, "-", "00" * 27), (3, 3, 3, 16, "000000ff", "00" * 18),
            (2, 2, 0, 8, "-", "00" * 3), (2, 2, 0, 8, "-", "00" * 5), (4, 1, 3, 2, "000000ff", "ff"), (2, 2, 6, 8, "-", "00" * 16), (1, 1, 0, 1, "-", "80")]
    for i, (w, h, ct, d, ex, dat) in enumerate(raws):
        cid = f"r{i}"
        lines.append(f"{cid} raw - {w} {h} {ct} {d} {ex} {dat or '-'}")
        meta[cid] = ("raw-tuple", len(dat) // 2, "-", b"", "raw")
    variants = [("debug", fz)]
    rel = os.path.join(vlib.BUILD, "cargo", "release", "fuzzrun")
    if not quick:
        try:
            vlib.build_harness(release=True)
            variants.append(("release", rel))
        except vlib.BuildError as ex:
            rep.notes.append("release harness build failed: " + str(ex)[:200])
    for vname, exe in variants:
        res = run_sharded(exe, lines)
        rep.evaluations += len(lines)
        worst = (0, None)
        for cid, (mk, n, o, mb, kind) in meta.items():
            r = res.get(cid, "missing")
            cls = r.split(" ")[0]
            rep.count(f"{vname}:{mk.split(':')[0]}:{cls}")
            if mb[:8] == pg.SIG and vname == "debug":
                rep.nontriv(cid + vlib.digest(mb.hex()))
            if cls in ("panic", "died", "timeout", "missing"):
                rep.violation(f"C05:{cls}:{mk}", f"{vname} build: {mk} mutant of a {kind} file ({n} bytes, options {o}) -> {vlib.short(r, 160)}",
                              {"cases": [lines[[l.split(' ', 1)[0] for l in lines].index(cid)]], "impl": vlib.short(r, 300), "profile": vname})
                continue
            mreq = int(r.split("maxreq=")[1].split(" ")[0]) if "maxreq=" in r else 0
            bound = ALLOC_FACTOR * max(n, 1) + ALLOC_CONST
            if mreq > worst[0]:
                worst = (mreq, cid)
            if mreq > bound:
                rep.violation(f"C05:alloc:{mk}", f"{vname} build: a single allocation of {mreq} bytes was requested for a {n}-byte input (bound {bound})",
                              {"cases": [lines[[l.split(' ', 1)[0] for l in lines].index(cid)]], "impl": vlib.short(r, 300)})
        rep.extra[f"largest_request_{vname}"] = {"bytes": worst[0], "case": meta[worst[1]][0] if worst[1] else None}
    rep.sample(vlib.short(lines[10], 200))

    # outcome-class correspondence with the model on a sample of mutants
    cs = vlib.Cases()
    ids = [c for c in meta if c.startswith("m")]
    for cid in rng.sample(ids, min(len(ids), 500 if quick else 6000)):
        mk, n, o, mb, kind = meta[cid]
        if mb and "timeout" not in o:      # the replay has no clock records for a real (already expired) timeout
            cs.add(f"optlog {o} - {mb.hex()}", mk=mk)
    e2e.run_pairs(rep, cs, "outcome class on malformed input")
    rep.assumptions.append("memory safety of unsafe code (transmute in RowFilter::try_from, libdeflate FFI), stack depth and allocator behaviour are exercised, not modelled")


def replay(payload, info):
    fz = os.path.join(info["bin"], "fuzzrun")
    lines = payload.get("cases", [])
    print(run_isolated(fz, lines))
    return 0

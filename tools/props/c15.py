"""C15 — 16-to-8-bit scaling rounds every sample to the nearest 8-bit value.

Tie: EXHAUSTIVE over the 65 536 sample values (the Rust f32 expression vs the model's integer form),
in every channel position of every 16-bit colour type through scaled_bit_depth_16_to_8; function level
with colour keys; end to end with --scale16. Oracle: extracted spec_sem_scaled (rounded samples under
the rounded key)."""
import os

import e2e
import imggen
import pnggen as pg
import redcheck
import vlib
from props import c01


def run(rep):
    rng = rep.rng
    quick = rep.tier == "quick"
    impl = os.path.join(rep.info["bin"], "implrun")
    model = os.path.join(vlib.BUILD, "ocaml", "modelrun")
    rep.rule = ("(a) all 65536 16-bit values through the scaling function, compared with round(v/257) and with the model; "
                "(b) all 65536 values in every channel position of every 16-bit colour type (256x256 images, with and without colour key); "
                "(c) structured 16-bit and non-16-bit images through the scale16 variants of the reductions; (d) end to end with --scale16. "
                "Non-trivial = distinct case where the output differs from the input.")
    # (a)
    cs = vlib.Cases()
    cs.add("scale8_all")
    ri = vlib.run_cases(impl, cs.lines)
    rm = vlib.run_cases(model, cs.lines)
    rep.evaluations += 65536
    rep.exhaustive = True
    for cid, cmd, a, b in vlib.diff_results(cs, ri, rm):
        rep.corr_break("scale_16_to_8 over all 65536 values", cmd, vlib.short(a, 100), vlib.short(b, 100))
    r = ri.get("c0", "")
    if r.startswith("ok "):
        outb = bytes.fromhex(r[3:])
        for v in range(65536):
            want = (v + 128) // 257
            if outb[v] != want:
                rep.violation("C15:sample-rounding", f"16-bit sample {v:#06x} is scaled to {outb[v]} but round(v/257) = {want}",
                              {"cases": ["scale8_all"], "value": v, "impl": outb[v], "expected": want})
                break
        else:
            rep.nontriv("scale8_all")
    rep.count("values", 65536)
    # (b) every channel position of every 16-bit colour type
    cs = vlib.Cases()
    for ct in (0, 2, 4, 6):
        ch = pg.CHANNELS[ct]
        for variant in range(1 if quick else 4):
            px = []
            mult = [1, 3, 5, 7][:ch]
            offs = [rng.randrange(65536) for _ in range(ch)]
            for y in range(256):
                px.append([tuple(((y * 256 + x) * mult[c] + offs[c]) % 65536 for c in range(ch)) for x in range(256)])
            il = variant % 2 == 1
            data = pg.pack_image(px, 256, 256, ct, 16, il)
            extra = None
            if ct == 0 and variant >= 0:
                extra = rng.randrange(65536)
            if ct == 2:
                extra = tuple(rng.randrange(65536) for _ in range(3))
            tok = pg.img_token(256, 256, ct, 16, il, extra, data)
            cs.add(f"reduce scale16 {tok}", tok=tok, ct=ct)
    # (b2) images in which EVERY sample shares a byte pattern (a whole-image shortcut must still round each sample):
    #      low byte 0x00 everywhere (8-bit data widened by zero fill), low byte 0xff, low = high (bit replication), low = high +- 1,
    #      high byte constant; with keys of the same and of another pattern
    pats = {"low00": lambda hi, r: hi << 8, "lowff": lambda hi, r: (hi << 8) | 0xff, "rep": lambda hi, r: hi * 257,
            "rep+1": lambda hi, r: (hi << 8) | ((hi + 1) & 0xff), "rep-1": lambda hi, r: (hi << 8) | ((hi - 1) & 0xff),
            "hi80": lambda hi, r: 0x8000 | hi, "low80": lambda hi, r: (hi << 8) | 0x80, "low7f": lambda hi, r: (hi << 8) | 0x7f}
    for ct in (0, 2, 4, 6):
        ch = pg.CHANNELS[ct]
        for name, f in pats.items():
            for il in ((False,) if quick else (False, True)):
                w, h = 16, 16
                px = [[tuple(f((y * 16 + x + 37 * c) % 256, rng) for c in range(ch)) for x in range(w)] for y in range(h)]
                data = pg.pack_image(px, w, h, ct, 16, il)
                keys = [None]
                if ct == 0:
                    keys = [None, f(0x81, rng), f(0xfe, rng), 0x81fe]
                if ct == 2:
                    keys = [None, tuple(f(v, rng) for v in (0x81, 0x90, 0xff)), (0x81fe, 0x0100, 0xff00)]
                for key in keys:
                    tok = pg.img_token(w, h, ct, 16, il, key, data)
                    cs.add(f"reduce scale16 {tok}", tok=tok, ct=ct)
                    rep.count("pattern:" + name)
    ri = vlib.run_cases(impl, cs.lines)
    rm = vlib.run_cases(model, cs.lines)
    rep.evaluations += len(cs.lines)
    for cid, cmd, a, b in vlib.diff_results(cs, ri, rm):
        rep.corr_break("scaled_bit_depth_16_to_8 (all values, all channel positions)", vlib.short(cmd, 200), vlib.short(a, 100), vlib.short(b, 100))
    orc = vlib.Cases()
    for cid, m in cs.meta.items():
        r = ri.get(cid, "")
        if r.startswith("some "):
            orc.add(f"spec_scaled_rel {m['tok']} {r[5:]}", src=cid)
            rep.nontriv(("allvalues", m["ct"], cid))
        else:
            rep.violation("C15:not-scaled", "a 16-bit image was not scaled to 8 bits", {"cases": [vlib.short(m["cmd"], 300)], "impl": vlib.short(r, 100)})
    ro = vlib.run_cases(model, orc.lines)
    for oid, m in orc.meta.items():
        if ro.get(oid) != "eq":
            src = cs.meta[m["src"]]
            rep.violation(f"C15:allvalues:ct{src['ct']}", "scaling a 16-bit image (all 65536 values in every channel position, or a uniform byte pattern) did not round every sample (or the key) to nearest",
                          {"cases": [vlib.short(src["cmd"], 400)], "relation": ro.get(oid)})
    # (c) structured images
    redcheck.run_reductions(rep, redcheck.SCALE, 250 if quick else 3000, "scale16", "C15")
    # (d) end to end
    cs2 = c01.gen_cases(rep, 250 if quick else 6000, "scale")
    out = e2e.run_pairs(rep, cs2, "optimize_from_memory --scale16")
    def expect(m):
        # scaling is part of the bit-depth class: with bit-depth changes disabled (C08) nothing is scaled
        opts = dict(kv.split("=", 1) for kv in m["opts"].split(",") if "=" in kv)
        return "scaled" if m["depth"] == 16 and opts.get("bd", "1") == "1" else "eq"
    c01.oracle(rep, cs2, out, expect, "C15",
               "with --scale16 the output is not the input with every sample rounded to nearest (16-bit) / is not identical (other depths)")
    # (e) end to end on files that carry metadata about the samples (sBIT - significant bits, here 8 of 16 -, gAMA, bKGD, pHYs ...):
    #     such chunks describe the samples, they do not license another rounding; byte patterns that make truncation and rounding differ
    import chunkgen
    cs3 = vlib.Cases()
    for k in range(24 if quick else 300):
        ct = (0, 2, 4, 6)[k % 4]
        ch = pg.CHANNELS[ct]
        name = list(pats)[k % len(pats)]
        f = pats[name]
        w, h = 12, 9
        px = [[tuple(f((y * 12 + x * 7 + 37 * c + k) % 256, rng) for c in range(ch)) for x in range(w)] for y in range(h)]
        tok = pg.img_token(w, h, ct, 16, False, None, pg.pack_image(px, w, h, ct, 16, False))
        pre = [(b"sBIT", bytes([8] * {0: 1, 2: 3, 4: 2, 6: 4}[ct]))] if k % 3 != 2 else [(b"sBIT", bytes([rng.choice([1, 4, 7, 8, 12, 16])] * {0: 1, 2: 3, 4: 2, 6: 4}[ct]))]
        if k % 2:
            pre.append((b"gAMA", (45455).to_bytes(4, "big")))
        if k % 5 == 1:
            # coding-independent code points: BT.2020 primaries with the PQ / HLG transfer functions (an HDR image is still scaled)
            pre.append((b"cICP", bytes([9, rng.choice([16, 18]), 0, 1])))
        png = e2e.png_from_token(rng, tok, pre=pre)
        # (a preset resets every other field: it comes first)
        o = rng.choice(["", "", "preset=0,", "preset=3,"]) + "scale16=1" + rng.choice(["", "", ",strip=safe", ",interlace=1"])
        cs3.add(f"optlog {o} - {png.hex()}", png=png, opts=o, ct=ct, depth=16, il=False, cls="pattern:" + name, orig=png, step=0)
    out3 = e2e.run_pairs(rep, cs3, "optimize_from_memory --scale16 (files with sBIT)")
    c01.oracle(rep, cs3, out3, lambda m: "scaled", "C15",
               "with --scale16 on a file that carries sBIT the output is not the input with every sample rounded to nearest")
    # (f) both lossy switches: alpha one byte away from transparent / opaque (0x00xx is NOT transparent: its colour must survive, its
    #     alpha rounds to 0 or 1), scaled and alpha-optimised
    cs4 = vlib.Cases()
    for k in range(40 if quick else 500):
        ct = (4, 6)[k % 2]
        w, h = imggen.pick_dims(rng)
        tok, _ = imggen.gen(rng, ct, 16, w, h, rng.random() < 0.25, "nearalpha", "none")
        png = e2e.png_from_token(rng, tok)
        o = rng.choice(["", "", "preset=0,", "preset=3,"]) + "scale16=1,alpha=1" + rng.choice(["", ",force=1", ",interlace=1", ",ct=0"])
        cs4.add(f"optlog {o} - {png.hex()}", png=png, opts=o, ct=ct, depth=16, il=False, cls="nearalpha", orig=png, step=0)
    out4 = e2e.run_pairs(rep, cs4, "optimize_from_memory --scale16 --alpha (alpha near the ends)")
    orc4 = vlib.Cases()
    for cid, m in cs4.meta.items():
        res = out4[cid][0]
        if not res.startswith("ok "):
            rep.violation("C15:alpha-scale-failed", f"a well-formed 16-bit image was not optimised: {res[:80]}", {"cases": [m["cmd"]]})
            continue
        ob = bytes.fromhex(res[3:])
        try:
            ti, _ = e2e.stream_token(m["png"])
            to, _ = e2e.stream_token(ob)
        except e2e.BadPng as ex:
            rep.violation("C15:alpha-scale-unreadable", f"output unreadable: {ex}", {"cases": [m["cmd"]]})
            continue
        if pg.parse_img_token(to)[3] == 16:
            continue               # returned / kept as it is (covered by (d))
        rep.nontriv(m["cmd"])
        orc4.add(f"spec_rel_stream {ti} {to} scaled", src=cid)
    ro4 = vlib.run_cases(model, orc4.lines)
    for oid, mo in orc4.meta.items():
        if ro4.get(oid) not in ("eq", "alphaeq"):
            src = cs4.meta[mo["src"]]
            rep.violation("C15:alpha-scale-pixels", "with --scale16 and --alpha the output is not alpha-equivalent to the input with every sample rounded to nearest "
                          f"(relation {ro4.get(oid)}; options {src['opts']})", {"cases": [src["cmd"]], "relation": ro4.get(oid)})
    rep.sample("scale8_all -> " + vlib.short(r, 80))


replay = c01.replay

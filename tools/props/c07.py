"""C07 — metadata chunks are kept, dropped and ordered exactly as the strip policy says.

Proof: Properties/C07.v. Tie: optimize_from_memory replayed on the model (whose from_slice / output /
pre- and postprocess_chunks mirror the code) on chunk-rich inputs x policies. Oracle: a declarative
re-statement of the property in Python (expected ancillary list) compared with the output chunk list."""
import os
import re
import struct
import zlib

import chunkgen
import e2e
import pnggen as pg
import vlib
from props import c01

CRITICAL = (b"IHDR", b"PLTE", b"tRNS", b"IDAT", b"IEND")
SPECIAL = (b"bKGD", b"hIST", b"fcTL")


def manual_safe_list():
    man = open(os.path.join(vlib.REPO, "MANUAL.txt"), encoding="utf-8").read()
    m = re.search(r"safe\s*=>\s*Strip all non-critical chunks, except for the following:\s*\n\s*([A-Za-z, ]+)\n", man)
    return [x.strip().encode() for x in m.group(1).split(",")]


def keep_fn(policy, safe):
    if policy == "none":
        return lambda n: True
    if policy == "safe":
        return lambda n: n in safe
    if policy == "all":
        return lambda n: False
    kind, names = policy.split(":")
    names = [bytes.fromhex(x) for x in names.split("+") if x]
    if kind == "strip":
        return lambda n: n not in names
    return lambda n: n in names


def ancillary(chunks):
    out = []
    region = "pre"
    for n, d in chunks:
        if n == b"IDAT":
            region = "post"
        if n not in CRITICAL:
            out.append((n, d, region))
    return out


def colour_sig(chunks):
    ih = chunks[0][1]
    depth, ct = ih[8], ih[9]
    plte = next((d for n, d in chunks if n == b"PLTE"), None)
    trns = next((d for n, d in chunks if n == b"tRNS"), None)
    if ct == 3:
        n = len(plte or b"") // 3
        al = list(trns or b"") + [255] * n
        pal = tuple((plte[3 * i], plte[3 * i + 1], plte[3 * i + 2], al[i]) for i in range(n))
        return depth, ct, pal
    if ct == 0:
        return depth, ct, (trns[:2] if trns and len(trns) >= 2 else None)
    if ct == 2:
        return depth, ct, (trns[:6] if trns and len(trns) >= 6 else None)
    return depth, ct, None


def extract_profile(payload):
    i = payload.find(b"\0")
    if i < 0 or i + 1 >= len(payload) or payload[i + 1] != 0:
        return None
    try:
        return zlib.decompress(payload[i + 2:])
    except zlib.error:
        return None


def check_aux(rep, m, inb, outb, policy, safe, sig_prefix="C07"):
    """compares the ancillary chunks of input and output; reports violations"""
    try:
        ic, oc = pg.read_chunks(inb), pg.read_chunks(outb)
    except ValueError as ex:
        rep.violation(f"{sig_prefix}:unreadable", f"output unreadable: {ex}", {"cases": [m["cmd"]]})
        return
    keep = keep_fn(policy, safe)
    ia, oa = ancillary(ic), ancillary(oc)
    si, so = colour_sig(ic), colour_sig(oc)
    changed = si != so
    gray_moved = (si[1] in (0, 4)) != (so[1] in (0, 4))
    has_srgb = any(n == b"sRGB" for n, _, _ in ia)
    expected = []
    replaced_iccp = 0
    for n, d, r in ia:
        if not keep(n):
            continue
        if n == b"caBX" and chunkgen_is_c2pa(d):
            continue                      # only reachable under policy none (otherwise the call fails)
        if changed and n in (b"bKGD", b"sBIT", b"hIST"):
            continue
        if n == b"hIST" and any(x == b"PLTE" for x, _ in ic) and not any(x == b"PLTE" for x, _ in oc):
            continue                      # the (suggested) palette it refers to is gone: palette changed
        if gray_moved and n in (b"sRGB", b"iCCP"):
            continue
        expected.append([n, d, r])
    # iCCP alternatives (C14): same profile recompressed, replaced by sRGB, or dropped for an existing sRGB
    exp2 = []
    for n, d, r in expected:
        if n == b"iCCP":
            exp2.append(["iCCP?", d, r])
        else:
            exp2.append([n, d, r])
    got = [[n, d, r] for n, d, r in oa]

    def match(e, g):
        if e[2] != g[2]:
            return False
        if e[0] == "iCCP?":
            if g[0] == b"iCCP":
                return g[1] == e[1] or (extract_profile(g[1]) is not None and extract_profile(g[1]) == extract_profile(e[1]))
            if g[0] == b"sRGB":
                p = extract_profile(e[1])
                return p is not None and len(p) > 67 and g[1] == bytes([p[67]])
            return False
        return e[0] == g[0] and e[1] == g[1]

    # allow the iCCP to have been dropped in favour of an existing sRGB chunk
    cands = [exp2]
    if any(e[0] == "iCCP?" for e in exp2) and has_srgb:
        cands.append([e for e in exp2 if e[0] != "iCCP?"])
    ok = any(len(c) == len(got) and all(match(e, g) for e, g in zip(c, got)) for c in cands)
    if ok:
        return
    # documented reordering (finding F9): bKGD/hIST/fcTL are re-emitted after PLTE, i.e. after the plain chunks
    for c in cands:
        pre = [e for e in c if e[2] == "pre"]
        post = [e for e in c if e[2] == "post"]
        reord = [e for e in pre if e[0] not in SPECIAL] + [e for e in pre if e[0] in SPECIAL] + post
        if reord == c:
            continue
        if len(reord) == len(got) and all(match(e, g) for e, g in zip(reord, got)):
            rep.violation(f"{sig_prefix}:order:special-before-plain",
                          "bKGD/hIST that preceded other ancillary chunks before IDAT are re-emitted after them (relative order not preserved)",
                          {"cases": [m["cmd"]], "in": [x[0] if isinstance(x[0], str) else x[0].decode("latin1") for x in pre], "out": [g[0].decode("latin1") for g in got if g[2] == "pre"]})
            return
    # classify
    names_e = sorted((e[0] if isinstance(e[0], str) else e[0].decode("latin1"), e[2]) for e in exp2)
    names_g = sorted((g[0].decode("latin1"), g[2]) for g in got)
    rep.violation(f"{sig_prefix}:chunks", f"ancillary chunks of the output differ from what policy '{policy}' prescribes "
                  f"(colour/depth/palette changed: {changed}, gray<->colour: {gray_moved})",
                  {"cases": [m["cmd"]], "expected": [str(x) for x in names_e], "got": [str(x) for x in names_g]})


def chunkgen_is_c2pa(d):
    def box(b):
        if len(b) < 8:
            return None
        ln = struct.unpack(">I", b[:4])[0]
        if ln < 8 or ln > len(b):
            return None
        return b[4:8], b[8:ln]
    b1 = box(d)
    if not b1 or b1[0] != b"jumb":
        return False
    b2 = box(b1[1])
    return bool(b2 and b2[0] == b"jumd" and b2[1][:4] == b"c2pa")


POLICIES = ["none", "safe", "all"]


def rand_policy(rng, present):
    r = rng.random()
    if r < 0.45:
        return rng.choice(POLICIES)
    names = list({n for n in present}) + [b"tEXt", b"pHYs", b"zzZz"]
    k = rng.randrange(0, min(4, len(names)) + 1)
    sel = rng.sample(names, k)
    kind = rng.choice(["strip", "keep"])
    sel = [n for n in sel if not (kind == "strip" and n in CRITICAL)]
    return kind + ":" + "+".join(n.hex() for n in sel)


def run(rep):
    rng = rep.rng
    quick = rep.tier == "quick"
    safe = manual_safe_list()
    rep.rule = ("well-formed PNGs carrying random multisets of ancillary chunks (known, private, duplicated; before PLTE, between PLTE and IDAT, "
                "after IDAT; sRGB/iCCP variants; C2PA and non-C2PA caBX) x strip policy in {none, safe, all, strip list, keep list} x random other options. "
                "Non-trivial = the input carries at least two ancillary chunks and the output differs from the input.")
    cs = vlib.Cases()
    n = 400 if quick else 10000
    for k in range(n):
        c2 = None
        if k % 9 == 0:
            c2 = True
        elif k % 9 == 1:
            c2 = False
        png, info = chunkgen.gen_png(rng, special_before_plain=(k % 5 == 0), c2pa=c2)
        policy = rand_policy(rng, [c[0] for c in info["chunks"]])
        o = e2e.rand_opts(rng, "any")
        o = ",".join(kv for kv in o.split(",") if not kv.startswith("strip=") and kv != "-")
        o = (o + "," if o else "") + "strip=" + policy
        cs.add(f"optlog {o} - {png.hex()}", png=png, opts=o, policy=policy, info=info, orig=png, c2pa=c2)
    out = e2e.run_pairs(rep, cs, "optimize_from_memory (chunk-rich inputs)")
    for cid, m in cs.meta.items():
        res = out[cid][0]
        rep.count("result:" + res.split(" ")[0] + (":" + res.split(" ")[1] if res.startswith("err") else ""))
        keep = keep_fn(m["policy"], safe)
        if m["c2pa"] is True and m["policy"] != "none" and keep(b"caBX"):
            if res != "err c2pa":
                rep.violation("C07:c2pa-kept", "a policy that keeps the C2PA manifest must make the call fail", {"cases": [m["cmd"]], "impl": vlib.short(res, 100)})
            continue
        if not res.startswith("ok "):
            rep.violation("C07:failed", f"optimisation of a well-formed PNG failed: {res[:60]}", {"cases": [m["cmd"]]})
            continue
        ob = bytes.fromhex(res[3:])
        if len(m["info"]["chunks"]) >= 2 and ob != m["png"]:
            rep.nontriv(m["cmd"])
        if ob == m["png"]:
            continue          # returned unchanged (C04): the policy is not applied to an unchanged file
        check_aux(rep, m, m["png"], ob, m["policy"], safe)
    rep.sample("optlog %s - <png with chunks %s>" % (cs.meta["c0"]["opts"], [c[0].decode() for c in cs.meta["c0"]["info"]["chunks"]]))
    rep.notes.append("when the result is not smaller the input bytes are returned unchanged (C04), so stripped chunks remain; the policy is checked on changed outputs")


replay = c01.replay

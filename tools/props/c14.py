"""C14 — colour-space metadata stays consistent with the pixel format.

Proof: Properties/C14.v (complete decision table of preprocess_chunks; postprocess drop rule).
Tie: optimize_from_memory replayed on the model on inputs with {sRGB, iCCP recognised / other /
undecodable, both, neither} x gray-valued or colourful pixels x policies x --ng; srgb_rendering_intent
table lookup compared function-level. Oracle: declarative re-statement of C14 on input vs output chunks."""
import os
import zlib

import chunkgen
import e2e
import imggen
import pnggen as pg
import vlib
from props import c01, c07


def run(rep):
    rng = rep.rng
    quick = rep.tier == "quick"
    impl = os.path.join(rep.info["bin"], "implrun")
    model = os.path.join(vlib.BUILD, "ocaml", "modelrun")
    safe = c07.manual_safe_list()
    rep.rule = ("colour-space variants {none, sRGB, iCCP with recognised sRGB profile id, other profile, undecodable/bad method, both} x "
                "gray-valued or colourful RGB(A) pixels x strip policies x grayscale switch. Non-trivial = input carries sRGB or iCCP "
                "and the output differs from the input. The three CRC-identified profiles are covered on the table lookup only.")
    # (a) the profile table, function level
    cs = vlib.Cases()
    for k in range(60 if quick else 600):
        kind = rng.choice(["srgb", "other", "zero-id"])
        p = bytearray(chunkgen.icc_profile(rng, "srgb" if kind == "srgb" else "other"))
        if kind == "zero-id":
            p[84:100] = bytes(16)
            if rng.random() < 0.5:
                p = p[:rng.choice([3024, 3144, 100, 101])] if len(p) > 3144 else p + bytes(rng.choice([3024, 3144]) - len(p))
        if rng.random() < 0.1:
            p = p[:rng.choice([0, 50, 67, 68, 99, 100])]
        cs.add(f"srgb_intent {pg.hx(bytes(p))}", kind=kind)
    ri = vlib.run_cases(impl, cs.lines)
    rm = vlib.run_cases(model, cs.lines)
    rep.evaluations += len(cs.lines)
    for cid, cmd, a, b in vlib.diff_results(cs, ri, rm):
        rep.corr_break("srgb_rendering_intent", vlib.short(cmd, 200), a, b)
    # (b) end to end
    cs = vlib.Cases()
    n = 300 if quick else 8000
    variants = [None, "sRGB", "iccp-srgb", "iccp-other", "iccp-undecodable", "both"]
    for k in range(n):
        cs_kind = variants[k % 6]
        ct, depth = rng.choice([(2, 8), (6, 8), (2, 16), (6, 16), (0, 8), (4, 8), (3, 8)])
        w, h = imggen.pick_dims(rng)
        cls = rng.choice(["gray", "gray", "random", "fewcolors", "opaque"])
        ncol = None
        if k % 4 == 3:
            # targeted stratum: images for which a move between grayscale and colour/indexed actually pays off
            # (few distinct gray / gray+alpha values with real alpha, gray palettes), large enough for the candidate to win
            ct, depth = rng.choice([(0, 8), (4, 8), (4, 8), (3, 8), (3, 4), (2, 8), (6, 8)])
            w, h = rng.choice([16, 17, 32, 33, 64]), rng.choice([16, 17, 32, 33, 64])
            cls = "gray" if ct in (3, 2, 6) else "fewcolors"
            ncol = rng.choice([2, 3, 4, 5])
        tok, _ = imggen.gen(rng, ct, depth, w, h, False, cls, "none", ncol)
        png, info = chunkgen.gen_png(rng, tok=tok, with_colorspace=cs_kind or "", dup=False)
        policy = rng.choice(["none", "none", "safe", "all", "strip:" + b"sRGB".hex(), "strip:" + b"iCCP".hex(), "keep:" + b"sRGB".hex(),
                             "keep:" + b"iCCP".hex(), "keep:" + b"iCCP".hex() + "+" + b"sRGB".hex(), "strip:" + b"tEXt".hex()])
        o = f"preset={rng.choice([0, 2, 3])},strip={policy},gray={rng.choice('0111')},recode={rng.choice('0111')}"
        if rng.random() < 0.2:
            o += ",force=1"
        cs.add(f"optlog {o} - {png.hex()}", png=png, opts=o, policy=policy, info=info, orig=png, cs=cs_kind)
    out = e2e.run_pairs(rep, cs, "optimize_from_memory (colour-space chunks)")
    for cid, m in cs.meta.items():
        res = out[cid][0]
        rep.count(f"{m['cs']}:{res.split(' ')[0]}")
        if not res.startswith("ok "):
            rep.violation("C14:failed", f"optimisation failed: {res[:60]}", {"cases": [m["cmd"]]})
            continue
        ob = bytes.fromhex(res[3:])
        if ob == m["png"]:
            continue
        if m["cs"]:
            rep.nontriv(m["cmd"])
        ic, oc = pg.read_chunks(m["png"]), pg.read_chunks(ob)
        si, so = c07.colour_sig(ic), c07.colour_sig(oc)
        gray_moved = (si[1] in (0, 4)) != (so[1] in (0, 4))
        in_iccp = [d for n_, d in ic if n_ == b"iCCP"]
        in_srgb = [d for n_, d in ic if n_ == b"sRGB"]
        out_iccp = [d for n_, d in oc if n_ == b"iCCP"]
        out_srgb = [d for n_, d in oc if n_ == b"sRGB"]
        keep = c07.keep_fn(m["policy"], safe)
        stripping = m["policy"] != "none"

        def bad(sig, what):
            rep.violation(sig, what + f" (options {m['opts']}; input colour space {m['cs']})", {"cases": [m["cmd"]],
                          "in_type": list(si[:2]), "out_type": list(so[:2])})
        if out_iccp and gray_moved:
            bad("C14:icc-kept-but-gray-changed", "the image moved between grayscale and colour while its ICC profile is kept")
        if gray_moved and (out_iccp or out_srgb):
            bad("C14:colourspace-after-gray-change", "the image moved between grayscale and colour but still carries sRGB/iCCP")
        if gray_moved and in_srgb and not in_iccp and not stripping:
            bad("C14:srgb-converted-without-strip", "an image tagged sRGB was converted although stripping is disabled")
        if in_iccp and keep(b"iCCP"):
            prof = c07.extract_profile(in_iccp[0])
            recog0 = prof is not None and len(prof) >= 100 and prof[84:100] in chunkgen.SRGB_IDS
            removal_allowed = stripping and keep(b"sRGB") and (bool(in_srgb) or recog0)
            if gray_moved and not removal_allowed:
                bad("C14:converted-despite-icc", "the image was converted between grayscale and colour although its ICC profile is to be kept")
            replaced = not out_iccp and out_srgb and not gray_moved and (len(out_srgb) > len([d for d in in_srgb if keep(b"sRGB")]) )
            dropped_for_srgb = not out_iccp and in_srgb and not gray_moved
            if out_iccp:
                if out_iccp[0] != in_iccp[0] and c07.extract_profile(out_iccp[0]) != prof:
                    bad("C14:profile-altered", "the recompressed iCCP chunk does not inflate to the identical profile")
            elif not gray_moved:
                allowed = stripping and keep(b"sRGB")
                if not allowed:
                    bad("C14:icc-removed-not-allowed", "the ICC profile was replaced/dropped although stripping is disabled or sRGB chunks are not kept")
                elif not in_srgb:
                    recog = prof is not None and len(prof) >= 100 and prof[84:100] in chunkgen.SRGB_IDS
                    if not recog:
                        bad("C14:icc-replaced-unrecognised", "an ICC profile that is not a recognised sRGB profile was replaced")
                    elif not out_srgb or out_srgb[0] != bytes([prof[67]]):
                        bad("C14:wrong-intent", "the sRGB chunk replacing the profile does not carry the profile's rendering intent")
    rep.sample("optlog %s - <png, colour space %s>" % (cs.meta["c2"]["opts"], cs.meta["c2"]["cs"]))

    # (c) the raw-image entry point: attached ICC profile / sRGB chunk on gray-valued truecolour samples
    import struct
    rc = vlib.Cases()
    for k in range(40 if quick else 600):
        ct, depth = rng.choice([(2, 8), (6, 8), (2, 16), (6, 16)])
        w, h = rng.choice([(16, 16), (24, 10), (9, 9)])
        tok, _ = imggen.gen(rng, ct, depth, w, h, False, "gray" if k % 4 else "random", "none")
        kind = rng.choice(["icc-srgb", "icc-other", "srgb-chunk"])
        if kind == "srgb-chunk":
            extra = f"{b'sRGB'.hex()}:{bytes([rng.randrange(4)]).hex()}"
        else:
            extra = "icc:" + chunkgen.icc_profile(rng, "srgb" if kind == "icc-srgb" else "other").hex()
        pol = rng.choice(["none", "none", "safe", "keep:" + b"iCCP".hex(), "keep:" + b"sRGB".hex() + "+" + b"iCCP".hex()])
        o = f"preset={rng.choice([0, 2, 3])},strip={pol}"
        rc.add(f"rawlog {o} {tok} {extra}", kind=kind, pol=pol, tok=tok)
    rri = vlib.run_cases(impl, rc.lines)
    mlines = []
    rres = {}
    for line in rc.lines:
        cid, _, rest = line.partition(" ")
        r, recs = e2e.split_result(rri.get(cid))
        rres[cid] = r
        mlines.append(f"{cid} raw_replay{rest[len('rawlog'):]} {recs}")
    rrm = vlib.run_cases(model, mlines)
    rep.evaluations += len(rc.lines)
    for cid, m in rc.meta.items():
        mr = (rrm.get(cid) or "").partition(" #unused-deflate=")[0]
        if vlib.canon(rres[cid]) != vlib.canon(mr):
            rep.corr_break("RawImage API with colour-space metadata", vlib.short(m["cmd"], 300), vlib.short(rres[cid], 200), vlib.short(rrm.get(cid), 200))
        r = rres[cid]
        if not r.startswith("ok "):
            continue
        rep.nontriv(m["cmd"])
        oc = pg.read_chunks(bytes.fromhex(r[3:]))
        oct_ = struct.unpack(">IIBBBBB", oc[0][1])[3]
        names = [n_ for n_, _ in oc]
        keep = c07.keep_fn(m["pol"], safe)
        gray_moved = oct_ in (0, 4)
        has_cs = b"iCCP" in names or b"sRGB" in names
        if gray_moved and has_cs:
            rep.violation("C14:colourspace-after-gray-change", "raw image: converted to grayscale but still carries sRGB/iCCP", {"cases": [m["cmd"]]})
        if gray_moved and m["kind"] == "icc-other" and keep(b"iCCP"):
            rep.violation("C14:converted-despite-icc", "raw image: converted to grayscale although its (non-sRGB) ICC profile is to be kept", {"cases": [m["cmd"]]})
        if gray_moved and m["kind"] == "srgb-chunk" and m["pol"] == "none":
            rep.violation("C14:srgb-converted-without-strip", "raw image tagged sRGB was converted to grayscale although stripping is disabled", {"cases": [m["cmd"]]})
        if gray_moved and m["kind"] == "icc-srgb" and keep(b"iCCP") and not (m["pol"] != "none" and keep(b"sRGB")):
            rep.violation("C14:converted-despite-icc", "raw image: converted to grayscale although its ICC profile is to be kept", {"cases": [m["cmd"]]})


replay = c01.replay

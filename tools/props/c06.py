"""C06 — deterministic output regardless of threads, scheduling and the parallel feature.

Proof: Properties/C06.v (every complete schedule of the evaluator LTS, and the sequential fold of the
non-parallel build, yield best_of = the key-minimal eligible trial).
Tie: the real Evaluator in a real rayon pool under FORCED schedules (time-slotted sched points of the
`verif` hooks); the observed Read/Publish order is replayed on the model LTS (trace validation:
survivors and winner must match). Oracle: byte-identical results across all schedules, across pool
sizes 1..16, nested pools, and the non-parallel build."""
import itertools
import os

import e2e
import imggen
import pnggen as pg
import vlib


def interleavings(trials):
    """all orders of R_i/P_i events with R_i before P_i"""
    evs = [("R", t) for t in trials] + [("P", t) for t in trials]
    out = []
    for perm in itertools.permutations(evs):
        pos = {e: i for i, e in enumerate(perm)}
        if all(pos[("R", t)] < pos[("P", t)] for t in trials):
            out.append(perm)
    return out


def tie_images(rng):
    """small images on which several (image, filter) trials produce equal sizes"""
    kind = rng.choice(["const", "const2", "gradient", "twocolor"])
    w, h = rng.choice([(4, 4), (8, 2), (5, 3), (8, 8)])
    if kind == "const":
        v = rng.randrange(256)
        base = [[(v,)] * w for _ in range(h)]
    elif kind == "const2":
        base = [[(0,)] * w for _ in range(h)]
    elif kind == "gradient":
        base = [[((x * 3 + y) % 256,) for x in range(w)] for y in range(h)]
    else:
        a, b = rng.randrange(256), rng.randrange(256)
        base = [[(rng.choice([a, b]),) for x in range(w)] for y in range(h)]
    g8 = pg.img_token(w, h, 0, 8, False, None, pg.pack_image(base, w, h, 0, 8, False))
    vals = sorted({p[0] for row in base for p in row})
    pal = [(v, v, v, 255) for v in vals]
    idx = [[(vals.index(p[0]),) for p in row] for row in base]
    p8 = pg.img_token(w, h, 3, 8, False, pal, pg.pack_image(idx, w, h, 3, 8, False))
    rgb = pg.img_token(w, h, 2, 8, False, None, pg.pack_image([[(p[0],) * 3 for p in row] for row in base], w, h, 2, 8, False))
    return [g8, p8, rgb, g8]


def apng_bad_frame(rng, kind="bad-early"):
    """RGB 8-bit animation, 10 to 14 full-size frames of smooth data compressed at level 0; kind "bad-early": one early frame holds a
    valid zlib stream with too few rows (PngImage::new rejects it); "unshrinkable-first" / "-middle": one frame is a single pixel whose
    12-byte stream cannot shrink, so that its recompression FAILS to improve while all the others succeed"""
    import struct
    import zlib
    import chunkgen
    w, h = rng.choice([(16, 16), (24, 12), (20, 20)])
    nfr = rng.randrange(10, 15)
    bad = rng.randrange(1, 3)
    if kind != "bad-early":
        bad = -1
    tiny = {"unshrinkable-first": 0, "unshrinkable-middle": nfr // 2}.get(kind, -1)

    def frame_stream(short=False):
        base = rng.randrange(256)
        rows = bytearray()
        for y in range(h // 2 if short else h):
            rows.append(0)
            for x in range(w):
                rows += bytes(((base + x + y) & 255, (base + 2 * x) & 255, (base + y) & 255))
        return zlib.compress(bytes(rows), 0)

    out = bytearray(pg.SIG)
    out += pg.chunk("IHDR", pg.ihdr_bytes(w, h, 8, 2, False))
    out += pg.chunk("acTL", struct.pack(">II", nfr + 1, 0))
    seq = 0
    out += pg.chunk("fcTL", chunkgen.fctl(seq, w, h, 0, 0, 1, 10, 0, 0))
    seq += 1
    out += pg.chunk("IDAT", frame_stream())
    for i in range(nfr):
        if i == tiny:
            out += pg.chunk("fcTL", chunkgen.fctl(seq, 1, 1, 0, 0, 1, 10, 0, 0))
            seq += 1
            out += pg.chunk("fdAT", struct.pack(">I", seq) + zlib.compress(bytes([0, rng.randrange(256), rng.randrange(256), rng.randrange(256)]), 9))
            seq += 1
            continue
        out += pg.chunk("fcTL", chunkgen.fctl(seq, w, h, 0, 0, 1, 10, 0, 0))
        seq += 1
        out += pg.chunk("fdAT", struct.pack(">I", seq) + frame_stream(short=(i == bad)))
        seq += 1
    out += pg.chunk("IEND", b"")
    return bytes(out)


def run(rep):
    rng = rep.rng
    quick = rep.tier == "quick"
    impl = os.path.join(rep.info["bin"], "implrun")
    model = os.path.join(vlib.BUILD, "ocaml", "modelrun")
    # the non-parallel build of the harness is rebuilt from /repo's current working tree on every run (cargo decides what changed)
    try:
        with vlib.Lock():
            nopar = os.path.join(vlib.build_harness(parallel=False), "implrun")
    except vlib.BuildError as ex:
        rep.notes.append("non-parallel harness build failed: " + str(ex)[-300:])
        nopar = os.path.join(vlib.BUILD, "cargo-nopar", "debug", "no-such-binary")
    rep.rule = ("(a) the real Evaluator under every interleaving of Read/Publish events of <= 3 trials (90 schedules per trial set) and "
                "random interleavings of up to 8 trials, on tie-prone inputs; observed order replayed on the model LTS; "
                "(b) optimize_from_memory under pool sizes 1,2,3,5,16, nested parallel iterator, and the non-parallel build. "
                "Non-trivial = schedule in which the observed event order differs from program order or two trials tie on size.")
    # ---------------- (a) forced schedules
    cs = vlib.Cases()
    sets = 3 if quick else 12
    for s in range(sets):
        imgs = tie_images(rng)
        # three trials: either 3 images x 1 filter or 1 image x 3 filters …
        shape = rng.choice(["3x1", "1x3", "2x2"]) if not quick else ["3x1", "1x3", "2x2"][s % 3]
        if shape == "3x1":
            images, filters = imgs[:3], [rng.choice([0, 1, 2, 4, 7])]
        elif shape == "1x3":
            images, filters = [imgs[0]], rng.sample([0, 1, 2, 3, 4, 5, 6, 7, 8], 3)
        else:
            images, filters = imgs[:2], rng.sample([0, 1, 2, 7], 2)
        trials = [(n, f) for n in range(len(images)) for f in filters]
        zc = rng.choice([1, 5, 7, 9])
        init = rng.choice(["-", "-", "60", "40"])
        fin = rng.choice(["0", "1"])
        if len(trials) <= 3:
            scheds = interleavings(trials)
        else:
            allev = [("R", t) for t in trials] + [("P", t) for t in trials]
            scheds = []
            for _ in range(40 if quick else 300):
                perm = allev[:]
                rng.shuffle(perm)
                pos = {e: i for i, e in enumerate(perm)}
                # repair: put each P after its R
                fixed = sorted(perm, key=lambda e: (max(pos[e], pos[("R", e[1])] + 0.5) if e[0] == "P" else pos[e]))
                scheds.append(tuple(fixed))
        for sched in scheds:
            slots = ",".join(f"{k}{n}.{f}={i}" for i, (k, (n, f)) in enumerate(sched))
            cs.add(f"evalrun {len(trials) + 2} zc={zc} 0 {fin} {init} {'+'.join(map(str, filters))} {slots} {' '.join(images)}",
                   set=s, sched=sched, images=images, filters=filters, zc=zc, fin=fin, init=init, trials=trials)
    ri = vlib.run_cases(impl, cs.lines, shards=4)
    rep.evaluations += len(cs.lines)
    mlines = []
    winners = {}
    for line in cs.lines:
        cid = line.split(" ", 1)[0]
        m = cs.meta[cid]
        res, recs = e2e.split_result(ri.get(cid))
        recl = [r.strip().split(" ") for r in recs.split("|") if r.strip()]
        order = next((r[1] for r in recl if r[0] == "O"), "-")
        m["order"] = order
        m["res"] = res
        m["survived"] = sorted(f"{r[2]}.{r[3]}" for r in recl if r[0] == "T" and r[4] != "-")
        mlines.append(f"{cid} evalmodel zc={m['zc']} 0 {m['fin']} {m['init']} {'+'.join(map(str, m['filters']))} {order} "
                      f"{len(m['images'])} {' '.join(m['images'])} {recs}")
        winners.setdefault(m["set"], {}).setdefault(res, []).append(cid)
        # non-trivial: observed order is not program order
        prog = ",".join(f"{k}0.{n}.{f}" for (n, f) in m["trials"] for k in ("R", "P"))
        if order != prog:
            rep.nontriv((m["set"], order))
    rm = vlib.run_cases(model, mlines)
    for cid, m in cs.meta.items():
        r = rm.get(cid, "")
        rep.count("evalrun:" + m["res"].split(" ")[0])
        if not r.startswith("ok "):
            rep.corr_break("evaluator LTS", vlib.short(m["cmd"], 300), vlib.short(m["res"], 200), vlib.short(r, 300))
            continue
        f = dict(kv.split("=", 1) for kv in r[3:].split(" ") if "=" in kv)
        w = m["res"].split(" ")
        impl_w = f"{w[1]}.{w[2]}" if w[0] == "some" else "none"
        if f.get("lts") != impl_w or f.get("complete") != "true":
            rep.corr_break("evaluator LTS (winner under the observed schedule)", vlib.short(m["cmd"], 400), impl_w + " order=" + m["order"], vlib.short(r, 400))
        if f.get("received", "") != ",".join(m["survived"]):
            rep.corr_break("evaluator LTS (which trials survive under the observed schedule)", vlib.short(m["cmd"], 400),
                           ",".join(m["survived"]) + " order=" + m["order"], vlib.short(r, 400))
        if f.get("best") != impl_w:
            rep.violation("C06:schedule-dependent-winner", f"under schedule {m['order']} the evaluator returned {impl_w} but the schedule-free minimum is {f.get('best')}",
                          {"cases": [m["cmd"]], "impl": vlib.short(m["res"], 300), "model": r})
    for s, byres in winners.items():
        if len(byres) > 1:
            keys = list(byres)
            a, b = byres[keys[0]][0], byres[keys[1]][0]
            rep.violation("C06:schedules-disagree", "two schedules of the same trials gave different results",
                          {"cases": [cs.meta[a]["cmd"], cs.meta[b]["cmd"]], "orders": [cs.meta[a]["order"], cs.meta[b]["order"]],
                           "results": [vlib.short(keys[0], 200), vlib.short(keys[1], 200)]})
    rep.sample(vlib.short(cs.lines[7], 260) + " -> order " + cs.meta["c7"]["order"])
    rep.extra["schedules_forced"] = len(cs.lines)

    # ---------------- (b) pool sizes, nested pool, non-parallel build
    base = vlib.Cases()
    n = 40 if quick else 400
    for k in range(n):
        if k % 2 == 0:
            tok = tie_images(rng)[rng.randrange(3)]
        else:
            ct, depth = pg.LEGAL[k % 15]
            w, h = imggen.pick_dims(rng)
            tok, _ = imggen.gen(rng, ct, depth, w, h, rng.random() < 0.3, rng.choice(imggen.CLASSES), rng.choice(imggen.KEY_MODES))
        png = e2e.png_from_token(rng, tok)
        o = e2e.rand_opts(rng, "any")
        if k % 5 == 3:
            # size ties between candidates of different kinds (8-bit luma-sorted vs 4-bit, ...): tiny paletted images, cheap presets
            ncol = rng.choice([3, 5, 9, 16, 17])
            w, h = rng.choice([(5, 15), (4, 9), (7, 5), (3, 10), (6, 6)])
            pal = [tuple(rng.randrange(256) for _ in range(3)) + (255,) for _ in range(ncol + rng.choice([0, 1, 2]))]
            idx = [[(rng.randrange(ncol),) for x in range(w)] for y in range(h)]
            tok = pg.img_token(w, h, 3, 8, False, pal, pg.pack_image(idx, w, h, 3, 8, False))
            png = e2e.png_from_token(rng, tok, simple=True)
            o = f"preset={rng.choice([0, 1, 2, 2, 3])}"
        elif k % 5 == 4:
            # animations in which one later frame cannot be decoded while the others can be recompressed: the outcome (an error)
            # must not depend on which frame a worker happened to reach first
            import chunkgen
            import zlib
            if (k // 5) % 2 == 0:
                # purpose-built: many full-size frames stored uncompressed (each certainly shrinks), the undecodable one early, so
                # that workers which start further down the frame list finish frames a single worker never reaches
                png = apng_bad_frame(rng, ["bad-early", "unshrinkable-first", "unshrinkable-middle", "bad-early"][(k // 10) % 4])
                o = f"preset={rng.choice([1, 2, 3])}"
            for _ in range(0 if (k // 5) % 2 == 0 else 6):
                a = chunkgen.gen_apng(rng, extra_frames=rng.choice([3, 4]), split=1)[0]
                ch = e2e.chunk_list(a)
                fd = [i for i, c in enumerate(ch) if c[4:8] == b"fdAT"]
                if len(fd) >= 2:
                    i = fd[rng.randrange(1, len(fd))]
                    body = ch[i][8:-4]
                    try:
                        raw = zlib.decompress(body[4:])
                    except zlib.error:
                        continue
                    bad = body[:4] + zlib.compress(raw[: max(1, len(raw) // 2)], 1)      # a valid stream with too few rows
                    ch[i] = pg.chunk("fdAT", bad)
                    png = a[:8] + b"".join(ch)
                    o = f"preset={rng.choice([1, 2, 3])}"
                    break
        base.add(f"opt {o} {png.hex()}", o=o, png=png)
    variants = {"default-pool": (impl, lambda m: f"opt {m['o']} {m['png'].hex()}")}
    for t in (1, 2, 3, 5, 16):
        variants[f"threads={t}"] = (impl, lambda m, t=t: f"optthreads {t} {m['o']} {m['png'].hex()}")
    variants["nested(3 threads, 4 copies)"] = (impl, lambda m: f"optnested 3 4 {m['o']} {m['png'].hex()}")
    variants["nested(1 thread, 3 copies)"] = (impl, lambda m: f"optnested 1 3 {m['o']} {m['png'].hex()}")
    variants["repeat"] = (impl, lambda m: f"opt {m['o']} {m['png'].hex()}")
    if os.path.exists(nopar):
        variants["non-parallel build"] = (nopar, lambda m: f"opt {m['o']} {m['png'].hex()}")
    else:
        rep.notes.append("non-parallel harness build missing; that comparison was skipped")
    results = {}
    for name, (exe, mk) in variants.items():
        lines = [f"{cid} {mk(m)}" for cid, m in base.meta.items()]
        results[name] = vlib.run_cases(exe, lines, shards=8)
        rep.evaluations += len(lines)
    ref = results["default-pool"]
    for name, r in results.items():
        for cid, m in base.meta.items():
            if r.get(cid) != ref.get(cid):
                rep.violation("C06:output-differs", f"output bytes differ between the default pool and '{name}'",
                              {"cases": [m["cmd"]], "variant": name, "default": vlib.short(ref.get(cid), 300), "other": vlib.short(r.get(cid), 300)})
    for cid, m in base.meta.items():
        if ref.get(cid, "").startswith("ok ") and ref[cid][3:] != m["png"].hex():
            rep.nontriv(("e2e", cid))
    # parallel build vs non-parallel build on many tiny few-colour images (exact size ties between candidates are common there and
    # the two collectors must resolve them by the same fixed key, not by evaluation order)
    if os.path.exists(nopar):
        ties = vlib.Cases()
        for k in range(120 if quick else 1500):
            ncol = rng.choice([2, 3, 4, 5, 9, 16, 17, 30])
            w, h = rng.choice([(5, 15), (4, 9), (7, 5), (3, 10), (6, 6), (12, 12), (24, 8), (16, 16)])
            ct = rng.choice([3, 3, 3, 0, 2])
            if ct == 3:
                pal = [tuple(rng.randrange(256) for _ in range(3)) + (255,) for _ in range(ncol + rng.choice([0, 1]))]
                idx = [[(rng.randrange(ncol),) for x in range(w)] for y in range(h)]
                tok = pg.img_token(w, h, 3, 8, False, pal, pg.pack_image(idx, w, h, 3, 8, False))
            else:
                tok, _ = imggen.gen(rng, ct, 8, w, h, False, "fewcolors", "none", ncol)
            png = e2e.png_from_token(rng, tok, simple=True)
            o = f"preset={rng.choice([0, 1, 2, 2, 4])}"
            ties.add(f"opt {o} {png.hex()}", o=o, png=png)
        ra = vlib.run_cases(impl, ties.lines, shards=8)
        rb = vlib.run_cases(nopar, ties.lines, shards=8)
        rep.evaluations += 2 * len(ties.lines)
        for cid, m in ties.meta.items():
            if ra.get(cid) != rb.get(cid):
                rep.violation("C06:output-differs", "output bytes differ between the parallel and the non-parallel build (tiny few-colour image)",
                              {"cases": [m["cmd"]], "variant": "non-parallel build", "default": vlib.short(ra.get(cid), 300), "other": vlib.short(rb.get(cid), 300)})
            else:
                rep.count("builds-agree")
    # images large enough for size thresholds and long-running trials: a decision that reads the evaluator's CURRENT best while trials are
    # still running (or compares against what another worker has finished so far) shows up as a difference between the parallel
    # build, a single worker and the non-parallel build only on such inputs
    big = vlib.Cases()
    for kind in (("idx-gray-noise", "grad") if quick else ("idx-gray-noise", "grad", "idx-gray-noise", "rgb-noise")):
        w, h = 800, 600
        if kind == "idx-gray-noise":
            perm = list(range(256))
            rng.shuffle(perm)
            pal = [(g, g, g, 255) for g in perm]
            data = bytes(rng.randrange(256) for _ in range(w * h))
            tok = pg.img_token(w, h, 3, 8, False, pal, data)
        elif kind == "rgb-noise":
            tok = pg.img_token(w // 2, h // 2, 2, 8, False, None, bytes(rng.randrange(256) for _ in range(w * h * 3 // 4)))
        else:
            tok = pg.img_token(w, h, 0, 8, False, None, bytes(((x * 3 + y * 5) ^ (x * y >> 6)) & 255 for y in range(h) for x in range(w)))
        png = e2e.png_from_token(rng, tok, simple=True)
        o = "preset=3"
        big.add(f"opt {o} {png.hex()}", o=o, png=png, kind=kind)
    bv = {"default-pool": (impl, lambda m: f"opt {m['o']} {m['png'].hex()}"), "threads=1": (impl, lambda m: f"optthreads 1 {m['o']} {m['png'].hex()}"),
          "threads=16": (impl, lambda m: f"optthreads 16 {m['o']} {m['png'].hex()}")}
    if os.path.exists(nopar):
        bv["non-parallel build"] = (nopar, lambda m: f"opt {m['o']} {m['png'].hex()}")
    bres = {}
    for name, (exe, mk) in bv.items():
        bres[name] = vlib.run_cases(exe, [f"{cid} {mk(m)}" for cid, m in big.meta.items()], shards=4)
        rep.evaluations += len(big.meta)
    for name, r in bres.items():
        for cid, m in big.meta.items():
            if r.get(cid) != bres["default-pool"].get(cid):
                rep.violation("C06:output-differs", f"output bytes of a large image ({m['kind']}, 800x600, preset 3) differ between the default pool and '{name}'",
                              {"cases": [m["cmd"]], "variant": name, "default": vlib.short(bres["default-pool"].get(cid), 200), "other": vlib.short(r.get(cid), 200)})
            else:
                rep.count("large-agree")
    rep.extra["variants"] = list(variants)
    rep.assumptions.append("interleavings inside libdeflate/zopfli/rayon finer than the two hook points per trial are not forced (atomics are SeqCst; each hook-delimited step touches shared state through get / fetch_min / send only)")


def replay(payload, info):
    impl = os.path.join(info["bin"], "implrun")
    lines = [f"r{i} {c}" for i, c in enumerate(payload.get("cases", []))]
    r = vlib.run_cases(impl, lines, shards=1)
    print("impl :", {k: vlib.short(v, 400) for k, v in r.items()})
    print("recorded:", {k: vlib.short(v, 500) for k, v in payload.items() if k not in ("cases",)})
    return 0

"""C03 — alpha optimisation may only change colour under fully transparent pixels.

Tie: alpha-variant reductions and filter_line/filter_image with alpha_bytes > 0, real code vs extracted
model; end to end with --alpha. Oracle: extracted spec decode of input and output must be
alpha-equivalent (same alpha everywhere, same colour wherever alpha != 0)."""
import os

import e2e
import imggen
import pnggen as pg
import redcheck
import vlib
from props import c01


def transparent_runs(rng, w, h, ct, depth):
    """pixels with runs of fully transparent pixels at row starts/ends and zero-alpha-byte traps"""
    mx = (1 << depth) - 1
    ch = pg.CHANNELS[ct]
    rows = []
    for y in range(h):
        row = []
        x = 0
        while x < w:
            run = rng.choice([1, 1, 2, 3, 5])
            kind = rng.choice(["t", "o", "p", "z"])
            for _ in range(min(run, w - x)):
                px = [rng.randrange(mx + 1) for _ in range(ch)]
                if kind == "t":
                    px[-1] = 0
                elif kind == "o":
                    px[-1] = mx
                elif kind == "z" and depth == 16:
                    px[-1] = rng.choice([0x00ff, 0xff00, 0x0100])      # one zero byte: NOT transparent
                row.append(tuple(px))
                x += 1
        rows.append(row)
    return rows


def filter_alpha(rep, n, sig):
    """filter_image with optimize_alpha on images with runs of transparent pixels: model correspondence and spec decode"""
    rng = rep.rng
    impl = os.path.join(rep.info["bin"], "implrun")
    model = os.path.join(vlib.BUILD, "ocaml", "modelrun")
    cs = vlib.Cases()
    for k in range(n):
        ct, depth = rng.choice([(4, 8), (4, 16), (6, 8), (6, 16)])
        w, h = imggen.pick_dims(rng)
        il = rng.random() < 0.4
        px = transparent_runs(rng, w, h, ct, depth)
        data = pg.pack_image(px, w, h, ct, depth, il)
        tok = pg.img_token(w, h, ct, depth, il, None, data)
        for f in range(10):
            cs.add(f"filter_image {f} 1 {tok}", f=f, tok=tok, w=w, h=h, ct=ct, depth=depth, il=il, bpp=depth * pg.CHANNELS[ct])
    ri = vlib.run_cases(impl, cs.lines)
    mlines = []
    orc = vlib.Cases()
    for line in cs.lines:
        cid = line.split(" ", 1)[0]
        m = cs.meta[cid]
        r = ri.get(cid, "")
        if r.startswith("ok "):
            out = pg.unhx(r[3:])
            rows = []
            off = 0
            for p, _, nb in pg.row_layout(m["w"], m["h"], m["bpp"], m["il"]):
                rows.append(out[off:off + nb + 1])
                off += nb + 1
            if m["f"] == 9:
                line += " brute=" + "".join(str(min(rw[0], 9)) if rw else "0" for rw in rows)
            stok = pg.img_token(m["w"], m["h"], m["ct"], m["depth"], m["il"], None, out)
            # the input as a filter-type-0 stream
            w_, h_, ct_, d_, il_, _, data = pg.parse_img_token(m["tok"])
            raw_rows = pg.split_rows(data, w_, h_, m["bpp"], il_)
            itok = pg.img_token(w_, h_, ct_, d_, il_, None, b"".join(b"\0" + rw for _, rw in raw_rows))
            orc.add(f"spec_rel_stream {itok} {stok}", src=cid)
            if b"".join(rw[1:] for rw in rows) != b"".join(rw for _, rw in raw_rows) or any(rw[0] for rw in rows):
                rep.nontriv(m["cmd"])
        mlines.append(line)
    rm = vlib.run_cases(model, mlines)
    ro = vlib.run_cases(model, orc.lines)
    rep.evaluations += len(cs.lines)
    for cid, cmd, a, b in vlib.diff_results(cs, ri, rm):
        rep.corr_break("filter_image with optimize_alpha", cmd, a, b)
    for oid, m in orc.meta.items():
        if ro.get(oid) not in ("eq", "alphaeq"):
            src = cs.meta[m["src"]]
            rep.violation(f"{sig}:filter-alpha:{src['f']}", f"filter strategy {src['f']} with alpha optimisation: the written rows do not decode (specification) to the input up to the colour of fully transparent pixels (relation {ro.get(oid)})",
                          {"cases": [src["cmd"]], "impl": vlib.short(ri.get(m["src"]), 800), "relation": ro.get(oid)})
        rep.count("filter-alpha:" + str(ro.get(oid)))

    return cs


def run(rep):
    rng = rep.rng
    quick = rep.tier == "quick"
    impl = os.path.join(rep.info["bin"], "implrun")
    model = os.path.join(vlib.BUILD, "ocaml", "modelrun")
    rep.rule = ("(i) alpha variants of the reductions on structured images; (ii) filter_image with optimize_alpha on images with runs "
                "of fully transparent pixels at row starts/ends and first rows of passes (10 strategies), decoded by the spec; "
                "(iii) end to end with --alpha. Non-trivial = the implementation changed at least one byte.")
    redcheck.run_reductions(rep, redcheck.ALPHA, 300 if quick else 4000, "alpha", "C03", big=not quick)

    cs = filter_alpha(rep, 40 if quick else 500, "C03")

    # (iii) end to end with --alpha
    cs2 = c01.gen_cases(rep, 300 if quick else 8000, "alpha")
    # bias towards images with alpha
    out = e2e.run_pairs(rep, cs2, "optimize_from_memory --alpha")
    c01.oracle(rep, cs2, out, lambda m: "alphaeq", "C03", "with alpha optimisation the output differs from the input in alpha or in the colour of a non-transparent pixel")
    rep.sample(vlib.short(cs.lines[1], 220))


replay = c01.replay

#!/usr/bin/env python3
"""Process seeded mutants produced by the sub-agents: seedqueue.py C03:1 C03:2 ...
For each: (1) apply in the agent's scratch worktree and run the project's test suite there, (2) apply to /repo,
run the property's check, undo; (3) store patch, demonstration and meta.json under /verif/seeded/<id>/mutant<k>/."""
import json
import os
import shutil
import subprocess
import sys


def sh(cmd, **kw):
    return subprocess.run(cmd, stdout=subprocess.PIPE, stderr=subprocess.STDOUT, text=True, **kw)


for item in sys.argv[1:]:
    pid, k = item.split(":")
    extra = []
    if "+" in k:
        k, more = k.split("+", 1)
        extra = more.split("+")
    src = f"/tmp/seed_{pid}_out"
    wt = f"/tmp/seed_{pid}"
    dst = f"/verif/seeded/{pid}/mutant{k}"
    os.makedirs(dst, exist_ok=True)
    shutil.copy(f"{src}/mutant{k}.diff", f"{dst}/patch.diff")
    if os.path.isdir(f"{src}/mutant{k}_demo"):
        shutil.rmtree(f"{dst}/demo", ignore_errors=True)
        shutil.copytree(f"{src}/mutant{k}_demo", f"{dst}/demo")
    meta = {}
    try:
        meta = json.load(open(f"{src}/mutant{k}.json"))
    except Exception as e:
        meta = {"summary": f"(agent metadata unreadable: {e})"}
    # 1. test suite on the patched scratch worktree
    tests = {"ran": False}
    prev = None
    try:
        prev = json.load(open(f"{dst}/meta.json"))["tests_on_patched_tree"]
    except Exception:
        pass
    if prev and prev.get("ran"):
        tests = prev
    elif os.path.isdir(wt):
        sh(["git", "-C", wt, "checkout", "--", "."])
        r = sh(["git", "-C", wt, "apply", f"{dst}/patch.diff"])
        if r.returncode == 0:
            env = dict(os.environ, CARGO_TARGET_DIR="/tmp/seed_target", CARGO_NET_OFFLINE="true")
            r = sh(["cargo", "test", "--workspace", "--no-fail-fast", "--offline"], cwd=wt, env=env, timeout=3600)
            passed = failed = 0
            for line in r.stdout.splitlines():
                if line.startswith("test result:"):
                    parts = line.split()
                    passed += int(parts[3]); failed += int(parts[5])
            tests = {"ran": True, "passed": passed, "failed": failed, "exit": r.returncode}
        else:
            tests = {"ran": False, "apply_error": r.stdout[-300:]}
        sh(["git", "-C", wt, "checkout", "--", "."])
    # 2. the checks
    out = f"{dst}/detection.json"
    r = sh(["/verif/tools/seedrun.py", f"{dst}/patch.diff", out, pid] + extra, timeout=14400)
    det = json.load(open(out)) if os.path.exists(out) else {"error": r.stdout[-500:]}
    meta_out = {"property": pid, "mutant": int(k), "agent": meta, "tests_on_patched_tree": tests,
                "detected_by": det.get("detected_by"), "checks": det.get("checks")}
    json.dump(meta_out, open(f"{dst}/meta.json", "w"), indent=1)
    print(item, "tests", tests, "detected_by", det.get("detected_by"), flush=True)

#!/usr/bin/env python3
"""Re-run every stored seeded change against the check(s) that are recorded as catching it (regression run after the checks
changed): seeded/<id>/mutant<k>/meta.json detected_by -> run those checks, report which still fire. Never commits in /repo."""
import glob
import json
import os
import subprocess
import sys

out = {}
skip = set(sys.argv[1:])          # e.g. C01 C02: properties whose mutants were already re-run
only = set(os.environ.get("SEED_ONLY", "").split()) or None      # e.g. SEED_ONLY="C05 C09": only these properties
maxk = int(os.environ.get("SEED_MAXK", "99"))                    # only mutants numbered <= this
for meta in sorted(glob.glob("/verif/seeded/C*/mutant*/meta.json")):
    if os.path.basename(os.path.dirname(os.path.dirname(meta))) in skip:
        continue
    if only and os.path.basename(os.path.dirname(os.path.dirname(meta))) not in only:
        continue
    if int(os.path.basename(os.path.dirname(meta)).replace("mutant", "")) > maxk:
        continue
    d = os.path.dirname(meta)
    m = json.load(open(meta))
    pid = os.path.basename(os.path.dirname(d))
    k = os.path.basename(d)
    props = m.get("detected_by") or [pid]
    first = props[0] if pid not in props else pid
    r = subprocess.run([sys.executable, "/verif/tools/seedrun.py", os.path.join(d, "patch.diff"), f"/tmp/rerun_{pid}_{k}.json", first],
                       stdout=subprocess.PIPE, stderr=subprocess.STDOUT, text=True)
    try:
        res = json.load(open(f"/tmp/rerun_{pid}_{k}.json"))
        det = res.get("detected_by", [])
    except Exception:
        det = ["?"]
    print(pid, k, "check", first, "->", det, flush=True)
    out[f"{pid}/{k}"] = det
print("UNDETECTED:", [x for x, v in out.items() if not v])

#!/usr/bin/env python3
"""Apply a seeded patch to /repo, run the given property checks, undo the patch, and record which fired.
usage: seedrun.py <patch.diff> <out.json> <Cxx> [<Cyy> ...] [--tier quick|thorough]
Never commits anything in /repo; always restores the working tree."""
import json
import subprocess
import sys
import time

REPO = "/repo"


def sh(cmd, **kw):
    return subprocess.run(cmd, stdout=subprocess.PIPE, stderr=subprocess.STDOUT, text=True, **kw)


def main():
    args = sys.argv[1:]
    tier = "quick"
    if "--tier" in args:
        i = args.index("--tier")
        tier = args[i + 1]
        del args[i:i + 2]
    patch, out, props = args[0], args[1], args[2:]
    st = sh(["git", "-C", REPO, "status", "--porcelain"]).stdout.strip()
    if st:
        print("refusing: /repo working tree is not clean:\n" + st)
        return 2
    r = sh(["git", "-C", REPO, "apply", patch])
    if r.returncode != 0:
        print("patch does not apply:\n" + r.stdout)
        return 2
    res = {"patch": patch, "tier": tier, "checks": {}}
    # evidence files must describe runs on the UNCHANGED tree: keep them aside while the patch is applied
    import os, shutil
    saved = {}
    for p in props:
        ev = f"/verif/evidence/{p}.json"
        if os.path.exists(ev):
            saved[ev] = open(ev, "rb").read()
    try:
        for p in props:
            t0 = time.time()
            r = sh(["/verif/check", p, "--tier", tier], timeout=7200)
            lines = [l for l in r.stdout.splitlines() if l.startswith(("VIOLATION", "KNOWN-FINDING", p + ":"))]
            res["checks"][p] = {"exit": r.returncode, "lines": lines[:12], "wall_s": round(time.time() - t0, 1),
                                "tail": r.stdout.splitlines()[-3:]}
            print(p, "exit", r.returncode, lines[:3], flush=True)
    finally:
        sh(["git", "-C", REPO, "checkout", "--", "."])
        sh(["git", "-C", REPO, "clean", "-fdq", "--", "src", "tests", "benches"])
        for ev, content in saved.items():
            open(ev, "wb").write(content)
    res["detected_by"] = [p for p, v in res["checks"].items() if v["exit"] == 1 and any(l.startswith("VIOLATION") for l in v["lines"])]
    json.dump(res, open(out, "w"), indent=1)
    print("detected_by", res["detected_by"])
    return 0


if __name__ == "__main__":
    sys.exit(main())

#!/bin/sh
# run every property's quick (or $1) check on /repo's current tree; summary lines only
tier=${1:-quick}
cd /verif
for i in 01 02 03 04 05 06 07 08 09 10 11 12 13 14 15 16 17 18 19; do
  ./check C$i --tier $tier 2>&1 | grep -E "^(VIOLATION|KNOWN-FINDING|C$i:)" | tail -4
done

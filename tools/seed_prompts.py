#!/usr/bin/env python3
"""Write the prompts for a further round of seeded changes: one prompt per property (two new mutants each), built from the property
text and the summaries of the changes already stored - nothing else from /verif is given to the sub-agents."""
import glob
import json
import os
import sys

a, b = int(sys.argv[1]), int(sys.argv[2])          # numbers of the two new mutants, e.g. 7 8
outdir = sys.argv[3] if len(sys.argv) > 3 else "/tmp"
props = {json.loads(l)["id"]: json.loads(l) for l in open("/verif/properties.jsonl")}
for pid, p in sorted(props.items()):
    wt = f"/tmp/seed_{pid}"
    earlier = []
    for meta in sorted(glob.glob(f"/verif/seeded/{pid}/mutant*/meta.json")):
        m = json.load(open(meta))
        s = (m.get("agent") or {}).get("summary") or m.get("summary") or ""
        earlier.append("  - " + " ".join(s.split())[:420])
    txt = f"""You are helping test a verification project by playing the role of a developer who introduces a subtle regression.

The project is oxipng (a multithreaded lossless PNG/APNG optimizer, Rust; CLI + library). You have your OWN scratch git worktree of it at {wt} (detached HEAD). Work ONLY inside {wt} and {wt}_out. Never touch /repo or /verif, never read anything under /verif, never commit. The sandbox has no network: always build with `CARGO_NET_OFFLINE=true cargo ... --offline` and set `CARGO_TARGET_DIR={wt}/target` so build output stays inside your worktree. (The source has a cargo feature `verif` with observation hooks in src/verif.rs and a few `#[cfg(feature = "verif")]` taps; ignore those - do not change them and do not rely on them.)

Here is a semantic property that oxipng is supposed to satisfy:

  {pid} - {p['title']}
  {p['statement']}

YOUR TASK: produce TWO independent, different source changes ("mutant {a}" and "mutant {b}") to oxipng (files under {wt}/src only), each of which
  (a) BREAKS this property for some inputs / options / schedules / fault points,
  (b) still compiles (default features AND `--features verif` AND `--no-default-features --features binary,filetime,zopfli` if that builds on the clean tree),
  (c) still passes the entire existing test suite unedited: `cd {wt} && CARGO_NET_OFFLINE=true CARGO_TARGET_DIR={wt}/target cargo test --workspace --no-fail-fast --offline` (268 tests pass on the clean tree),
  (d) looks like a realistic change a developer could make (a refactor, an "optimisation", a "simplification", an off-by-one, a forgotten case, two cooperating sites that each look fine alone) - not sabotage that ordinary use would expose at once.
Prefer changes that need something SPECIFIC to manifest: an unusual input (particular size, colour type, bit depth, chunk combination), a particular option combination, a particular interleaving of threads, a fault or timeout at a particular point, a multi-step sequence of operations. The two mutants must touch different logic (ideally different files/functions) and need different triggers.

Earlier rounds already produced the following mutants for this property; yours must be DIFFERENT in the code they touch and in the trigger they need (be creative: look at other modules, other code paths, rarely used options, boundary sizes, unusual but legal inputs, other entry points of the library and of the executable):
{chr(10).join(earlier)}

For each mutant k in {{{a},{b}}} deliver, in {wt}_out:
  1. {wt}_out/mutant<k>.diff  - `git -C {wt} diff` of ONLY that mutant against the clean HEAD (make mutant {a}, save the diff, `git -C {wt} checkout -- .`, then make mutant {b}, save, checkout). The diff must apply cleanly with `git apply` to the clean tree.
  2. {wt}_out/mutant<k>_demo/ - a self-contained demonstration (a shell script run.sh plus whatever small program / python script / input files it needs; a Rust example or test file placed into the worktree by run.sh is fine) that takes the path of an oxipng source tree as $1, builds what it needs from that tree (with CARGO_TARGET_DIR under that tree, offline), and exits 0 when the property holds on its trigger and non-zero (printing what differed) when it is violated. It must FAIL on the patched tree and PASS on the clean tree - verify both yourself and save the two outputs as observed_patched.txt and observed_unpatched.txt there. python3 (with zlib, struct) is available for building/decoding PNGs independently; no third-party packages. Keep the demo directory small (no build output, < 2 MB).
  3. {wt}_out/mutant<k>.json - {{"summary": "<what was changed and why it breaks the property>", "trigger": "<exactly what is needed for the violation to manifest>", "tests_pass": true/false, "files": ["src/..."]}}

Finish with the worktree clean (`git -C {wt} status --short` shows nothing under src/ or tests/). Your final message should be a 5-10 line report: for each mutant the file/function changed, the trigger, and confirmation that tests pass and the demo fails-with/passes-without. If you cannot make a mutant that passes the test suite, say so honestly rather than delivering one that fails tests.
"""
    open(os.path.join(outdir, f"prompt{a}_{pid}.txt"), "w").write(txt)
print("written", len(props))

"""Test-input construction written from the PNG specification (independent of oxipng and of the Coq
model): Adam7 geometry, sample packing, PNG/APNG file writer and a strict chunk reader."""
import struct
import zlib

ADAM7 = [(0, 0, 8, 8), (4, 0, 8, 8), (0, 4, 4, 8), (2, 0, 4, 4), (0, 2, 2, 4), (1, 0, 2, 2), (0, 1, 1, 2)]
CHANNELS = {0: 1, 2: 3, 3: 1, 4: 2, 6: 4}
LEGAL = [(0, 1), (0, 2), (0, 4), (0, 8), (0, 16), (2, 8), (2, 16), (3, 1), (3, 2), (3, 4), (3, 8),
         (4, 8), (4, 16), (6, 8), (6, 16)]


def cdiv(a, b):
    return -(-a // b)


def pass_dims(w, h):
    """[(pass number 1..7, pw, ph)] for non-empty passes"""
    out = []
    for i, (x0, y0, dx, dy) in enumerate(ADAM7):
        pw = cdiv(w - x0, dx) if w > x0 else 0
        ph = cdiv(h - y0, dy) if h > y0 else 0
        if pw > 0 and ph > 0:
            out.append((i + 1, pw, ph))
    return out


def row_layout(w, h, bpp, interlaced):
    """[(pass or None, pixels, bytes)] for every scan line, in file order"""
    if not interlaced:
        return [(None, w, cdiv(w * bpp, 8))] * h
    out = []
    for p, pw, ph in pass_dims(w, h):
        out += [(p, pw, cdiv(pw * bpp, 8))] * ph
    return out


def raw_size(w, h, bpp, interlaced, with_filter=False):
    return sum(b + (1 if with_filter else 0) for _, _, b in row_layout(w, h, bpp, interlaced))


def pack_row(samples, depth):
    """samples: list of ints (< 2^depth); MSB first, zero padded; depth 16 -> big endian"""
    if depth == 8:
        return bytes(samples)
    if depth == 16:
        return b"".join(struct.pack(">H", s) for s in samples)
    out = bytearray()
    per = 8 // depth
    for i in range(0, len(samples), per):
        b = 0
        chunk = samples[i:i + per]
        for k, s in enumerate(chunk):
            b |= (s & ((1 << depth) - 1)) << (8 - depth * (k + 1))
        out.append(b)
    return bytes(out)


def pack_image(pixels, w, h, ct, depth, interlaced):
    """pixels[y][x] = tuple of channel samples. Returns the unfiltered packed data."""
    ch = CHANNELS[ct]
    out = bytearray()
    if not interlaced:
        for y in range(h):
            out += pack_row([s for x in range(w) for s in pixels[y][x]], depth)
        return bytes(out)
    for (x0, y0, dx, dy) in ADAM7:
        if w <= x0 or h <= y0:
            continue
        for y in range(y0, h, dy):
            out += pack_row([s for x in range(x0, w, dx) for s in pixels[y][x]], depth)
    return bytes(out)


def img_token(w, h, ct, depth, il, extra, data):
    """extra: None | int (gray key) | (r,g,b) | list of (r,g,b,a) for indexed"""
    if ct == 0:
        e = "-" if extra is None else str(extra)
    elif ct == 2:
        e = "-" if extra is None else ",".join(map(str, extra))
    elif ct == 3:
        e = "".join("%02x%02x%02x%02x" % tuple(c) for c in extra) if extra else "-"
    else:
        e = "-"
    return f"img:{w}:{h}:{ct}:{depth}:{1 if il else 0}:{e}:{data.hex() if data else '-'}"


def parse_img_token(tok):
    p = tok.split(":")
    w, h, ct, depth, il = int(p[1]), int(p[2]), int(p[3]), int(p[4]), int(p[5])
    e = p[6]
    if ct == 0:
        extra = None if e == "-" else int(e)
    elif ct == 2:
        extra = None if e == "-" else tuple(int(x) for x in e.split(","))
    elif ct == 3:
        b = bytes.fromhex(e) if e != "-" else b""
        extra = [tuple(b[i:i + 4]) for i in range(0, len(b), 4)]
    else:
        extra = None
    data = bytes.fromhex(p[7]) if p[7] != "-" else b""
    return w, h, ct, depth, il == 1, extra, data


def hx(b):
    return b.hex() if b else "-"


def unhx(s):
    return b"" if s == "-" else bytes.fromhex(s)


# ------------------------------------------------------------------------------------- PNG writer
SIG = b"\x89PNG\r\n\x1a\n"


def chunk(name, data, crc=None):
    if isinstance(name, str):
        name = name.encode()
    c = zlib.crc32(name + data) & 0xffffffff if crc is None else crc
    return struct.pack(">I", len(data)) + name + data + struct.pack(">I", c)


def ihdr_bytes(w, h, depth, ct, il):
    return struct.pack(">IIBBBBB", w, h, depth, ct, 0, 0, 1 if il else 0)


def filter_rows_spec(rows, bpp_bytes, types):
    """Filter rows (list of (pass, bytes)) by the specification; types[i] in 0..4.
    Returns filtered stream. Each pass is a separate image."""
    out = bytearray()
    prev = None
    prev_pass = "none"
    for i, (p, row) in enumerate(rows):
        if p != prev_pass or prev is None or len(prev) != len(row):
            prev = bytes(len(row))
        ft = types[i % len(types)] if types else 0
        out.append(ft)
        for x in range(len(row)):
            a = row[x - bpp_bytes] if x >= bpp_bytes else 0
            b = prev[x]
            c = prev[x - bpp_bytes] if x >= bpp_bytes else 0
            if ft == 0:
                pr = 0
            elif ft == 1:
                pr = a
            elif ft == 2:
                pr = b
            elif ft == 3:
                pr = (a + b) // 2
            else:
                pp = a + b - c
                pa, pb, pc = abs(pp - a), abs(pp - b), abs(pp - c)
                pr = a if (pa <= pb and pa <= pc) else (b if pb <= pc else c)
            out.append((row[x] - pr) & 255)
        prev = row
        prev_pass = p
    return bytes(out)


def split_rows(data, w, h, bpp, interlaced):
    rows = []
    off = 0
    for p, _, nb in row_layout(w, h, bpp, interlaced):
        rows.append((p, data[off:off + nb]))
        off += nb
    return rows


def write_png(w, h, ct, depth, il, data, plte=None, trns=None, pre=(), mid=(), post=(),
              filter_types=(0,), idat_split=1, level=6, frames=None, actl=None, first_fctl=None):
    """data = unfiltered packed bytes. pre/mid/post: ancillary chunks (name, payload) before PLTE,
    between PLTE and IDAT, after IDAT. frames: list of dict(fctl=bytes26-without-seq…)."""
    bpp = depth * CHANNELS[ct]
    bpp_bytes = max(1, bpp // 8)
    rows = split_rows(data, w, h, bpp, il)
    stream = filter_rows_spec(rows, bpp_bytes, list(filter_types))
    comp = zlib.compress(stream, level)
    out = bytearray(SIG)
    out += chunk("IHDR", ihdr_bytes(w, h, depth, ct, il))
    for n, d in pre:
        out += chunk(n, d)
    if plte is not None:
        out += chunk("PLTE", plte)
    if trns is not None:
        out += chunk("tRNS", trns)
    for n, d in mid:
        out += chunk(n, d)
    if idat_split < 0:
        # legal oddities: zero-length IDAT chunks (first, in the middle, last) around the data
        idat_split = -idat_split
        empties = idat_split % 8        # bit 0: empty first, bit 1: empty middle, bit 2: empty last
        idat_split = max(1, idat_split // 8)
    else:
        empties = 0
    n = max(1, idat_split)
    step = cdiv(len(comp), n)
    if empties & 1:
        out += chunk("IDAT", b"")
    for j, i in enumerate(range(0, len(comp), step)):
        out += chunk("IDAT", comp[i:i + step])
        if j == 0 and empties & 2:
            out += chunk("IDAT", b"")
    if empties & 4:
        out += chunk("IDAT", b"")
    for n_, d in post:
        out += chunk(n_, d)
    out += chunk("IEND", b"")
    return bytes(out)


def read_chunks(b, check_crc=True):
    """Strict reader: returns list of (name bytes, payload) or raises ValueError."""
    if b[:8] != SIG:
        raise ValueError("signature")
    off = 8
    out = []
    while True:
        if off + 12 > len(b):
            raise ValueError("truncated")
        ln = struct.unpack(">I", b[off:off + 4])[0]
        name = b[off + 4:off + 8]
        if off + 12 + ln > len(b):
            raise ValueError("truncated chunk")
        data = b[off + 8:off + 8 + ln]
        crc = struct.unpack(">I", b[off + 8 + ln:off + 12 + ln])[0]
        if check_crc and crc != (zlib.crc32(name + data) & 0xffffffff):
            raise ValueError("crc " + name.decode("latin1"))
        out.append((name, data))
        off += 12 + ln
        if name == b"IEND":
            break
    if off != len(b):
        raise ValueError("trailing bytes")
    return out

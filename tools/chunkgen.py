"""Chunk-rich PNG / APNG inputs (well-formed per the PNG 1.2 / APNG specifications) for C02/C07/C10/C14."""
import struct
import zlib

import e2e
import imggen
import pnggen as pg

BEFORE_PLTE = [b"cHRM", b"gAMA", b"sBIT", b"cICP"]           # must precede PLTE and IDAT (sRGB/iCCP handled separately)
AFTER_PLTE = [b"bKGD", b"hIST"]                               # must follow PLTE, precede IDAT
BEFORE_IDAT = [b"pHYs", b"sPLT", b"eXIf", b"oFFs", b"sTER"]   # anywhere before IDAT
ANYWHERE = [b"tEXt", b"zTXt", b"iTXt", b"tIME", b"prVt", b"abCd", b"vpAg"]


def payload(rng, name, ct, depth, npal):
    if name == b"gAMA":
        return struct.pack(">I", 45455)
    if name == b"cHRM":
        return struct.pack(">8I", *[rng.randrange(100000) for _ in range(8)])
    if name == b"sBIT":
        return bytes([min(depth, 8)] * {0: 1, 2: 3, 3: 3, 4: 2, 6: 4}[ct])
    if name == b"cICP":
        return bytes([1, 13, 0, 1])
    if name == b"bKGD":
        if ct == 3:
            return bytes([rng.randrange(max(1, npal))])
        if ct in (0, 4):
            return struct.pack(">H", rng.randrange(1 << depth))
        return struct.pack(">HHH", *[rng.randrange(1 << depth) for _ in range(3)])
    if name == b"hIST":
        return b"".join(struct.pack(">H", rng.randrange(65536)) for _ in range(npal))
    if name == b"pHYs":
        return struct.pack(">IIB", 2835, 2835, 1)
    if name == b"tIME":
        return struct.pack(">HBBBBB", 2024, 5, 17, 12, 30, 59)
    if name == b"tEXt":
        return b"Comment\0" + bytes(rng.randrange(32, 127) for _ in range(rng.randrange(0, 20)))
    if name == b"sRGB":
        return bytes([rng.randrange(4)])
    return bytes(rng.randrange(256) for _ in range(rng.randrange(0, 24)))


SRGB_IDS = [bytes.fromhex("29f83ddeaff255ae7842fae4ca83390d"), bytes.fromhex("c95bd637e95d8a3b0df38f99c1320389"),
            bytes.fromhex("fc66337837e2886bfd72e9838228f1b8"), bytes.fromhex("34562abf994ccd066d2c5721d0d68c5d")]


OTHER_IDS = [bytes.fromhex("01a2b3c4d5e6f708192a3b4c5d6e7f80"), bytes.fromhex("0102030405060708090a0b0c0d0e0f10"),
             bytes.fromhex("01ffeeddccbbaa998877665544332211")]


def icc_profile(rng, kind, bloated=False):
    """kind: 'srgb' (recognised profile id), 'other'. Half of the profiles are compressible (so that re-compression pays off) and
    the profile IDs come from small pools: different profiles of equal length that carry the same ID occur within one run (an ID
    does not identify the content: it does not cover the rendering intent / flags, and edited profiles keep stale IDs)"""
    n = rng.choice([128, 200, 400])
    if rng.random() < 0.5 and not bloated:
        p = bytearray(rng.randrange(256) for _ in range(n))
    else:
        if bloated or rng.random() < 0.35:
            n = rng.choice([3000, 6000])     # inflates beyond the buffer extract_icc guesses (2 x compressed + 1000): the profile stays opaque
        p = bytearray(n)
        for _ in range(rng.randrange(1, 6)):
            p[rng.randrange(n)] = rng.randrange(256)
        p[44:48] = bytes(rng.randrange(256) for _ in range(4))
    p[67] = rng.randrange(4)
    # the profile-size field of the ICC header: exact, smaller than the data present (padded stream) or larger
    r = rng.random()
    if r < 0.4:
        p[0:4] = struct.pack(">I", n)
    elif r < 0.7 and n > 168:
        p[0:4] = struct.pack(">I", rng.randrange(128, n - 8))
    elif r < 0.8:
        p[0:4] = struct.pack(">I", n + rng.randrange(1, 500))
    if kind == "srgb":
        p[84:100] = rng.choice(SRGB_IDS)
    else:
        p[84:100] = rng.choice(OTHER_IDS) if rng.random() < 0.7 else bytes([1] + [rng.randrange(256) for _ in range(15)])
    return bytes(p)


def iccp_chunk(rng, kind):
    """returns (payload, profile bytes or None when undecodable)"""
    if kind == "undecodable":
        return b"name\0\0" + bytes(rng.randrange(256) for _ in range(20)), None
    if kind == "badmethod":
        prof = icc_profile(rng, "other")
        return b"name\0\1" + zlib.compress(prof), None
    prof = icc_profile(rng, kind)
    return b"a profile\0\0" + zlib.compress(prof, rng.choice([0, 1, 9])), prof


def c2pa_box(rng, real=True):
    inner_payload = (b"c2pa" if real else b"xxxx") + bytes(rng.randrange(256) for _ in range(12))
    jumd = struct.pack(">I", 8 + len(inner_payload)) + b"jumd" + inner_payload
    return struct.pack(">I", 8 + len(jumd)) + b"jumb" + jumd


def gen_png(rng, tok=None, with_colorspace=None, special_before_plain=False, c2pa=None, dup=True):
    """returns (png bytes, info). info['chunks'] = list of (name, payload, region) of ancillary chunks in file order;
    region in {'pre', 'post'}."""
    if tok is None:
        ct, depth = rng.choice(pg.LEGAL)
        w, h = imggen.pick_dims(rng)
        tok, _ = imggen.gen(rng, ct, depth, w, h, rng.random() < 0.3, rng.choice(imggen.CLASSES), rng.choice(imggen.KEY_MODES))
    w, h, ct, depth, il, extra, data = pg.parse_img_token(tok)
    npal = len(extra) if ct == 3 else 0
    pre, mid, post = [], [], []
    profile = None
    cs = with_colorspace if with_colorspace is not None else rng.choice([None, None, "sRGB", "iccp-srgb", "iccp-other", "iccp-undecodable", "both"])
    if cs in ("sRGB", "both"):
        pre.append((b"sRGB", payload(rng, b"sRGB", ct, depth, npal)))
    if cs and cs.startswith("iccp") or cs == "both":
        kind = {"iccp-srgb": "srgb", "iccp-other": "other", "iccp-undecodable": rng.choice(["undecodable", "badmethod"]), "both": rng.choice(["srgb", "other"])}[cs]
        pl, profile = iccp_chunk(rng, kind)
        pre.insert(rng.randrange(len(pre) + 1), (b"iCCP", pl))
    for n in BEFORE_PLTE:
        if rng.random() < 0.3:
            pre.append((n, payload(rng, n, ct, depth, npal)))
    for n in BEFORE_IDAT + ANYWHERE:
        if rng.random() < 0.25:
            (pre if rng.random() < 0.5 else mid).append((n, payload(rng, n, ct, depth, npal)))
            if dup and n in (b"tEXt", b"zTXt", b"iTXt", b"prVt", b"sPLT") and rng.random() < 0.4:
                mid.append((n, payload(rng, n, ct, depth, npal)))
    specials = []
    for n in AFTER_PLTE:
        if n == b"hIST" and ct != 3:
            continue
        if rng.random() < 0.35:
            specials.append((n, payload(rng, n, ct, depth, npal)))
    if special_before_plain:
        mid = specials + mid
    else:
        mid = mid + specials
    used = {x[0] for x in pre + mid}
    for n in ANYWHERE + [b"eXIf"]:
        if rng.random() < 0.25 and not (n in (b"tIME", b"eXIf") and n in used):
            post.append((n, payload(rng, n, ct, depth, npal)))
    if c2pa is not None:
        (pre if rng.random() < 0.5 else post).append((b"caBX", c2pa_box(rng, real=c2pa)))
    png = e2e.png_from_token(rng, tok, pre=pre, mid=mid, post=post)
    chunks = [(n, d, "pre") for n, d in pre + mid] + [(n, d, "post") for n, d in post]
    return png, dict(tok=tok, chunks=chunks, profile=profile, cs=cs, ct=ct, depth=depth)


# ------------------------------------------------------------------------------------- APNG
def fctl(seq, w, h, x, y, dn, dd, disp, blend):
    return struct.pack(">IIIIIHHBB", seq, w, h, x, y, dn, dd, disp, blend)


def gen_apng(rng, extra_frames=None, default_in_anim=None, split=None, anc=True):
    """well-formed APNG; returns (bytes, info) with info['frames'] = list of dict(fields, pixels token)"""
    ct, depth = rng.choice(pg.LEGAL)
    w, h = rng.choice([(4, 4), (5, 3), (8, 8), (9, 5), (3, 7)])
    il = rng.random() < 0.25
    tok, _ = imggen.gen(rng, ct, depth, w, h, il, rng.choice(["random", "fewcolors", "opaque"]), rng.choice(["none", "used"]))
    _, _, _, _, _, extra, data = pg.parse_img_token(tok)
    nfr = rng.choice([0, 1, 2, 3, 4]) if extra_frames is None else extra_frames
    din = rng.random() < 0.6 if default_in_anim is None else default_in_anim
    if nfr == 0:
        din = True
    bpp = depth * pg.CHANNELS[ct]
    bppb = max(1, bpp // 8)
    plte = trns = None
    if ct == 3:
        plte = b"".join(bytes(c[:3]) for c in extra)
        al = [c[3] for c in extra]
        last = max([i for i, a in enumerate(al) if a != 255], default=-1)
        if last >= 0:
            trns = bytes(al[:last + 1])
    elif ct == 0 and extra is not None:
        trns = struct.pack(">H", extra)
    elif ct == 2 and extra is not None:
        trns = struct.pack(">HHH", *extra)

    def stream(fw, fh, fdata):
        rows = pg.split_rows(fdata, fw, fh, bpp, il)
        return zlib.compress(pg.filter_rows_spec(rows, bppb, [rng.randrange(5) for _ in rows]), rng.choice([1, 6, 9]))

    out = bytearray(pg.SIG)
    out += pg.chunk("IHDR", pg.ihdr_bytes(w, h, depth, ct, il))
    nframes = nfr + (1 if din else 0)
    plays = rng.choice([0, 1, 3])
    pre_anc = []
    if anc and rng.random() < 0.5:
        pre_anc.append((b"pHYs", payload(rng, b"pHYs", ct, depth, 0)))
    if anc and rng.random() < 0.3:
        pre_anc.append((b"tEXt", payload(rng, b"tEXt", ct, depth, 0)))
    for n, d in pre_anc:
        out += pg.chunk(n, d)
    out += pg.chunk("acTL", struct.pack(">II", nframes, plays))
    if plte is not None:
        out += pg.chunk("PLTE", plte)
    if trns is not None:
        out += pg.chunk("tRNS", trns)
    seq = 0
    frames = []
    first = None
    if din:
        first = dict(w=w, h=h, x=0, y=0, dn=rng.randrange(1, 100), dd=rng.choice([0, 10, 100]), disp=rng.randrange(3), blend=rng.randrange(2))
        out += pg.chunk("fcTL", fctl(seq, w, h, 0, 0, first["dn"], first["dd"], first["disp"], first["blend"]))
        seq += 1
    out += pg.chunk("IDAT", stream(w, h, data))
    for _ in range(nfr):
        fw = rng.randrange(1, w + 1)
        fh = rng.randrange(1, h + 1)
        fx = rng.randrange(0, w - fw + 1)
        fy = rng.randrange(0, h - fh + 1)
        ftok, _ = imggen.gen(rng, ct, depth, fw, fh, il, "random") if ct != 3 else (None, None)
        if ct == 3:
            px = [[(rng.randrange(len(extra)),) for _ in range(fw)] for _ in range(fh)]
            fdata = pg.pack_image(px, fw, fh, ct, depth, il)
        else:
            fdata = pg.parse_img_token(ftok)[6]
        f = dict(w=fw, h=fh, x=fx, y=fy, dn=rng.randrange(1, 100), dd=rng.choice([0, 10, 100]), disp=rng.randrange(3), blend=rng.randrange(2),
                 tok=pg.img_token(fw, fh, ct, depth, il, extra, fdata))
        out += pg.chunk("fcTL", fctl(seq, fw, fh, fx, fy, f["dn"], f["dd"], f["disp"], f["blend"]))
        seq += 1
        comp = stream(fw, fh, fdata)
        k = rng.choice([1, 1, 2, 3]) if split is None else split
        step = pg.cdiv(len(comp), k)
        for i in range(0, len(comp), step):
            out += pg.chunk("fdAT", struct.pack(">I", seq) + comp[i:i + step])
            seq += 1
        frames.append(f)
    post = []
    if anc and rng.random() < 0.4:
        post.append((b"tEXt", payload(rng, b"tEXt", ct, depth, 0)))
    for n, d in post:
        out += pg.chunk(n, d)
    out += pg.chunk("IEND", b"")
    return bytes(out), dict(tok=tok, frames=frames, first=first, din=din, plays=plays, nframes=nframes, ct=ct, depth=depth, il=il, w=w, h=h,
                            extra=extra, chunks=[(n, d, "pre") for n, d in pre_anc] + [(n, d, "post") for n, d in post])


def parse_apng(png):
    """strict structural parse of an (A)PNG: returns dict(actl, first_fctl, frames=[(fctl fields, data)], default_idat, seqs)"""
    ch = pg.read_chunks(png)
    actl = None
    frames = []
    first = None
    seqs = []
    seen_idat = False
    idat = b""
    for n, d in ch:
        if n == b"acTL":
            actl = struct.unpack(">II", d)
        elif n == b"IDAT":
            seen_idat = True
            idat += d
        elif n == b"fcTL":
            f = struct.unpack(">IIIIIHHBB", d)
            seqs.append(f[0])
            if not seen_idat:
                first = f[1:]
            else:
                frames.append([f[1:], b""])
        elif n == b"fdAT":
            seqs.append(struct.unpack(">I", d[:4])[0])
            if not frames:
                raise ValueError("fdAT before fcTL")
            frames[-1][1] += d[4:]
    return dict(actl=actl, first=first, frames=frames, idat=idat, seqs=seqs, chunks=ch)

"""Strict structural validator for PNG / APNG files, written from the PNG (2nd edition) and APNG
specifications. Returns the set of violated constraints (empty = well-formed)."""
import struct
import zlib

import pnggen as pg

BEFORE_PLTE = {b"cHRM", b"gAMA", b"iCCP", b"sBIT", b"sRGB", b"cICP"}
AFTER_PLTE_BEFORE_IDAT = {b"bKGD", b"hIST", b"tRNS"}
BEFORE_IDAT = {b"pHYs", b"sPLT", b"acTL", b"oFFs", b"sTER"} | BEFORE_PLTE | AFTER_PLTE_BEFORE_IDAT
SINGLETON = {b"IHDR", b"PLTE", b"IEND", b"cHRM", b"gAMA", b"iCCP", b"sBIT", b"sRGB", b"cICP", b"bKGD", b"hIST", b"tRNS", b"pHYs",
             b"tIME", b"acTL", b"eXIf"}


def validate(png):
    """returns (violations: set of str, info dict)"""
    v = set()
    info = {}
    try:
        ch = pg.read_chunks(png, check_crc=False)
    except ValueError as e:
        return {"container:" + str(e)}, info
    if png[:8] != pg.SIG:
        v.add("signature")
    off = 8
    for n, d in ch:
        crc = struct.unpack(">I", png[off + 8 + len(d):off + 12 + len(d)])[0]
        if crc != (zlib.crc32(n + d) & 0xffffffff):
            v.add("crc")
        off += 12 + len(d)
        if len(n) != 4 or not all(65 <= c <= 90 or 97 <= c <= 122 for c in n):
            v.add("chunk-name")
    names = [n for n, _ in ch]
    if not ch or names[0] != b"IHDR" or len(ch[0][1]) != 13:
        v.add("ihdr-first")
        return v, info
    if names[-1] != b"IEND" or ch[-1][1]:
        v.add("iend-last")
    w, h, depth, ct, comp, flt, il = struct.unpack(">IIBBBBB", ch[0][1])
    info.update(w=w, h=h, depth=depth, ct=ct, il=il)
    if (ct, depth) not in pg.LEGAL or comp != 0 or flt != 0 or il > 1 or w == 0 or h == 0 or w >= 2 ** 31 or h >= 2 ** 31:
        v.add("ihdr-legal")
        return v, info
    for n in SINGLETON:
        if names.count(n) > 1:
            v.add("singleton:" + n.decode())
    idat_idx = [i for i, n in enumerate(names) if n == b"IDAT"]
    if not idat_idx:
        v.add("idat-missing")
        return v, info
    if idat_idx != list(range(idat_idx[0], idat_idx[0] + len(idat_idx))):
        v.add("idat-consecutive")
    first_idat = idat_idx[0]
    plte_idx = names.index(b"PLTE") if b"PLTE" in names else None
    if ct == 3 and plte_idx is None:
        v.add("plte-missing")
    if ct in (0, 4) and plte_idx is not None:
        v.add("plte-forbidden")
    if plte_idx is not None:
        if plte_idx > first_idat:
            v.add("plte-after-idat")
        pl = ch[plte_idx][1]
        if len(pl) % 3 or not (1 <= len(pl) // 3 <= 256) or (ct == 3 and len(pl) // 3 > (1 << depth)):
            v.add("plte-size")
    npal = len(ch[plte_idx][1]) // 3 if plte_idx is not None else 0
    for i, (n, d) in enumerate(ch):
        if n in BEFORE_IDAT and i > first_idat:
            v.add("after-idat:" + n.decode())
        if n in BEFORE_PLTE and plte_idx is not None and i > plte_idx:
            v.add("after-plte:" + n.decode())
        if n in AFTER_PLTE_BEFORE_IDAT and plte_idx is not None and i < plte_idx:
            v.add("before-plte:" + n.decode())
    if b"hIST" in names and plte_idx is None:
        v.add("hist-needs-plte")
    if b"hIST" in names and plte_idx is not None and len(ch[names.index(b"hIST")][1]) != 2 * npal:
        v.add("hist-size")
    if b"tRNS" in names:
        t = ch[names.index(b"tRNS")][1]
        if ct in (4, 6):
            v.add("trns-forbidden")
        elif ct == 3 and len(t) > npal:
            v.add("trns-size")
        elif ct == 0 and (len(t) != 2 or struct.unpack(">H", t)[0] >> depth):
            v.add("trns-size")
        elif ct == 2 and (len(t) != 6 or any(x >> depth for x in struct.unpack(">HHH", t))):
            v.add("trns-size")
    if b"bKGD" in names:
        b = ch[names.index(b"bKGD")][1]
        want = {0: 2, 4: 2, 2: 6, 6: 6, 3: 1}[ct]
        if len(b) != want or (ct == 3 and b and b[0] >= max(npal, 1)):
            v.add("bkgd-size")
    if b"sBIT" in names:
        want = {0: 1, 2: 3, 3: 3, 4: 2, 6: 4}[ct]
        if len(ch[names.index(b"sBIT")][1]) != want:
            v.add("sbit-size")
    if b"iCCP" in names and b"sRGB" in names:
        v.add("iccp-and-srgb")
    # IDAT stream
    bpp = depth * pg.CHANNELS[ct]
    try:
        do = zlib.decompressobj()
        stream = do.decompress(b"".join(ch[i][1] for i in idat_idx))
        if not do.eof or do.unused_data:
            v.add("zlib-stream")
        elif len(stream) != pg.raw_size(w, h, bpp, il == 1, True):
            v.add("zlib-size")
        else:
            info["stream"] = stream
            off = 0
            for p, _, nb in pg.row_layout(w, h, bpp, il == 1):
                if stream[off] > 4:
                    v.add("filter-type")
                    break
                off += nb + 1
    except zlib.error:
        v.add("zlib-stream")
    # APNG
    has_anim = b"acTL" in names or b"fcTL" in names or b"fdAT" in names
    if has_anim:
        if b"acTL" not in names:
            v.add("apng:actl-missing")
        else:
            a = ch[names.index(b"acTL")][1]
            nfc = names.count(b"fcTL")
            if len(a) != 8 or struct.unpack(">II", a)[0] != nfc or nfc == 0:
                v.add("apng:frame-count")
        seqs = []
        last_fctl = None
        for i, (n, d) in enumerate(ch):
            if n == b"fcTL":
                if len(d) != 26:
                    v.add("apng:fctl-size")
                    continue
                s, fw, fh, fx, fy, dn, dd, disp, blend = struct.unpack(">IIIIIHHBB", d)
                seqs.append(s)
                if fw == 0 or fh == 0 or fx + fw > w or fy + fh > h or disp > 2 or blend > 1:
                    v.add("apng:frame-geometry")
                if i < first_idat and (fw, fh, fx, fy) != (w, h, 0, 0):
                    v.add("apng:first-frame-geometry")
                last_fctl = i
            elif n == b"fdAT":
                if len(d) < 4:
                    v.add("apng:fdat-size")
                    continue
                seqs.append(struct.unpack(">I", d[:4])[0])
                if last_fctl is None or i < first_idat or last_fctl < first_idat:
                    v.add("apng:fdat-without-fctl")
        if seqs != list(range(len(seqs))):
            v.add("apng:sequence-numbers")
    return v, info

"""Structured image generator: content classes chosen so that each reduction of oxipng *fires*
(and classes where it must not). Images are produced as img tokens (see pnggen.img_token)."""
import pnggen as pg

DIMS_SMALL = [1, 2, 3, 4, 5, 6, 7, 8, 9]
DIMS_EDGE = [15, 16, 17, 31, 32, 33]


def pick_dims(rng, big=False):
    pool = DIMS_SMALL * 3 + DIMS_EDGE + ([63, 64, 65, 72] if big else [])
    return rng.choice(pool), rng.choice(pool)


def _samples(rng, ct, depth, cls, ncolors):
    """returns a function () -> pixel tuple"""
    mx = (1 << depth) - 1
    ch = pg.CHANNELS[ct]

    def rnd():
        return rng.randrange(mx + 1)

    def hl():   # 16-bit value whose two bytes are equal
        b = rng.randrange(256)
        return b * 257

    if cls == "random":
        return lambda: tuple(rnd() for _ in range(ch))
    if cls == "hilo":            # 16 -> 8 reducible
        if depth != 16:
            return lambda: tuple(rnd() for _ in range(ch))
        return lambda: tuple(hl() for _ in range(ch))
    if cls == "hilo_but_one":
        return None              # handled by caller
    if cls == "gray":            # r = g = b
        def f():
            v = hl() if depth == 16 and rng.random() < 0.7 else rnd()
            if ct == 2:
                return (v, v, v)
            if ct == 6:
                return (v, v, v, rng.choice([0, mx, mx, rnd()]))
            return tuple(rnd() for _ in range(ch))
        return f
    if cls == "opaque":
        def f():
            px = [rnd() for _ in range(ch)]
            if ct in (4, 6):
                px[-1] = mx
            return tuple(px)
        return f
    if cls == "binalpha":        # alpha in {0, max}, transparent pixels carry colour
        def f():
            px = [rnd() for _ in range(ch)]
            if ct in (4, 6):
                px[-1] = rng.choice([0, mx, mx])
            return tuple(px)
        return f
    if cls == "nearalpha":       # alpha one step (or one byte) away from fully opaque / fully transparent: 0xFFxx, 0x00xx, 254, 1
        kind = rng.choice(["opaque", "opaque", "transparent", "both"])

        def f():
            px = [rnd() for _ in range(ch)]
            if ct in (4, 6):
                hi = kind == "opaque" or (kind == "both" and rng.random() < 0.5)
                if depth == 16:
                    lo = rng.choice([0xFF, 0xFF, 0xFE, 0x00, 0x25, rng.randrange(256)])
                    px[-1] = (0xFF00 | lo) if hi else rng.choice([0, 0, 1, 0x00FF, rng.randrange(256)])
                else:
                    px[-1] = rng.choice([255, 255, 254]) if hi else rng.choice([0, 0, 1])
            return tuple(px)
        return f
    if cls == "binalpha_gray":   # opaque pixels are shades of gray (uses up tRNS candidates)
        def f():
            v = rng.randrange(256)
            v = v * 257 if depth == 16 else v
            a = rng.choice([0, mx, mx])
            if ct == 6:
                return (v, v, v, a) if a else (rnd(), rnd(), rnd(), 0)
            if ct == 4:
                return (v, a)
            return tuple(rnd() for _ in range(ch))
        return f
    if cls == "bitrep":          # 8-bit gray / indexed values replicated from fewer bits
        bits = rng.choice([1, 2, 4])

        def f():
            v = rng.randrange(1 << bits)
            if ct == 3:
                return (v,)
            r = v
            b = bits
            while b < 8:
                r = (r << b) | r
                b *= 2
            px = [r if depth == 8 else rnd() for _ in range(ch)]
            if ct == 2:
                px = [px[0]] * 3
            if ct == 6:
                px = [px[0]] * 3 + [mx]
            if ct == 4:
                px = [px[0], mx]
            return tuple(px)
        return f
    if cls == "fewcolors":
        pool = []
        for _ in range(ncolors):
            px = [rnd() if depth <= 8 else (hl() if rng.random() < 0.5 else rnd()) for _ in range(ch)]
            if ct in (4, 6) and rng.random() < 0.6:
                px[-1] = rng.choice([0, mx])
            pool.append(tuple(px))
        return lambda: rng.choice(pool)
    raise ValueError(cls)


CLASSES = ["random", "hilo", "gray", "opaque", "binalpha", "binalpha_gray", "bitrep", "fewcolors", "banded_key", "nearalpha"]


def gen(rng, ct, depth, w, h, il, cls, key_mode="none", ncolors=None):
    """returns (token, info dict)"""
    mx = (1 << depth) - 1
    ncolors = ncolors or rng.choice([1, 2, 3, 4, 5, 16, 17, 60])
    if ct == 3:
        # indexed: build a palette (possibly with duplicates, unused and transparent entries)
        psize = rng.choice([1, 2, 3, 4, 5, 15, 16, 17, 200, 256])
        psize = min(psize, 1 << depth)
        base = []
        for _ in range(psize):
            if cls == "gray" or (cls == "bitrep" and rng.random() < 0.5):
                v = rng.randrange(256)
                c = [v, v, v, 255]
            else:
                c = [rng.randrange(256) for _ in range(3)] + [255]
            if cls in ("binalpha", "binalpha_gray", "fewcolors") and rng.random() < 0.3:
                c[3] = rng.choice([0, 0, 128])
            base.append(tuple(c))
        if psize > 2 and rng.random() < 0.4:          # duplicates
            base[rng.randrange(psize)] = base[rng.randrange(psize)]
        used = list(range(psize))
        if psize > 2 and rng.random() < 0.5:          # leave some entries unused
            used = rng.sample(used, max(1, psize // 2))
        pixels = [[(rng.choice(used),) for _ in range(w)] for _ in range(h)]
        if cls in ("random",) and psize > 3:          # runs help the co-occurrence sorters
            cur = rng.choice(used)
            for y in range(h):
                for x in range(w):
                    if rng.random() < 0.4:
                        cur = rng.choice(used)
                    pixels[y][x] = (cur,)
        data = pg.pack_image(pixels, w, h, ct, depth, il)
        return pg.img_token(w, h, ct, depth, il, base, data), {"cls": cls, "pal": psize}
    if cls == "banded_key" and depth >= 8:
        # position-dependent content: the first band holds opaque gray pixels of exactly the shades a colour key would
        # first be chosen from, the rest holds transparent pixels and opaque pixels that avoid those shades
        # (whatever a scan learns before its first transparent pixel differs from what it learns after)
        cand = [0x00, 0xFF, 0x55, 0xAA, 1, 2]
        rep = (lambda v: v * 257) if depth == 16 else (lambda v: v)
        nch = pg.CHANNELS[ct]
        band = max(1, h // 3)
        flip = rng.random() < 0.3                      # sometimes the other way round
        period = rng.choice([1, 2, 4, 6])
        pixels = []
        for y in range(h):
            row = []
            for x in range(w):
                top = ((y < band) if h > 1 else (x < max(1, w // 3))) != flip
                if ct in (4, 6):
                    if top:
                        v = rep(cand[(x + y) % period])
                        row.append((v, mx) if ct == 4 else (v, v, v, mx))
                    else:
                        v = rep(rng.randrange(8, 250))
                        a = rng.choice([0, mx, mx])
                        if ct == 4:
                            row.append((v, a))
                        else:
                            row.append((v, v, v, a) if rng.random() < 0.6 else (rep(rng.randrange(256)), v, v, a))
                else:
                    v = rep(cand[(x + y) % period]) if top else rep(rng.randrange(8, 250))
                    row.append(tuple([v] * nch))
            pixels.append(row)
    else:
        if cls == "banded_key":
            cls = "random"
        f = _samples(rng, ct, depth, cls, ncolors)
        pixels = [[f() for _ in range(w)] for _ in range(h)]
        if cls == "hilo" and depth == 16 and rng.random() < 0.15:
            # one sample spoils the lossless 16->8 reduction
            y, x = rng.randrange(h), rng.randrange(w)
            px = list(pixels[y][x])
            px[rng.randrange(len(px))] = 0x1234
            pixels[y][x] = tuple(px)
    if rng.random() < 0.22 and depth >= 8:
        # near miss: ONE sample of ONE pixel is off by the least significant byte / by one, so that an exactness test that
        # looks at only part of a sample (or at only some pixels) accepts an image it must not reduce
        y, x = rng.randrange(h), rng.randrange(w)
        px = list(pixels[y][x])
        c = rng.randrange(len(px))
        if depth == 16:
            px[c] = (px[c] & 0xff00) | ((px[c] + rng.choice([1, 0x55, 0x80])) & 0xff)
        else:
            px[c] = (px[c] + rng.choice([1, 255])) & 0xff
        pixels[y][x] = tuple(px)
    extra = None
    if cls == "bitrep" and ct == 0 and depth == 8 and key_mode in ("unused", "used") and rng.random() < 0.5:
        key_mode = "nearrep"
    if ct in (0, 2) and key_mode != "none":
        flat = [px for row in pixels for px in row]
        if key_mode == "used":
            k = rng.choice(flat)
        elif key_mode == "unused":
            k = tuple(rng.randrange(mx + 1) for _ in range(pg.CHANNELS[ct]))
        elif key_mode == "highbits" and depth < 16:
            k = tuple(v | (rng.randrange(1, 1 << (16 - depth)) << depth) for v in rng.choice(flat))
        elif key_mode == "nearrep" and depth == 8:
            # a key that no replicated low-depth sample equals although its leading bits repeat at its end (0x41, 0x9a, 0x81, ...):
            # a depth reduction must drop it, not turn it into a live key
            def nr():
                n = rng.choice([1, 2])
                pat = rng.randrange(1 << n)
                rep_ = sum(pat << s for s in range(0, 8, n))
                while True:
                    v = (pat << (8 - n)) | pat | (rng.randrange(256) & (((1 << (8 - 2 * n)) - 1) << n))
                    if v != rep_:
                        return v
            k = tuple(nr() for _ in range(pg.CHANNELS[ct]))
        elif key_mode == "hilo16" and depth == 16:
            k = tuple(rng.randrange(256) * 257 for _ in range(pg.CHANNELS[ct]))
        elif key_mode == "nonhilo16" and depth == 16:
            k = tuple((rng.randrange(256) << 8) | rng.randrange(256) for _ in range(pg.CHANNELS[ct]))
        else:
            k = rng.choice(flat)
        extra = k[0] if ct == 0 else k
    data = pg.pack_image(pixels, w, h, ct, depth, il)
    return pg.img_token(w, h, ct, depth, il, extra, data), {"cls": cls, "key": key_mode}


KEY_MODES = ["none", "none", "used", "unused", "hilo16", "nonhilo16", "nearrep"]
# "highbits" (non-zero bits above the sample depth in tRNS) is not a well-formed PNG; it is used only by the robustness check (C05)

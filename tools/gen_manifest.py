#!/usr/bin/env python3
"""Writes MANIFEST.json from the table below (single source of truth for claimed checks)."""
import json, os
V = os.path.dirname(os.path.dirname(os.path.abspath(__file__)))
BASE_NOTE = ("Trusted: Coq 8.16.1 kernel (+vm_compute for finite sweeps), ExtrOcamlBasic extraction, OCaml driver, Rust harness, "
             "Python generators/zlib. The hand-written Gallina model is tied to /repo by the correspondence run of this check "
             "(differential, generated cases) and a regenerated constants file; ")
CLAIMED = {
 "C01": dict(
   text="Hand-written executable Gallina model of the whole optimisation pipeline (from_slice, all reductions incl. palette sorters, perform_reductions, evaluator, perform_trials, optimize_raw/png, output), replayed against the real code on every run under the recorded zlib oracle: byte-identical outputs, and no compressor call the model does not predict. Machine-checked theorems (Properties/C01.v): (1) per-pixel exactness of the sample mappings; (2) IMAGE LEVEL, every width/height/interlacing: 16->8, sub-byte expansion and reduction, RGB(A)->gray(A), alpha removal, ->indexed, indexed->channels, palette condensation, luma sort, palette reorders covering the used indices, the two co-occurrence palette sorters mzeng and battiato (connectivity of the co-occurrence graph; vertex colouring with a history argument over the complete edge list), Adam7 interlacing AND de-interlacing (the pass/row state machine of src/interlace.rs, bits and bytes variants) each keep a well-formed image at its meaning (Spec/Sem); PngImage::new's image means what the specification decodes from the IDAT stream (C01_parsed_image_means); (3) PIPELINE: perform_reductions keeps the baseline and every candidate, optimize_raw's choice, the filtered stream behind the emitted IDAT (all ten strategies) and finally the BYTES WRITTEN (decoded by the specification's whole-file decoder Spec/DecodeFile: strict container, IHDR, PLTE/tRNS, inflate, un-filtering, Adam7, colour) at the picture the input image means; (4) FILE TO FILE: from_slice reads a valid datastream the way the specification's whole-file decoder does (C01_input_parse_means) and optimize_from_memory returns the input bytes or a serialisation that the specification decodes to the INPUT FILE's picture (C01_file_to_file_partial); (5) THE FULL STATEMENT C01_file_to_file: optimize_from_memory e o bytes = Ok out -> spec_decode_png inflate out = Some pic, with the container side conditions DERIVED from the input (Proofs/ContainerOk.v) - for every option vector with the lossy switches off, every compressor, evaluator schedule and clock. Nothing is assumed about the reductions. Every image any reduction produces and every output file (also after 2-3 chained runs) is additionally decoded by the extracted specification and compared with the input at 16-bit RGBA.",
   design="DESIGN.md §3 C01",
   note=BASE_NOTE + "Hypotheses of the full statement C01_file_to_file: the zlib oracle (inflate(deflate x)=x; the code's inflate is the specification's and returns bytes; the compressor never returns 2 GiB) and validity of the input (shorter than 2^31 - 9 bytes, one IHDR, at most one PLTE/tRNS, colour key within the sample range, size within usize); the theorems suffixed _partial additionally take the container side conditions as hypotheses. These are exercised per run by correspondence + specification oracle. zlib is an oracle (re-validated with Python zlib).",
   technique='Coq proof (image-level lifting theorems, finite byte tables by vm_compute over complete domains, pipeline invariant, filter/stream/file decode) + whole-pipeline model replay + extracted spec decoder as oracle'),
 "C03": dict(
   text='Machine-checked (Properties/C03.v): alpha-equivalence is an equivalence on pixels and pictures; IMAGE LEVEL (every size, interlaced or not): blackening of transparent pixels, alpha channel -> colour key with an unused colour, palette condensation with merged transparent entries and indexed->channels with alpha optimisation map a well-formed image that means pic to one that means an alpha-equivalent picture; PIPELINE: with alpha optimisation on or off every candidate of perform_reductions and the image optimize_raw chooses are alpha-equivalent to the input; FILTER STAGE (optimize_alpha inside filter_image, all five filter branches, line data threaded through the candidates of the heuristics): each rewritten scan line differs from the line only in the colour bytes of fully transparent pixels (C03_alpha_line), the stream filter_image writes with the optimisation on is decoded by the specification to an alpha-equivalent picture for all ten strategies and any Brute oracle (C03_filter_alpha_stream), and so is the stream compressed into the emitted IDAT (C03_emitted_stream_alpha_partial). The model is tied to the code differentially; every filtered stream and every --alpha output file is decoded by the extracted specification and must be alpha-equivalent to the input.',
   design="DESIGN.md §3 C03",
   note=BASE_NOTE + 'FILE TO FILE (C03_file_to_file) under the hypotheses of C01 (zlib oracle, input validity); nothing is assumed about the reductions or about what is written.',
   technique='Coq proof (relational lifting of alpha-equivalence, alpha_scan invariant, palette normalisation) + differential correspondence + spec oracle (alpha-equivalence)'),
 "C14": dict(
   text="Machine-checked (Properties/C14.v): the COMPLETE decision table of preprocess_chunks (what happens to the iCCP chunk and which switches are turned off) as an equation, and its corollaries in the words of the property: "
        "ICC kept (as is or recompressed) => grayscale conversion off; sRGB-tagged => conversion only if stripping enabled; replacement by sRGB only if stripping enabled, sRGB kept and profile recognised, with intent = byte 67; dropped for an existing sRGB only under the same policy condition; "
        "recompressed profile inflates to identical bytes (zlib oracle); a gray<->colour move leaves no sRGB/iCCP; the same down to what is written (optimize_png_data: kept profile / sRGB tag with stripping disabled => the image written has the input's grayness; a move => no sRGB/iCCP chunk written). The profile-id and CRC tables and the buffer guess of extract_icc are regenerated from headers.rs on every run. Tied by model replay and function-level comparison of the table lookup.",
   design="DESIGN.md §3 C14",
   note=BASE_NOTE + "the three CRC-identified known-bad profiles (3 KB each) are covered by the table-lookup correspondence only.",
   technique="Coq proof (exhaustive case analysis of the decision function) + regenerated constants + model replay + declarative oracle"),
 "C15": dict(
   text='Machine-checked (Properties/C15.v): the scaling function equals round(v/257) on all 16-bit values, that is the unique nearest 8-bit value (no ties), the colour key is rounded the same way, every scaled pixel means exactly the rounded samples under the rounded key, and IMAGE LEVEL: the scaled image means the input picture with every sample and the key rounded, for every size, interlaced or not. The Rust f32 expression is tied to the integer model EXHAUSTIVELY (65536 values) and in every channel position of every 16-bit colour type on each run, plus images whose samples share a byte pattern (whole-image shortcuts); end-to-end --scale16 outputs are decoded by the extracted specification.'
        ' PICTURE / PIPELINE / FILE: the scaled meaning is a per-pixel function (scaled_px) of the input picture and the colour key alone (C15_scaled_is_picture_map); with scaling requested, bit-depth reductions enabled and the clock not expired at the 16->8 step, the baseline and every candidate handed to the evaluator, for all other options and clock answers, are at most 8 bits deep and mean the rounded picture (C15_pipeline_scaled, C15_emitted_scaled); the file returned by optimize_from_memory for a valid 16-bit non-animated input decodes under the specification either to the input picture (only when nothing was emitted or the input is returned) or, with an at-most-8-bit header, to the rounded picture (C15_file_to_file); for inputs that are not 16-bit optimize_from_memory is the same function whatever scale_16 says (C15_not_16_bit_same).',
   design="DESIGN.md §3 C15",
   note=BASE_NOTE + 'f32 arithmetic of rustc is not modelled in Flocq; it is compared exhaustively instead. Scaling belongs to the bit-depth class: with bit-depth changes disabled (C08) nothing is scaled.',
   technique='Coq proof (lia over all 16-bit values; image-level lift; pipeline invariant; file-to-file) + exhaustive correspondence + spec oracle'),
 "C02": dict(
   text="Machine-checked (Properties/C02.v): `output` is the signature followed by the serialisation of an explicit chunk sequence; the specification's strict container parser (lengths, CRC over type+data, IEND last, nothing after) "
        "accepts it and reads back exactly that sequence, for every PngData with well-formed chunk names; the sequence is IHDR(13 bytes from the header) … single IDAT … IEND with PLTE/tRNS synthesised from the header before IDAT; CRC-32 fits 32 bits; "
        "the specification's WHOLE-FILE decoder (Spec/DecodeFile.v) reads the written file as the inflated IDAT content under exactly the header and palette/key of the written image (C02_output_decodes); "
        "the IDAT content of the emitted candidate (no assumption about the reductions) is the compressor's answer for a stream that the specification cuts into exactly the rows the header implies, each with a filter type 0..4, and that un-filters to the image data (C02_idat_content_partial). "
        "THE WHOLE CALL: the container conditions of everything optimize_png writes follow from the parsed input (C02_container_side_conditions) and the file returned for a valid input is strictly parsed and decoded by the specification (C02_optimized_file_wellformed). "
        "The chunk sequence written for an animation is accepted by the APNG specification's reader (consistent acTL/fcTL/fdAT numbering) and reads back the frames of the PngData (C02_animation_numbering). "
        "Every output of every run (PNG, chunk-rich, APNG; all options incl. lossy, zopfli, force, strip) is validated by a strict validator written from the specification and decoded by the extracted spec; a constraint counts only if the input satisfied it.",
   design="DESIGN.md §3 C02",
   note=BASE_NOTE + "PARTIAL: the IDAT-content theorem is stated for runs without alpha rewriting (with -a: C03_emitted_stream_alpha_partial); that inflate undoes the compressor is the zlib oracle assumption; the input-relative ordering constraints of ancillary chunks are decided per run by the validator oracle. "
        "F8 (hIST kept without PLTE) was repaired (fix 2fc6ac2).",
   technique="Coq proof (serialise/parse round trip by induction over the chunk list; CRC range via log2/lxor bounds) + strict validator oracle"),
 "C04": dict(
   text="Machine-checked on the whole pipeline model, for every oracle environment (any compressor behaviour, any deadline pattern): without force the result of the in-memory call is the input bytes or strictly shorter; "
        "chains with varying options never grow a file; repeated runs reach a byte-level fixed point within length(input) steps. Tied to the code by replaying optimize_from_memory on the model (byte-identical), "
        "with already-optimal, tiny, multi-IDAT and APNG inputs and repeated runs to the fixed point.",
   design="DESIGN.md §3 C04",
   note=BASE_NOTE + "the file-routing half (in place: no write; other destination: copy of the input) is part of the I/O model of C12.",
   technique="Coq proof (case analysis on the final decision; strong induction on length for the fixed point) + model replay"),
 "C05": dict(
   text="Machine-checked (Properties/C05.v), with every Rust panic point an explicit Panic value of the model: the chunk walker terminates within its fuel and never panics for any byte string and policy; header parsing never panics and yields only legal colour-type/bit-depth pairs; "
        "an image is decoded only if its size is below 1032 x (compressed bytes + 1) with non-zero dimensions, and the unfiltered data is no longer than that; raw_data_size is exactly min(specification's size, usize::MAX) (saturating arithmetic); the 1032 of that rule is the literal of the current source (regenerated constant, C05_size_rule_literal_is_source); un-filtering a stream of the implied size, PngImage::new and the WHOLE parser PngData::from_slice never panic, for every byte string below 2^54 bytes, policy and error-fixing flag, assuming only that the decompressor returns (C05_from_slice_no_panic). "
        "Runtime: isolated worker processes (catch_unwind, counting global allocator: largest single request and peak, RLIMIT_AS, watchdog) over every truncation, single-byte corruptions, chunk- and field-level edits of a structured corpus, hand-built absurd headers and raw tuples; debug and (thorough) release profile; outcome classes replayed on the model.",
   design="DESIGN.md §3 C05",
   note=BASE_NOTE + "PARTIAL: absence of Panic inside the reductions/filters for every accepted image and the peak of simultaneously live buffers are measured, not proved; memory safety of unsafe code and FFI is exercised only. Four genuine defects were repaired (fix commits 57dbdb7, e8d3884, 4d8f6d0, 0164411).",
   technique="Coq proof (fuel/termination argument, case analysis) + fault-injection style mutation corpus in isolated workers"),
 "C06": dict(
   text="Machine-checked (Properties/C06.v): the concurrent trials are a labelled transition system with an arbitrary schedule; every complete schedule, and the synchronous fold of the non-parallel build, "
        "return best_of = the key-minimal eligible trial; the pipeline model only consults best_of and has no schedule parameter. Tied to the code by forcing schedules in the real rayon pool "
        "(all 90 interleavings of 3 trials, random ones of up to 8) and replaying the OBSERVED event order on the LTS (trace validation); outputs compared across pool sizes 1..16, nested pools and the non-parallel build.",
   design="DESIGN.md §3 C06",
   note=BASE_NOTE + "PARTIAL for the runtime half: interleavings inside libdeflate/zopfli/rayon finer than the two shared-state accesses per trial are exercised, not modelled; compressors are assumed deterministic functions of (deflater, input).",
   technique="Coq proof (invariant over LTS runs by induction on the schedule) + forced-schedule trace validation"),
 "C07": dict(
   text="Machine-checked (Properties/C07.v): the policy function is the documented one (the `safe` list equals the list parsed from MANUAL.txt on this run, so the theorem is re-checked against the current source); picture-defining chunks are dispatched before the policy is consulted; "
        "a stripped chunk leaves no trace in the parser state; a kept chunk is recorded with identical name and payload; the C2PA rule; postprocess_chunks is exactly the documented conditional filter (nothing invented, order kept). "
        "FILE TO FILE: the ancillary list from_slice builds is a closed formula over the specification's chunk list of the input (kept chunks before the image data, marker, kept chunks after, each once and in file order; nothing invented), "
        "postprocess_chunks is a filter acting on each side of the image data, the ICC decision rewrites the side on which the first iCCP chunk stands (C07_icc_decision_each_side), the chunk sequence written is explicit (C07_written_closed_form), and the whole call is their composition (C07_file_chunk_flow); "
        "order: each of the two classes written before IDAT keeps its order (C07_order_partial); 'same relative order' across the classes is refuted with the F9 witness (C07_order_refuted). "
        "End to end: model replay on chunk-rich inputs x all policy kinds, and a declarative oracle computing the expected ancillary list of the output.",
   design="DESIGN.md §3 C07",
   note=BASE_NOTE + "KNOWN FINDING F9 (listed in known_findings.json): bKGD/hIST that precede other pre-IDAT ancillary chunks are re-emitted after them. When the result is not smaller the input is returned unchanged (C04) and the policy is not applied.",
   technique="Coq proof (case analysis of the chunk dispatcher; filter characterisation) + model replay + declarative oracle"),
 "C08": dict(
   text="Machine-checked on the pipeline model (Properties/C08.v), for every oracle environment and every setting of the other switches: with bit-depth / colour-type / grayscale changes disabled the emitted image keeps "
        "its bit depth / colour type code / grayness; with palette changes disabled an indexed image that stays indexed keeps its exact palette; 'keep' preserves the interlace flag and a requested mode is the mode of whatever is emitted; "
        "dimensions never change; with everything disabled optimize_raw produces nothing (IDAT re-emitted bit for bit). Proof = a generic invariant theorem over the twelve blocks of perform_reductions + provenance of the emitted image. "
        "DOWN TO THE FILE: the same statements for the header of the PngData that `output` serialises (optimize_png_data, under the pre-processed options; a kept animation never changes its interlacing, a requested mode is the mode of whatever is emitted for a still image) and for the in-memory call (C08_memory_call). "
        "Tied to the code by model replay over all 16 switch subsets; oracle compares IHDR/PLTE/tRNS/IDAT directly.",
   design="DESIGN.md §3 C08",
   note=BASE_NOTE + "the link from the model image header to the IHDR bytes of `output` is by definition of the model's `output` (tied by replay).",
   technique="Coq proof (invariant over the reduction blocks, header-effect lemma per transformation) + model replay"),
 "C09": dict(
   text="Machine-checked (Properties/C09.v) on the model of parse_opts_into_struct / collect_files / exit fold / routing, against constants parsed from MANUAL.txt on every run: every row of the manual's preset table is what from_preset builds; default = level 2, interlace 0; "
        "explicit settings override the preset and everything not given comes from it (flags are a record, so order cannot matter); --nx switches the four reductions off and implies keep-interlacing unless -i is given; strip/keep; critical chunk names refused; exit status 0/1/3 (iff); "
        "only .png/.apng below top level, directories only with --recursive; routing. End to end: the REAL binary (no hooks) with random flag vectors and shuffled argument order vs the library called with the option value the extracted model computes; stdout / files / exit status compared.",
   design="DESIGN.md §3 C09",
   note=BASE_NOTE + "clap's own parsing (conflicts, value validation, help) is library code, modelled as accepted/refused; Windows glob expansion is not modelled.",
   technique="Coq proof (rewrite database of per-stage projection lemmas; finite case analysis) + regenerated manual constants + black-box CLI vs library differential"),
 "C10": dict(
   text="Machine-checked (Properties/C10.v): recompression preserves number, order and every fcTL field of the frames and replaces frame data only by strictly smaller data; fcTL serialisation/parsing are inverse on all fields; "
        "sequence numbers written are consecutive; when the policy does not keep all of acTL/fcTL/fdAT they are all ignored (plain PNG); FRAME PIXELS: a frame's data is replaced only by the compression of a stream that the specification decodes - frame dimensions, the image's colour type, depth, interlacing - to the same picture (alpha-equivalent under -a), for all ten filter strategies and every subset of frames skipped by the clock (C10_frame_pixels). Generated APNGs (0..4 extra frames, split fdAT, default image in/out, sub-rectangles, all colour types, interlaced) x options: "
        "FILE TO FILE against the APNG specification (Spec/Apng.v, written from the specification: frames opened by fcTL, default image as frame 0 when its fcTL precedes IDAT, fdAT data of the last opened frame, one sequence counter): "
        "for every input the specification reads as an animation (animation chunks kept, file below 4 GiB, no empty IDAT chunk) the result is the input or the serialisation of a chunk sequence whose animation has the same number of frames in the same order "
        "with identical size, offset, delay, dispose and blend fields and default-image flag, frame data unchanged or strictly smaller (C10_file_to_file; C10_parsed_animation, C10_written_animation). "
        "A kept animation is written with exactly the header of the input - palette / key, depth, interlacing (C10_header_untouched) - every frame decodes under that one header to the same picture (C10_animation_frames_pixels), and the acTL chunks (frame count, play count) of the written sequence are those of the input (C10_control_file_to_file). "
        "model replay, structural comparison of input and output, every frame decoded by the extracted specification.",
   design="DESIGN.md §3 C10",
   note=BASE_NOTE + "the frame-pixel theorem is under the zlib oracle assumption; every frame of every output is also decoded per run. F6 was repaired (fix 0e2fef8).",
   technique="Coq proof (induction over the frame list; byte-level round trip of fcTL; lock-step simulation between the parser and the APNG specification) + model replay + per-frame spec decode"),
 "C11": dict(
   text="Machine-checked (Properties/C11.v): the constructor never panics and accepts exactly the consistent tuples (iff); the created file is `output` of a pipeline candidate with the given dimensions, so the container/structure theorems of C02 and the policy theorems of C07/C14 apply to it; PIXELS: the file created for a raw image that means pic is decoded by the specification's whole-file decoder to pic (alpha-equivalent under alpha optimisation) (C11_created_decodes). "
        "Generated consistent and inconsistent tuples with attached chunks / ICC profiles x options: model replay of the whole API, strict validation, and decode by the extracted specification against the raw samples.",
   design="DESIGN.md §3 C11",
   note=BASE_NOTE + "pixel fidelity of the created file is proved (C11_created_decodes, zlib oracle) and decided per run by the oracle. Indices outside a supplied palette are accepted by the API (not part of the property's rejection list). F7 repaired (fix 13eac94).",
   technique="Coq proof (iff characterisation of acceptance; provenance) + model replay + spec oracle"),
 "C12": dict(
   text="Machine-checked (Properties/C12.v) on a plan + executor model of `optimize` over an abstract file system with a fault plan (the k-th operation fails, or the process is killed at it), for every file system, optimiser behaviour, routing and fault: "
        "whatever fails or wherever the process dies up to and including the computation, files and standard output are exactly as before; every failing operation of the plan yields an error result; --pretend touches nothing; only the destination is ever created/written; "
        "in place without improvement performs no write operation; --preserve copies mode and both timestamps. Tied to the code by running the REAL executable under strace: the normalised system-call trace of each routing equals the model's plan and the final files equal the model's; "
        "an error return is injected into each operation of the plan and SIGKILL is delivered at every system call before the write phase, the directory being compared with its prior state.",
   design="DESIGN.md §3 C12",
   note=BASE_NOTE + "PARTIAL (runtime): kernel/file-system semantics (a failed call has no effect, durability of completed writes) and strace's reporting are trusted; a crash during the write phase is outside the property. close() errors are discarded by the Rust standard library and are therefore not reportable.",
   technique="Coq proof (closed form of a fault-plan executor; structure of the operation plan) + strace trace conformance + exhaustive syscall-level fault injection"),
 "C13": dict(
   text="Machine-checked (Properties/C13.v): the clock is an oracle of the model, so the pipeline theorems hold for every pattern of answers; never-larger under any landing point; the evaluator returns the minimal completed trial "
        "whichever trials were skipped; FIDELITY for an arbitrary (even non-monotone) clock: the file-to-file theorems of C01/C03 and the frame theorem of C10 instantiated with an explicit clock (C13_fidelity_any_clock, C13_alpha_fidelity_any_clock, C13_frames_any_clock). Tied to the code through the deadline hook: for EVERY k in 0..K (K = consultations of the untimed run) the run with expiry at the k-th check is replayed on the model under the recorded clock, "
        "decoded by the extracted specification and compared in size; animated images additionally under explicit answer patterns over the frame checks (any subset of frames can see the timeout) with every frame decoded; the executable with an already expired timeout through every routing.",
   design="DESIGN.md §3 C13",
   note=BASE_NOTE + "fidelity under deadlines holds under the hypotheses of C01's file-to-file theorem (zlib oracle, container / input side conditions) and is additionally decided per run by the oracle at every landing point. The wall clock itself is replaced by the hook.",
   technique="Coq proof (universally quantified clock oracle) + exhaustive landing-point enumeration with model replay"),
 "C16": dict(
   text="Machine-checked (Properties/C16.v) on the collector / task protocol of the Evaluator as a labelled transition system (caller, tasks, environment = rayon starting a job), for every number of images and filters and every interleaving: "
        "no reachable non-final state is stuck as soon as the calling thread can run jobs itself (yield_local) or some other worker can - including a pool whose only available thread is the caller; while the caller blocks in the receive every task it waits for has already started; "
        "every move decreases a measure (no livelock, run length bounded); a run that cannot be extended has returned with all tasks finished and the channel empty and disconnected (nothing left in the pool). "
        "Also proved: without the wait for executed >= nth a one-thread pool deadlocks. Tied to the code by trace validation of the hook events of every Evaluator in the real pool; explored at run time over call sites x pool sizes x concurrent inputs x options x perturbation seeds under a watchdog, followed by further work on the same pool.",
   design="DESIGN.md §3 C16",
   note=BASE_NOTE + "PARTIAL (runtime): liveness of rayon's scheduler (a spawned job is eventually started when a worker is free; work stealing; yield_local) and of crossbeam-channel is an ASSUMPTION of the theorems (cfg_live and the environment moves), exercised under a watchdog but not modelled; "
        "the inner parallel iterator over filters is modelled as sequential trials.",
   technique="Coq proof (invariant + well-founded measure over an LTS; deadlock witness for the weakened protocol) + trace validation of hook events + watchdog exploration of pool shapes"),
 "C17": dict(
   text="Machine-checked (Properties/C17.v): for every completion order the returned candidate is a completed trial, minimal under the fixed key (size, raw bytes, filter, later submission) among all completed trials, "
        "and the minimum of all trials that fit the initial bound; the key is a strict total order. Tied to the code with the trial tap: every completed final-round trial of optimize_raw vs the emitted IDAT, and the Evaluator alone under random schedules.",
   design="DESIGN.md §3 C17",
   note=BASE_NOTE + "two genuine defects were repaired (fix commits 9e5a3fe, c40427e): results of the earlier evaluation round were replaced by / discarded for larger ones.",
   technique="Coq proof (LTS invariant) + tapped trial sizes compared with the emitted result"),
 "C18": dict(
   text="Machine-checked theorems (Properties/C18.v), for every width and height >= 1 and every pixel size >= 1 bit, no bound: the scan-line iterator emits exactly the "
        "specification's Adam7 pass rows and byte lengths (empty passes omitted); raw_data_size equals the specification's total; the routing table of interlace_image is the "
        "specification's 8x8 matrix; the pixel routing of interlace_image equals the specification's pass images; the k-th pixel of a pass row is source pixel x0+k*dx; "
        "ROUND TRIP: the specification's de-interlacing of an interlaced image returns the image (spec_deinterlace (spec_interlace rows) = Some rows, every w, h) and each pixel is read back where it was; "
        "WHOLE IMAGES, bytes in and bytes out, BOTH DIRECTIONS: interlace_image (scan lines -> pixels -> pass rows -> packed, padded bytes) yields data that the specification's Adam7 layout reads back as the same picture, and deinterlace_image - the pass/row state machine with increment_pass skipping empty passes and the per-line scatter, bits and bytes variants - computes the specification's de-interlacing (C18_deinterlace_is_spec, C18_increment_pass) and yields an image that means the same picture (C18_deinterlace_image_meaning). "
        "Tied to the code on every run over every geometry of the tier and decoded by the extracted specification in both directions and there-and-back.",
   design="DESIGN.md §3 C18",
   note=BASE_NOTE + "interlace/deinterlace are modelled at pixel granularity (the Rust moves single bits/bytes with the same index arithmetic). "
        "u32 overflow of row+step for heights near 2^32 (needs > 8 GB of image data) is not modelled.",
   technique="Coq proof (induction over passes/rows, lia with div/mod, finite 8x8x7 table by vm_compute lifted through mod 8) + per-geometry correspondence"),
 "C19": dict(
   text="Machine-checked theorems (Properties/C19.v): the specification's reconstruction inverts its filter for every filter type, pixel size and neighbour bytes; "
        "oxipng's filter_line model equals the specification's filter and its unfilter_line equals the specification's reconstruction (all lines, no length bound); "
        "IMAGE and STREAM LEVEL: for all ten strategies (any choice oracle for Brute) the rows filter_image writes for an image of any size, interlaced or not - first rows of the image and of every pass, the all-zero-row shortcut and its stale-pass corner included - have filter types 0..4 and are reconstructed by the specification's decoder of a whole (possibly interlaced) image to exactly the scan lines filtered; the concatenated stream un-filters to the image data. "
        "The model is tied to the code on every run: Paeth exhaustively (2^24), filter_line/unfilter_line/filter_image (10 strategies)/unfilter_image differentially, "
        "and everything oxipng writes is decoded by the extracted specification.",
   design="DESIGN.md §3 C19",
   note=BASE_NOTE + "Brute strategy's per-row choice is a model oracle (instantiated with oxipng's own choices; the theorems hold for every oracle); libdeflate inside Brute is not modelled. With -a the rows decode to the REWRITTEN lines (proved in C03_filter_alpha_stream: alpha-equivalent picture). unfilter_image of foreign files equals the specification's un-filtering of the whole stream (C19_unfilter_image_is_spec).",
   technique="Coq proof (induction over scan lines, mod-256 arithmetic by lia) + exhaustive/differential correspondence with extracted model"),
}
ALL = [f"C{i:02d}" for i in range(1, 20)]
def main():
    checks = []
    for p in ALL:
        if p not in CLAIMED: continue
        c = CLAIMED[p]
        checks.append({
          "property_id": p,
          "quick_cmd": f"./check {p} --tier quick",
          "thorough_cmd": f"./check {p} --tier thorough",
          "evidence_file": f"/verif/evidence/{p}.json",
          "replay_cmd_template": f"./check {p} --replay {{path}}",
          "engine": "coq+correspondence",
          "level_claimed": {"category": "proof", "text": c["text"], "design_ref": c["design"]},
          "level_note": c["note"],
          "technique": c["technique"],
        })
    man = {
      "version": 1,
      "setup_cmd": "./check setup",
      "hooks": {
        "guard": "cargo feature \"verif\"",
        "enable": "the harness crate /verif/harness depends on oxipng = { path = \"/repo\", features = [\"verif\", …] }; the CLI binary used by C09/C12 is built without it",
        "baseline_off_cmd": "cd /repo && (cargo nextest run --workspace --no-fail-fast --test-threads 8 --offline || cargo test --workspace --no-fail-fast --offline)",
        "source_commits": json.load(open(os.path.join(V, "hooks.json")))["source_commits"],
        "add_only": True,
      },
      "engines": [
        {"name": "coq", "path": "/verif/coq", "serves_properties": sorted(CLAIMED), "kind_free_text": "Gallina model + spec + theorems, Coq 8.16.1, full .vo build"},
        {"name": "modelrun", "path": "/verif/ocaml", "serves_properties": sorted(CLAIMED), "kind_free_text": "OCaml extraction of model/spec behind a line protocol"},
        {"name": "implrun", "path": "/verif/harness", "serves_properties": sorted(CLAIMED), "kind_free_text": "Rust harness linking /repo with feature verif, same line protocol"},
      ],
      "checks": checks,
      "notes": "One driver: ./check <id> --tier quick|thorough. Every check rebuilds (incrementally) the Coq development, the extraction and the harness from /repo's working tree.",
      "not_applicable": [{"property_id": p, "reason": "not claimed"} for p in ALL if p not in CLAIMED],
    }
    json.dump(man, open(os.path.join(V, "MANIFEST.json"), "w"), indent=1)
if __name__ == "__main__":
    main()

#!/bin/sh
# run every property's quick check under several seeds on /repo's current tree (looking for seed-dependent false alarms)
cd /verif
for seed in "$@"; do
  echo "== seed $seed"
  for i in 01 02 03 04 05 06 07 08 09 10 11 12 13 14 15 16 17 18 19; do
    VERIF_SEED=$seed ./check C$i --tier quick 2>&1 | grep -E "^(VIOLATION|INFRA|C$i:)" | tail -3
  done
done

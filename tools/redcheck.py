"""Function-level tie and semantic oracle for the reductions of src/reduction/*.rs, shared by
C01 (lossless), C03 (alpha optimisation) and C15 (16->8 scaling)."""
import os

import imggen
import pnggen as pg
import vlib

# (command suffix, expected relation between input and output semantics)
LOSSLESS = [
    ("16to8 {img} 0", "eq"),
    ("8orless {img}", "eq"),
    ("expand8 {img}", "eq"),
    ("rgb2gray {img}", "eq"),
    ("alpha {img} 0", "eq"),
    ("toindexed {img} 0", "eq"),
    ("toindexed {img} 1", "eq"),
    ("tochannels {img} 0 0", "eq"),
    ("tochannels {img} 1 0", "eq"),
    ("palette {img} 0", "eq"),
    ("sortpal {img}", "eq"),
    ("battiato {img}", "eq"),
    ("mzeng {img}", "eq"),
]
ALPHA = [
    ("alpha {img} 1", "alphaeq"),
    ("cleanalpha {img}", "alphaeq"),
    ("tochannels {img} 0 1", "alphaeq"),
    ("tochannels {img} 1 1", "alphaeq"),
    ("palette {img} 1", "alphaeq"),
]
SCALE = [
    ("16to8 {img} 1", "scaled"),
    ("scale16 {img}", "scaled"),
]


def applicable(cmd, ct, depth):
    name = cmd.split()[0]
    if name in ("16to8", "scale16"):
        return depth == 16 or name == "16to8"
    if name == "8orless":
        return depth == 8 and ct in (0, 3) or depth != 8
    if name == "expand8":
        return True
    if name == "rgb2gray":
        return ct in (2, 6) or ct == 0
    if name in ("alpha", "cleanalpha"):
        return ct in (4, 6) or ct == 2
    if name == "toindexed":
        return depth == 8 or ct == 3
    if name in ("tochannels", "palette", "sortpal", "battiato", "mzeng"):
        return ct == 3 or (ct == 0 and depth == 8)
    return True


def precondition_ok(m):
    """perform_reductions only hands the co-occurrence sorters images whose palette entries are all
    used and whose indices are all inside the palette (reduced_palette / reduced_to_indexed ran before)."""
    name = m["name"].split(":")[0]
    if name in ("mzeng", "battiato"):
        w, h, ct, depth, il, pal, data = pg.parse_img_token(m["tok"])
        if ct != 3 or depth != 8:
            return True
        return set(data) == set(range(len(pal)))
    return True


TARGETED = [
    (0, 8, "bitrep", "nearrep"), (0, 8, "bitrep", "used"), (0, 8, "bitrep", "unused"), (0, 8, "bitrep", "nearrep"),
    (0, 16, "hilo", "hilo16"), (0, 16, "hilo", "nonhilo16"), (0, 16, "hilo", "used"), (2, 16, "hilo", "hilo16"), (2, 16, "hilo", "nonhilo16"),
    (2, 8, "gray", "used"), (2, 8, "gray", "unused"), (2, 16, "gray", "used"), (2, 8, "fewcolors", "used"), (0, 8, "fewcolors", "used"),
    (0, 4, "random", "used"), (0, 2, "random", "used"), (0, 1, "random", "used"), (0, 4, "random", "unused"), (0, 8, "bitrep", "nearrep"),
    (4, 8, "binalpha", "none"), (6, 8, "binalpha_gray", "none"), (4, 16, "binalpha", "none"), (6, 16, "binalpha", "none"), (4, 8, "banded_key", "none"),
    (3, 8, "fewcolors", "none"), (3, 4, "random", "none"), (3, 8, "gray", "none"), (3, 2, "random", "none"), (3, 1, "random", "none"),
    (4, 16, "nearalpha", "none"), (6, 16, "nearalpha", "none"), (4, 8, "nearalpha", "none"), (6, 8, "nearalpha", "none"),
    (6, 16, "nearalpha", "none"), (4, 16, "nearalpha", "none"),
]


def run_reductions(rep, table, n_images, prefix, sig_prefix, big=False):
    rng = rep.rng
    impl = os.path.join(rep.info["bin"], "implrun")
    model = os.path.join(vlib.BUILD, "ocaml", "modelrun")
    cs = vlib.Cases()
    for k in range(n_images):
        ct, depth = pg.LEGAL[k % 15] if k < 15 * 8 else rng.choice(pg.LEGAL)
        il = rng.random() < 0.35
        w, h = imggen.pick_dims(rng, big)
        if w * h * depth * pg.CHANNELS[ct] > 72 * 72 * 64:
            w, h = min(w, 16), min(h, 16)
        cls = rng.choice(imggen.CLASSES)
        key = rng.choice(imggen.KEY_MODES)
        if k % 3 == 2:
            # combinations in which a reduction fires AND a colour key has to be carried along (or dropped) correctly
            ct, depth, cls, key = TARGETED[(k // 3) % len(TARGETED)]
        tok, info = imggen.gen(rng, ct, depth, w, h, il, cls, key)
        for cmd, rel in table:
            if not applicable(cmd, ct, depth):
                continue
            cs.add("reduce " + cmd.format(img=tok), rel=rel, tok=tok, name=cmd.split()[0] + ":" + ":".join(cmd.split()[2:]),
                   ct=ct, depth=depth, il=il, cls=cls, key=key)
    ri = vlib.run_cases(impl, cs.lines)
    rm = vlib.run_cases(model, cs.lines)
    rep.evaluations += len(cs.lines)
    for cid, cmd, a, b in vlib.diff_results(cs, ri, rm):
        rep.corr_break(prefix + " reduction " + cs.meta[cid]["name"], cmd, a, b)
    # semantic oracle on every image the implementation produced
    orc = vlib.Cases()
    for cid, m in cs.meta.items():
        r = ri.get(cid, "")
        fired = r.startswith("some ")
        rep.count(f"{m['name']}:{'fired' if fired else r.split(' ')[0]}")
        if (r.startswith("panic") or r.startswith("died")) and precondition_ok(m):
            rep.violation(f"{sig_prefix}:reduction-panic:{m['name']}", f"reduction {m['name']} panicked on a well-formed image",
                          {"cases": [m["cmd"]], "impl": r})
        if fired:
            rep.nontriv(m["cmd"])
            out = r[5:]
            if m["rel"] == "scaled":
                orc.add(f"spec_scaled_rel {m['tok']} {out}", src=cid)
            else:
                orc.add(f"spec_rel {m['tok']} {out}", src=cid)
    ro = vlib.run_cases(model, orc.lines)
    for oid, m in orc.meta.items():
        src = cs.meta[m["src"]]
        got = ro.get(oid)
        ok = (got == "eq") or (src["rel"] == "alphaeq" and got == "alphaeq")
        if not ok:
            what = {"eq": "changed the decoded pixels", "alphaeq": "changed alpha or the colour of a non-transparent pixel",
                    "scaled": "did not round every sample to the nearest 8-bit value"}[src["rel"]]
            rep.violation(f"{sig_prefix}:semantics:{src['name']}", f"reduction {src['name']} {what} (spec relation: {got})",
                          {"cases": [src["cmd"]], "impl": vlib.short(ri.get(m["src"]), 1500), "relation": got, "expected": src["rel"]})
    if cs.lines:
        rep.sample(vlib.short(cs.lines[0], 220) + " -> " + vlib.short(ri.get("c0"), 120))
    return cs, ri

"""Shared machinery for the /verif checks: build (Coq, extraction, harness), case running,
correspondence diffing, proof status, evidence writing, known findings."""
import fcntl
import hashlib
import json
import os
import random
import re
import shutil
import subprocess
import sys
import time

VERIF = os.path.dirname(os.path.dirname(os.path.abspath(__file__)))
REPO = os.environ.get("OXI_REPO", "/repo")
BUILD = os.path.join(VERIF, "build")
COQ = os.path.join(VERIF, "coq")
NPROC = min(16, os.cpu_count() or 4)

ENV = dict(os.environ)
ENV.update({"CARGO_NET_OFFLINE": "true", "CARGO_TERM_COLOR": "never"})


def log(msg):
    sys.stderr.write(msg + "\n")
    sys.stderr.flush()


def sh(cmd, cwd=None, timeout=None, env=None, input=None):
    p = subprocess.run(cmd, cwd=cwd, timeout=timeout, env=env or ENV, input=input,
                       stdout=subprocess.PIPE, stderr=subprocess.STDOUT, text=True)
    return p.returncode, p.stdout


# --------------------------------------------------------------------------------------------- build
class BuildError(Exception):
    pass


class Lock:
    def __enter__(self):
        os.makedirs(BUILD, exist_ok=True)
        self.f = open(os.path.join(BUILD, ".lock"), "w")
        fcntl.flock(self.f, fcntl.LOCK_EX)
        return self

    def __exit__(self, *a):
        fcntl.flock(self.f, fcntl.LOCK_UN)
        self.f.close()


def coq_files():
    out = []
    for line in open(os.path.join(COQ, "_CoqProject")):
        line = line.strip()
        if line.endswith(".v"):
            out.append(line)
    return out


def build_coq():
    """Full .vo build (make -k so that one broken file does not hide the others). Returns the log."""
    rc, o = sh([sys.executable, os.path.join(VERIF, "tools", "gen_consts.py")])
    consts_ok = rc == 0
    mk = os.path.join(COQ, "Makefile")
    proj = os.path.join(COQ, "_CoqProject")
    if not os.path.exists(mk) or os.path.getmtime(mk) < os.path.getmtime(proj):
        rc, o2 = sh(["coq_makefile", "-f", "_CoqProject", "-o", "Makefile"], cwd=COQ)
        if rc != 0:
            raise BuildError("coq_makefile failed:\n" + o2)
    rc, out = sh(["timeout", "3000", "make", "-k", "-j", str(NPROC)], cwd=COQ)
    with open(os.path.join(BUILD, "coq.log"), "w") as f:
        f.write(out)
    return consts_ok, o, rc, out


def vo_ok(vfile):
    v = os.path.join(COQ, vfile)
    vo = v + "o"
    return os.path.exists(vo) and os.path.getmtime(vo) >= os.path.getmtime(v)


def build_ocaml():
    """Extraction + drivers; rebuilt when any .vo or driver source is newer than the binary."""
    od = os.path.join(BUILD, "ocaml")
    os.makedirs(od, exist_ok=True)
    exe = os.path.join(od, "modelrun")
    srcs = [os.path.join(COQ, f + "o") for f in coq_files() if not f.startswith(("Proofs/", "Properties/"))]
    srcs += [os.path.join(COQ, "Extract", "Extract.v"), os.path.join(VERIF, "ocaml", "modelrun.ml")]
    for s in srcs:
        if not os.path.exists(s):
            raise BuildError("missing " + s)
    if os.path.exists(exe) and all(os.path.getmtime(exe) >= os.path.getmtime(s) for s in srcs):
        return
    rc, o = sh(["timeout", "900", "coqc", "-Q", COQ, "OxiVerif", os.path.join(COQ, "Extract", "Extract.v")], cwd=od)
    if rc != 0:
        raise BuildError("extraction failed:\n" + o)
    shutil.copy(os.path.join(VERIF, "ocaml", "modelrun.ml"), od)
    rc, o = sh(["ocamlfind", "ocamlopt", "-O3", "-w", "-a", "-o", "modelrun.tmp", "model.mli", "model.ml", "modelrun.ml"], cwd=od)
    if rc != 0:
        rc, o = sh(["ocamlfind", "ocamlopt", "-w", "-a", "-o", "modelrun.tmp", "model.mli", "model.ml", "modelrun.ml"], cwd=od)
    if rc != 0:
        raise BuildError("ocaml build failed:\n" + o)
    os.replace(os.path.join(od, "modelrun.tmp"), exe)


def build_harness(release=False, parallel=True):
    hd = os.path.join(VERIF, "harness")
    lock_src = os.path.join(REPO, "Cargo.lock")
    lock_dst = os.path.join(hd, "Cargo.lock")
    if os.path.exists(lock_src):
        # keep the resolved versions of /repo; cargo adds the harness package itself
        if not os.path.exists(lock_dst):
            shutil.copy(lock_src, lock_dst)
    tgt = os.path.join(BUILD, "cargo" if parallel else "cargo-nopar")
    cmd = ["cargo", "build", "--offline", "--target-dir", tgt]
    if release:
        cmd.append("--release")
    if not parallel:
        cmd.append("--no-default-features")
    rc, o = sh(cmd, cwd=hd, timeout=1800)
    if rc != 0 and "Cargo.lock" in o:
        shutil.copy(lock_src, lock_dst)
        rc, o = sh(cmd, cwd=hd, timeout=1800)
    if rc != 0:
        raise BuildError("harness build failed (does /repo still compile with feature `verif`?):\n" + o[-4000:])
    return os.path.join(tgt, "release" if release else "debug")


def build_cli():
    tgt = os.path.join(BUILD, "cli")
    rc, o = sh(["cargo", "build", "--offline", "--manifest-path", os.path.join(REPO, "Cargo.toml"),
                "--target-dir", tgt], timeout=1800)
    if rc != 0:
        raise BuildError("CLI build failed:\n" + o[-4000:])
    return os.path.join(tgt, "debug", "oxipng")


def ensure_build(need_cli=False):
    """Everything a check needs, rebuilt from /repo's current working tree. Returns a dict."""
    with Lock():
        t0 = time.time()
        consts_ok, consts_out, rc, coqlog = build_coq()
        info = {"consts_ok": consts_ok, "consts_out": consts_out, "coq_rc": rc, "coq_log": coqlog}
        try:
            build_ocaml()
            info["ocaml_ok"] = True
        except BuildError as e:
            info["ocaml_ok"] = False
            info["ocaml_err"] = str(e)
        info["bin"] = build_harness()
        if need_cli:
            info["cli"] = build_cli()
        info["build_s"] = round(time.time() - t0, 1)
        return info


# --------------------------------------------------------------------------------------------- proofs
HYGIENE_RE = re.compile(r"\b(Admitted|admit|Axiom|Parameter|Conjecture|Unset Guard|bypass_check|type-in-type|"
                        r"Admit Obligations|Unset Universe Checking|Unset Positivity|impredicative-set)\b")
STD_AXIOMS_ALLOWED = set()  # none needed so far; every allowed axiom must be named here and in DESIGN.md


def strip_comments(src):
    out = []
    depth = 0
    i = 0
    while i < len(src):
        if src.startswith("(*", i):
            depth += 1
            i += 2
        elif src.startswith("*)", i) and depth > 0:
            depth -= 1
            i += 2
        else:
            if depth == 0:
                out.append(src[i])
            i += 1
    return "".join(out)


def hygiene():
    bad = []
    for root, _, files in os.walk(COQ):
        for fn in files:
            if fn.endswith(".v"):
                p = os.path.join(root, fn)
                src = strip_comments(open(p).read())
                for n, line in enumerate(src.split("\n"), 1):
                    if HYGIENE_RE.search(line):
                        bad.append(f"{os.path.relpath(p, COQ)}:{n}: {line.strip()[:100]}")
    return bad


def proof_status(prop):
    """Re-checks Properties/<prop>.v (dependencies are already compiled) and parses its output.
    Returns dict(ok, theorems, closed, axioms, log, failed_file)."""
    vfile = f"Properties/{prop}.v"
    st = {"ok": False, "theorems": [], "axioms": {}, "log": "", "failed": None}
    src_path = os.path.join(COQ, vfile)
    if not os.path.exists(src_path):
        st["log"] = "no property file"
        return st
    src = strip_comments(open(src_path).read())
    st["theorems"] = re.findall(r"^\s*Theorem\s+(\w+)", src, re.M)
    if not vo_ok(vfile):
        # find the first failing file in the make log
        log_txt = open(os.path.join(BUILD, "coq.log")).read() if os.path.exists(os.path.join(BUILD, "coq.log")) else ""
        m = re.search(r'File "\./([^"]+)", line (\d+).*?\n(Error:.*?)(?:\n\n|\nmake)', log_txt, re.S)
        st["failed"] = (m.group(1) + ":" + m.group(2) + ": " + m.group(3)[:300]) if m else vfile
        st["log"] = log_txt[-3000:]
        return st
    os.makedirs(os.path.join(BUILD, "tmpvo"), exist_ok=True)
    tmpo = os.path.join(BUILD, "tmpvo", f"{prop}.vo")
    rc, out = sh(["timeout", "900", "coqc", "-Q", COQ, "OxiVerif", "-o", tmpo, src_path], cwd=COQ)
    st["log"] = out
    if rc != 0:
        st["failed"] = vfile
        return st
    # Print Assumptions output: either "Closed under the global context" or "Axioms:\n name : type ..."
    blocks = re.split(r"(?=Closed under the global context|Axioms:)", out)
    n_closed = sum(1 for b in blocks if b.startswith("Closed under the global context"))
    axioms = []
    for b in blocks:
        if b.startswith("Axioms:"):
            axioms += re.findall(r"^([\w\.']+)\s*:", b[len("Axioms:"):], re.M)
    st["n_closed"] = n_closed
    st["axioms_list"] = sorted(set(axioms))
    n_print = len(re.findall(r"^\s*Print Assumptions", src, re.M))
    st["n_print"] = n_print
    bad_axioms = [a for a in st["axioms_list"] if a not in STD_AXIOMS_ALLOWED]
    st["ok"] = (not bad_axioms) and n_print >= len(st["theorems"]) and (n_closed + (1 if axioms else 0)) >= 1
    if bad_axioms:
        st["failed"] = "unexpected axioms: " + ", ".join(bad_axioms)
    return st


# --------------------------------------------------------------------------------------------- running
def _run_shard(exe, lines, timeout):
    p = subprocess.Popen([exe], stdin=subprocess.PIPE, stdout=subprocess.PIPE, stderr=subprocess.DEVNULL, text=True)
    return p


def _big_stack():
    """the extracted OCaml code is not tail recursive everywhere: give it a large stack"""
    import resource
    try:
        soft, hard = resource.getrlimit(resource.RLIMIT_STACK)
        want = resource.RLIM_INFINITY if hard == resource.RLIM_INFINITY else hard
        resource.setrlimit(resource.RLIMIT_STACK, (want, hard))
    except Exception:
        pass


def run_cases(exe, lines, shards=NPROC, timeout=None):
    """lines: list of '<id> <fn> …'; returns {id: result string}. Lines are sharded round-robin."""
    if not lines:
        return {}
    if timeout is None:
        # a batch that takes seconds on the unchanged tree must not wait 20 minutes per phase when the code under test hangs
        timeout = int(os.environ.get("VERIF_SHARD_TIMEOUT", "1200"))
    shards = max(1, min(shards, len(lines)))
    parts = [[] for _ in range(shards)]
    for i, l in enumerate(lines):
        parts[i % shards].append(l)
    procs = []
    for part in parts:
        p = subprocess.Popen([exe], stdin=subprocess.PIPE, stdout=subprocess.PIPE, stderr=subprocess.DEVNULL, text=True,
                             preexec_fn=_big_stack)
        procs.append((p, "\n".join(part) + "\n"))
    # feed via threads to avoid pipe deadlock
    import threading
    outs = [None] * len(procs)

    def work(i):
        p, inp = procs[i]
        try:
            o, _ = p.communicate(inp, timeout=timeout)
        except subprocess.TimeoutExpired:
            p.kill()
            o, _ = p.communicate()
        outs[i] = (o, p.returncode)

    ths = [threading.Thread(target=work, args=(i,)) for i in range(len(procs))]
    for t in ths:
        t.start()
    for t in ths:
        t.join()
    res = {}
    for i, (o, rc) in enumerate(outs):
        for line in (o or "").split("\n"):
            if not line:
                continue
            k, _, v = line.partition(" ")
            res[k] = v
        # a shard that died (abort / kill) leaves cases without result
        for l in parts[i]:
            k = l.split(" ", 1)[0]
            if k not in res:
                res[k] = f"died rc={rc}"
    return res


def canon(r):
    """Canonical form for diffing: panic messages are dropped (class only)."""
    if r is None:
        return "missing"
    if r.startswith("panic"):
        return "panic"
    return r


class Cases:
    def __init__(self):
        self.lines = []
        self.meta = {}
        self.n = 0

    def add(self, cmd, **meta):
        cid = f"c{self.n}"
        self.n += 1
        self.lines.append(f"{cid} {cmd}")
        self.meta[cid] = dict(meta, cmd=cmd)
        return cid


def diff_results(cases, a, b):
    """Returns list of (id, cmd, a, b) where canonical results differ."""
    out = []
    for cid, m in cases.meta.items():
        ra, rb = canon(a.get(cid)), canon(b.get(cid))
        if ra != rb:
            out.append((cid, m["cmd"], a.get(cid), b.get(cid)))
    return out


# --------------------------------------------------------------------------------------------- evidence
def write_evidence(prop, tier, seed, coverage, assumptions, wall_s, violations, level="proof"):
    os.makedirs(os.path.join(VERIF, "evidence"), exist_ok=True)
    ev = {
        "property_id": prop,
        "tier": tier,
        "seed": seed,
        "level": level,
        "coverage": coverage,
        "assumptions": assumptions,
        "wall_s": round(wall_s, 2),
        "violations": violations,
    }
    p = os.path.join(VERIF, "evidence", f"{prop}.json")
    with open(p + ".tmp", "w") as f:
        json.dump(ev, f, indent=1, sort_keys=True)
    os.replace(p + ".tmp", p)


def known_findings():
    p = os.path.join(VERIF, "known_findings.json")
    if not os.path.exists(p):
        return {"known": [], "fixed": []}
    return json.load(open(p))


_replay_cleared = set()


def write_replay(prop, name, payload):
    d = os.path.join(VERIF, "build", "replay", prop)
    if prop not in _replay_cleared and os.path.isdir(d):
        for fn in os.listdir(d):          # replay files of earlier runs are stale
            try:
                os.remove(os.path.join(d, fn))
            except OSError:
                pass
    _replay_cleared.add(prop)
    os.makedirs(d, exist_ok=True)
    p = os.path.join(d, name + ".json")
    with open(p, "w") as f:
        json.dump(payload, f, indent=1)
    return p


def short(s, n=160):
    s = str(s)
    return s if len(s) <= n else s[:n] + f"…(+{len(s) - n})"


def digest(s):
    return hashlib.sha1(s.encode()).hexdigest()[:16]

#!/usr/bin/env python3
"""Regenerates seeded/README.md from the meta.json files of all seeded mutants."""
import glob
import json
import os

rows = []
for m in sorted(glob.glob("/verif/seeded/C*/mutant*/meta.json")):
    d = json.load(open(m))
    a = d.get("agent", {})
    rows.append((d["property"], d["mutant"], ", ".join(a.get("files", [])), (a.get("summary") or "").replace("\n", " ")[:260],
                 (a.get("trigger") or "").replace("\n", " ")[:260], d.get("tests_on_patched_tree", {}), d.get("detected_by") or [],
                 {k: v.get("wall_s") for k, v in (d.get("checks") or {}).items()}))
out = ["# Seeded changes (sub-agent experiment)", "",
       "Each directory `seeded/<property>/mutant<k>/` holds `patch.diff` (a change to /repo that breaks the property while compiling and",
       "passing the 268 pinned tests), `demo/` (the sub-agent's own demonstration: fails with the patch, passes without), `meta.json`",
       "(what the change needs in order to manifest, the test-suite result on the patched tree, which of my checks fired) and",
       "`detection.json` (the raw check summary). Sub-agents saw only the property text and a scratch worktree, nothing of /verif.",
       "Rounds: 1 = C01-C06 (mutants 1-2), 2 = C07-C19 (mutants 1-2), 3 = all properties (mutants 3-4; agents were told what rounds 1-2",
       "had produced and asked for different code and triggers), 4 = all properties (mutants 5-6), 5 = all properties (mutants 7-8; prompts from",
       "tools/seed_prompts.py). `detected by` lists the checks (quick tier) that print a VIOLATION line",
       "with the patch applied, AFTER the strengthening recorded in DESIGN.md 11.6; a check listed after `+` in the notes is a",
       "neighbouring property's check that also (or instead) fires because the change lives in code that property owns.", "",
       "| property | # | files | change (abridged) | needs | tests on patched tree | detected by |", "|---|---|---|---|---|---|---|"]
n_det = 0
for p, k, files, summ, trig, tests, det, wall in rows:
    t = f"{tests.get('passed', '?')} pass / {tests.get('failed', '?')} fail" if tests.get("ran") else "not run"
    if det:
        n_det += 1
    out.append(f"| {p} | {k} | {files} | {summ} | {trig} | {t} | {', '.join(det) if det else '**not detected**'} |")
out += ["", f"{n_det} of {len(rows)} seeded changes are detected by the quick tier of at least one check."]
open("/verif/seeded/README.md", "w").write("\n".join(out) + "\n")
print(n_det, len(rows))

//! implrun: runs the real oxipng code (from /repo, feature `verif`) on cases given one per line on
//! stdin: `<id> <fn> <args…>`; prints `<id> <result>` per case. Panics are caught and reported.

use std::io::{BufRead, Write};
use std::panic::{catch_unwind, AssertUnwindSafe};

use oxipng::verif::*;
use oxipng::RawImage;
use oxiverif_harness::*;

fn opt_img(r: Option<PngImage>) -> String {
    match r {
        Some(i) => format!("some {}", fmt_img(&i)),
        None => "none".to_string(),
    }
}

fn run(t: &[&str]) -> String {
    match t[0] {
        // paeth_digest <a>: weighted sum over all (b, c)
        "paeth_digest" => {
            let a: u8 = t[1].parse().unwrap();
            let mut s: u64 = 0;
            for b in 0..=255u8 {
                for c in 0..=255u8 {
                    let p = paeth_predictor(a, b, c) as u64;
                    s += p * (((b as u64) * 256 + c as u64) % 251 + 1);
                }
            }
            format!("ok {s}")
        }
        "paeth" => {
            let p = paeth_predictor(t[1].parse().unwrap(), t[2].parse().unwrap(), t[3].parse().unwrap());
            format!("ok {p}")
        }
        // filter_line <f> <bpp> <alpha_bytes> <data> <prev>
        "filter_line" => {
            let (buf, data) = filter_line(
                filter_of(t[1].parse().unwrap()),
                t[2].parse().unwrap(),
                &unhex(t[4]),
                &unhex(t[5]),
                t[3].parse().unwrap(),
            );
            format!("ok {} {}", hex(&buf), hex(&data))
        }
        // unfilter_line <f> <bpp> <data> <prev>
        "unfilter_line" => {
            match unfilter_line(filter_of(t[1].parse().unwrap()), t[2].parse().unwrap(), &unhex(t[3]), &unhex(t[4])) {
                Ok(b) => format!("ok {}", hex(&b)),
                Err(e) => format!("err {}", err_kind(&e)),
            }
        }
        // filter_image <f> <alpha> <img>
        "filter_image" => {
            let img = parse_img(t[3]);
            let out = img.filter_image(filter_of(t[1].parse().unwrap()), t[2] == "1");
            format!("ok {}", hex(&out))
        }
        "unfilter_image" => {
            let img = parse_img(t[1]);
            match unfilter_image(&img) {
                Ok(b) => format!("ok {}", hex(&b)),
                Err(e) => format!("err {}", err_kind(&e)),
            }
        }
        // scan_lines <hasfilter> <img>  -> len:pass:npix,...
        "scan_lines" => {
            let img = parse_img(t[2]);
            let v: Vec<String> = img
                .scan_lines(t[1] == "1")
                .map(|l| {
                    format!(
                        "{}:{}:{}",
                        l.data.len() + if t[1] == "1" { 1 } else { 0 },
                        l.pass.map_or("-".to_string(), |p| p.to_string()),
                        l.num_pixels
                    )
                })
                .collect();
            format!("ok {}", if v.is_empty() { "-".to_string() } else { v.join(",") })
        }
        // raw_data_size <img-with-empty-data>
        "raw_data_size" => {
            let img = parse_img(t[1]);
            format!("ok {}", img.ihdr.raw_data_size())
        }
        "interlace" => format!("ok {}", fmt_img(&interlace_image(&parse_img(t[1])))),
        "deinterlace" => format!("ok {}", fmt_img(&deinterlace_image(&parse_img(t[1])))),
        // reduce <name> <img> [flag]
        "reduce" => {
            let img = parse_img(t[2]);
            let flag = t.get(3).map_or(false, |x| *x == "1");
            let flag2 = t.get(4).map_or(false, |x| *x == "1");
            match t[1] {
                "16to8" => opt_img(reduced_bit_depth_16_to_8(&img, flag)),
                "scale16" => opt_img(scaled_bit_depth_16_to_8(&img)),
                "8orless" => opt_img(reduced_bit_depth_8_or_less(&img)),
                "expand8" => opt_img(expanded_bit_depth_to_8(&img)),
                "rgb2gray" => opt_img(reduced_rgb_to_grayscale(&img)),
                "alpha" => opt_img(reduced_alpha_channel(&img, flag)),
                "cleanalpha" => opt_img(cleaned_alpha_channel(&img)),
                "toindexed" => opt_img(reduced_to_indexed(&img, flag)),
                "tochannels" => opt_img(indexed_to_channels(&img, flag, flag2)),
                "palette" => opt_img(reduced_palette(&img, flag)),
                "sortpal" => opt_img(sorted_palette(&img)),
                "battiato" => opt_img(sorted_palette_battiato(&img)),
                "mzeng" => opt_img(sorted_palette_mzeng(&img)),
                _ => panic!("unknown reduction"),
            }
        }
        // reductions <opts> <img>  -> baseline image
        "reductions" => {
            let o = parse_opts(t[1]);
            format!("ok {}", fmt_img(&perform_reductions(parse_img(t[2]), &o)))
        }
        // opt <opts> <filehex>
        "opt" => {
            let o = parse_opts(t[1]);
            match oxipng::optimize_from_memory(&unhex(t[2]), &o) {
                Ok(b) => format!("ok {}", hex(&b)),
                Err(e) => format!("err {}", err_kind(&e)),
            }
        }
        // raw <opts> <img> [chunkname:hex ...] [icc:hex]
        "raw" => {
            let o = parse_opts(t[1]);
            let img = parse_img(t[2]);
            match RawImage::new(img.ihdr.width, img.ihdr.height, img.ihdr.color_type.clone(), img.ihdr.bit_depth, img.data.clone()) {
                Err(e) => format!("err {}", err_kind(&e)),
                Ok(mut r) => {
                    for extra in &t[3..] {
                        let (n, d) = extra.split_once(':').unwrap();
                        if n == "icc" {
                            r.add_icc_profile(&unhex(d));
                        } else {
                            let nb = unhex(n);
                            r.add_png_chunk([nb[0], nb[1], nb[2], nb[3]], unhex(d));
                        }
                    }
                    match r.create_optimized_png(&o) {
                        Ok(b) => format!("ok {}", hex(&b)),
                        Err(e) => format!("err {}", err_kind(&e)),
                    }
                }
            }
        }
        "crc32" => format!("ok {}", crc32(&unhex(t[1]))),
        // deflate <zc|zopfli=N> <max|-> <hex>
        "deflate" => {
            let o = parse_opts(t[1]);
            let max = if t[2] == "-" { None } else { Some(t[2].parse().unwrap()) };
            match deflaters_deflate(o.deflate, &unhex(t[3]), max) {
                Ok(b) => format!("ok {}", hex(&b)),
                Err(e) => format!("err {}", err_kind(&e)),
            }
        }
        "inflate" => match inflate(&unhex(t[2]), t[1].parse().unwrap()) {
            Ok(b) => format!("ok {}", hex(&b)),
            Err(e) => format!("err {}", err_kind(&e)),
        },
        // keep <strip> <namehex>
        "keep" => {
            let o = parse_opts(&format!("strip={}", t[1]));
            let n = unhex(t[2]);
            format!("ok {}", strip_keep(&o.strip, &[n[0], n[1], n[2], n[3]]) as u8)
        }
        "is_c2pa" => {
            let n = unhex(t[1]);
            format!("ok {}", is_c2pa([n[0], n[1], n[2], n[3]], &unhex(t[2])) as u8)
        }
        "fully_optimized" => {
            let o = parse_opts(t[3]);
            format!("ok {}", is_fully_optimized(t[1].parse().unwrap(), t[2].parse().unwrap(), &o) as u8)
        }
        "preset" => format!("ok {}", fmt_opts(&Options::from_preset(t[1].parse().unwrap()))),
        "default_opts" => format!("ok {}", fmt_opts(&Options::default())),
        "srgb_intent" => match srgb_rendering_intent(&unhex(t[1])) {
            Some(i) => format!("ok {i}"),
            None => "none".to_string(),
        },
        _ => panic!("unknown command {}", t[0]),
    }
}

fn main() {
    std::panic::set_hook(Box::new(|_| {}));
    let stdin = std::io::stdin();
    let stdout = std::io::stdout();
    let mut out = std::io::BufWriter::new(stdout.lock());
    for line in stdin.lock().lines() {
        let line = line.unwrap();
        let toks: Vec<&str> = line.split_whitespace().collect();
        if toks.len() < 2 {
            continue;
        }
        let r = catch_unwind(AssertUnwindSafe(|| run(&toks[1..])));
        match r {
            Ok(s) => writeln!(out, "{} {}", toks[0], s).unwrap(),
            Err(p) => {
                let msg = p
                    .downcast_ref::<String>()
                    .cloned()
                    .or_else(|| p.downcast_ref::<&str>().map(|s| s.to_string()))
                    .unwrap_or_default();
                let msg: String = msg.chars().map(|c| if c.is_whitespace() { '_' } else { c }).collect();
                writeln!(out, "{} panic {}", toks[0], msg).unwrap()
            }
        }
    }
    out.flush().unwrap();
}

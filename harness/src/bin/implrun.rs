//! implrun: runs the real oxipng code (from /repo, feature `verif`) on cases given one per line on
//! stdin: `<id> <fn> <args…>`; prints `<id> <result>` per case. Panics are caught and reported.

use std::io::{BufRead, Write};
use std::panic::{catch_unwind, AssertUnwindSafe};
use std::sync::{Arc, Mutex};

use oxipng::verif::*;
use oxipng::RawImage;
use oxiverif_harness::*;

#[derive(Default)]
struct Log {
    deflates: Vec<(Deflaters, Vec<u8>)>,
    inflates: Vec<(Vec<u8>, usize)>,
    filtered: Vec<(String, bool, Vec<u8>, u8)>,
    candidates: Vec<(usize, usize, String)>,
    trials: Vec<(usize, usize, u8, Option<usize>)>,
    skipped: Vec<(usize, usize, u8)>,
    evaluators: Vec<(usize, String, String, bool)>,
    best_sizes: Vec<(usize, usize)>,
    deadline_calls: usize,
    /// answers given to consultations made on the calling thread (the reduction sites, in program order)
    main_answers: String,
}

struct RecTap {
    log: Mutex<Log>,
    /// the k-th and later consultations of the clock answer "passed"
    expire_at: Option<usize>,
    /// explicit answers per consultation (a clock observed from several threads: any subset of the frame / trial checks
    /// can be the ones that see it expired); consultations beyond the mask answer "not passed"
    expire_mask: Option<Vec<bool>>,
    /// forced schedule: (eval, nth, filter, is_publish) -> time slot; a trial sleeps until
    /// start + slot * SLOT before the corresponding shared-state access
    slots: Option<std::collections::HashMap<(usize, usize, u8, bool), u64>>,
    start: std::time::Instant,
    order: Mutex<Vec<(usize, usize, u8, bool)>>,
    main_thread: std::thread::ThreadId,
}

const SLOT: std::time::Duration = std::time::Duration::from_millis(4);

impl Tap for RecTap {
    fn candidate(&self, eval: usize, nth: usize, _d: &str, image: &PngImage) {
        self.log.lock().unwrap().candidates.push((eval, nth, fmt_img(image)));
    }
    fn trial(&self, eval: usize, nth: usize, filter: RowFilter, size: Option<usize>) {
        self.log.lock().unwrap().trials.push((eval, nth, filter as u8, size));
    }
    fn sched_point(&self, eval: usize, point: SchedPoint, nth: usize, filter: RowFilter) {
        let key = (eval, nth, filter as u8, point == SchedPoint::Publish);
        if let Some(slots) = &self.slots {
            if let Some(slot) = slots.get(&key) {
                let target = self.start + SLOT * (*slot as u32 + 1);
                let now = std::time::Instant::now();
                if target > now {
                    std::thread::sleep(target - now);
                }
            }
        }
        self.order.lock().unwrap().push(key);
    }
    fn skipped(&self, eval: usize, nth: usize, filter: RowFilter) {
        self.log.lock().unwrap().skipped.push((eval, nth, filter as u8));
    }
    fn deadline(&self) -> Option<bool> {
        let mut l = self.log.lock().unwrap();
        let n = l.deadline_calls;
        l.deadline_calls += 1;
        let ans = match &self.expire_mask {
            Some(m) => Some(m.get(n).copied().unwrap_or(false)),
            None => self.expire_at.map(|k| n >= k),
        };
        if std::thread::current().id() == self.main_thread {
            l.main_answers.push(if ans == Some(true) { '1' } else { '0' });
        }
        ans
    }
    fn deflate(&self, deflater: Deflaters, data: &[u8], _max: Option<usize>) {
        let mut l = self.log.lock().unwrap();
        if !l.deflates.iter().any(|(d, x)| *d == deflater && x == data) {
            l.deflates.push((deflater, data.to_vec()));
        }
    }
    fn inflate(&self, data: &[u8], out_size: usize) {
        let mut l = self.log.lock().unwrap();
        if !l.inflates.iter().any(|(x, n)| *n == out_size && x == data) {
            l.inflates.push((data.to_vec(), out_size));
        }
    }
    fn filtered(&self, image: &PngImage, filter: RowFilter, alpha: bool, filtered: &[u8]) {
        if filter == RowFilter::Brute {
            self.log.lock().unwrap().filtered.push((fmt_img(image), alpha, filtered.to_vec(), filter as u8));
        }
    }
    fn evaluator(&self, eval: usize, filters: &[RowFilter], deflater: Deflaters, final_round: bool) {
        let f: Vec<String> = filters.iter().map(|f| (*f as u8).to_string()).collect();
        self.log.lock().unwrap().evaluators.push((eval, f.join("+"), fmt_deflater(deflater), final_round));
    }
    fn best_size(&self, eval: usize, size: usize) {
        self.log.lock().unwrap().best_sizes.push((eval, size));
    }
}

fn fmt_deflater(d: Deflaters) -> String {
    match d {
        Deflaters::Libdeflater { compression } => format!("zc={compression}"),
        Deflaters::Zopfli { iterations } => format!("zopfli={iterations}"),
    }
}

/// row filter types of a filtered stream of `img`
fn row_types(img: &PngImage, filtered: &[u8]) -> String {
    let mut s = String::new();
    let mut off = 0;
    for l in img.scan_lines(false) {
        if off < filtered.len() {
            s.push((b'0' + filtered[off].min(9)) as char);
        }
        off += l.data.len() + 1;
    }
    s
}

/// run `f` with a recording tap installed; returns its result and the oracle records
fn with_log<T>(expire_at: Option<usize>, f: impl FnOnce() -> T) -> (T, String) {
    with_log_sched(expire_at, None, f)
}

thread_local! {
    static MASK: std::cell::RefCell<Option<Vec<bool>>> = std::cell::RefCell::new(None);
}

fn with_log_sched<T>(
    expire_at: Option<usize>,
    slots: Option<std::collections::HashMap<(usize, usize, u8, bool), u64>>,
    f: impl FnOnce() -> T,
) -> (T, String) {
    let tap = Arc::new(RecTap {
        log: Mutex::new(Log::default()),
        expire_at,
        expire_mask: MASK.with(|m| m.borrow_mut().take()),
        slots,
        start: std::time::Instant::now(),
        order: Mutex::new(Vec::new()),
        main_thread: std::thread::current().id(),
    });
    reset_eval_ids();
    set_tap(Some(tap.clone()));
    let r = catch_unwind(AssertUnwindSafe(f));
    set_tap(None);
    let log = std::mem::take(&mut *tap.log.lock().unwrap());
    let mut out = String::new();
    for (d, x) in &log.deflates {
        let y = deflaters_deflate(*d, x, None).map(|y| hex(&y)).unwrap_or_else(|_| "err".to_string());
        out.push_str(&format!(" | D {} {} {}", fmt_deflater(*d), hex(x), y));
    }
    for (x, n) in &log.inflates {
        let y = match inflate(x, *n) {
            Ok(y) => format!("ok:{}", hex(&y)),
            Err(e) => format!("err:{}", err_kind(&e)),
        };
        out.push_str(&format!(" | I {} {} {}", n, hex(x), y));
    }
    for (tok, alpha, filt, _) in &log.filtered {
        out.push_str(&format!(" | B {} {} {}", *alpha as u8, tok, row_types(&parse_img(tok), filt)));
    }
    for (e, f, d, fr) in &log.evaluators {
        out.push_str(&format!(" | E {} {} {} {}", e, if f.is_empty() { "-" } else { f }, d, *fr as u8));
    }
    for (e, s) in &log.best_sizes {
        out.push_str(&format!(" | S {} {}", e, s));
    }
    for (e, n, tok) in &log.candidates {
        out.push_str(&format!(" | C {} {} {}", e, n, tok));
    }
    let mut trials = log.trials.clone();
    trials.sort();
    for (e, n, f, sz) in &trials {
        out.push_str(&format!(" | T {} {} {} {}", e, n, f, sz.map_or("-".to_string(), |s| s.to_string())));
    }
    let mut sk = log.skipped.clone();
    sk.sort();
    for (e, n, f) in &sk {
        out.push_str(&format!(" | K {} {} {}", e, n, f));
    }
    out.push_str(&format!(" | N {}", log.deadline_calls));
    if !log.main_answers.is_empty() {
        out.push_str(&format!(" | M {}", log.main_answers));
    }
    let order = tap.order.lock().unwrap().clone();
    if !order.is_empty() {
        let v: Vec<String> = order
            .iter()
            .map(|(e, n, f, p)| format!("{}{}.{}.{}", if *p { "P" } else { "R" }, e, n, f))
            .collect();
        out.push_str(&format!(" | O {}", v.join(",")));
    }
    match r {
        Ok(v) => (v, out),
        Err(p) => std::panic::resume_unwind(p),
    }
}

fn opt_img(r: Option<PngImage>) -> String {
    match r {
        Some(i) => format!("some {}", fmt_img(&i)),
        None => "none".to_string(),
    }
}

fn run(t: &[&str]) -> String {
    match t[0] {
        // paeth_digest <a>: weighted sum over all (b, c)
        "paeth_digest" => {
            let a: u8 = t[1].parse().unwrap();
            let mut s: u64 = 0;
            for b in 0..=255u8 {
                for c in 0..=255u8 {
                    let p = paeth_predictor(a, b, c) as u64;
                    s += p * (((b as u64) * 256 + c as u64) % 251 + 1);
                }
            }
            format!("ok {s}")
        }
        "paeth" => {
            let p = paeth_predictor(t[1].parse().unwrap(), t[2].parse().unwrap(), t[3].parse().unwrap());
            format!("ok {p}")
        }
        // filter_line <f> <bpp> <alpha_bytes> <data> <prev>
        "filter_line" => {
            let (buf, data) = filter_line(
                filter_of(t[1].parse().unwrap()),
                t[2].parse().unwrap(),
                &unhex(t[4]),
                &unhex(t[5]),
                t[3].parse().unwrap(),
            );
            format!("ok {} {}", hex(&buf), hex(&data))
        }
        // unfilter_line <f> <bpp> <data> <prev>
        "unfilter_line" => {
            match unfilter_line(filter_of(t[1].parse().unwrap()), t[2].parse().unwrap(), &unhex(t[3]), &unhex(t[4])) {
                Ok(b) => format!("ok {}", hex(&b)),
                Err(e) => format!("err {}", err_kind(&e)),
            }
        }
        // filter_image <f> <alpha> <img>
        "filter_image" => {
            let img = parse_img(t[3]);
            let out = img.filter_image(filter_of(t[1].parse().unwrap()), t[2] == "1");
            format!("ok {}", hex(&out))
        }
        "unfilter_image" => {
            let img = parse_img(t[1]);
            match unfilter_image(&img) {
                Ok(b) => format!("ok {}", hex(&b)),
                Err(e) => format!("err {}", err_kind(&e)),
            }
        }
        // scan_lines <hasfilter> <img>  -> len:pass:npix,...
        "scan_lines" => {
            let img = parse_img(t[2]);
            let v: Vec<String> = img
                .scan_lines(t[1] == "1")
                .map(|l| {
                    format!(
                        "{}:{}:{}",
                        l.data.len() + if t[1] == "1" { 1 } else { 0 },
                        l.pass.map_or("-".to_string(), |p| p.to_string()),
                        l.num_pixels
                    )
                })
                .collect();
            format!("ok {}", if v.is_empty() { "-".to_string() } else { v.join(",") })
        }
        // raw_data_size <img-with-empty-data>
        "raw_data_size" => {
            let img = parse_img(t[1]);
            format!("ok {}", img.ihdr.raw_data_size())
        }
        "interlace" => format!("ok {}", fmt_img(&interlace_image(&parse_img(t[1])))),
        "deinterlace" => format!("ok {}", fmt_img(&deinterlace_image(&parse_img(t[1])))),
        // chil <0|1> <img>: PngImage::change_interlacing (the entry point the reductions use)
        "chil" => {
            let target = if t[1] == "1" { oxipng::Interlacing::Adam7 } else { oxipng::Interlacing::None };
            match parse_img(t[2]).change_interlacing(target) {
                Some(i) => format!("ok {}", fmt_img(&i)),
                None => "none".to_string(),
            }
        }
        // reduce <name> <img> [flag]
        "reduce" => {
            let img = parse_img(t[2]);
            let flag = t.get(3).map_or(false, |x| *x == "1");
            let flag2 = t.get(4).map_or(false, |x| *x == "1");
            match t[1] {
                "16to8" => opt_img(reduced_bit_depth_16_to_8(&img, flag)),
                "scale16" => opt_img(scaled_bit_depth_16_to_8(&img)),
                "8orless" => opt_img(reduced_bit_depth_8_or_less(&img)),
                "expand8" => opt_img(expanded_bit_depth_to_8(&img)),
                "rgb2gray" => opt_img(reduced_rgb_to_grayscale(&img)),
                "alpha" => opt_img(reduced_alpha_channel(&img, flag)),
                "cleanalpha" => opt_img(cleaned_alpha_channel(&img)),
                "toindexed" => opt_img(reduced_to_indexed(&img, flag)),
                "tochannels" => opt_img(indexed_to_channels(&img, flag, flag2)),
                "palette" => opt_img(reduced_palette(&img, flag)),
                "sortpal" => opt_img(sorted_palette(&img)),
                "battiato" => opt_img(sorted_palette_battiato(&img)),
                "mzeng" => opt_img(sorted_palette_mzeng(&img)),
                _ => panic!("unknown reduction"),
            }
        }
        // reductions <opts> <img>  -> baseline image
        "reductions" => {
            let o = parse_opts(t[1]);
            format!("ok {}", fmt_img(&perform_reductions(parse_img(t[2]), &o)))
        }
        // opt <opts> <filehex>
        "opt" => {
            let o = parse_opts(t[1]);
            match oxipng::optimize_from_memory(&unhex(t[2]), &o) {
                Ok(b) => format!("ok {}", hex(&b)),
                Err(e) => format!("err {}", err_kind(&e)),
            }
        }
        // optlog <opts> <expire|-> <filehex>: optimize_from_memory with oracle records
        "optlog" => {
            let o = parse_opts(t[1]);
            // "-" no clock override, "<k>" expiry first seen at the k-th consultation, "m<bits>" explicit answers
            let exp = if t[2] == "-" {
                None
            } else if let Some(bits) = t[2].strip_prefix('m') {
                MASK.with(|m| *m.borrow_mut() = Some(bits.chars().map(|c| c == '1').collect()));
                None
            } else {
                Some(t[2].parse().unwrap())
            };
            let data = unhex(t[3]);
            let (r, rec) = with_log(exp, || oxipng::optimize_from_memory(&data, &o));
            match r {
                Ok(b) => format!("ok {}{}", hex(&b), rec),
                Err(e) => format!("err {}{}", err_kind(&e), rec),
            }
        }
        // optthreads <n> <opts> <hex>: optimize_from_memory inside a pool of n threads
        #[cfg(feature = "parallel")]
        "optthreads" => {
            let n: usize = t[1].parse().unwrap();
            let o = parse_opts(t[2]);
            let data = unhex(t[3]);
            let pool = rayon::ThreadPoolBuilder::new().num_threads(n).build().unwrap();
            match pool.install(|| oxipng::optimize_from_memory(&data, &o)) {
                Ok(b) => format!("ok {}", hex(&b)),
                Err(e) => format!("err {}", err_kind(&e)),
            }
        }
        // optnested <n> <copies> <opts> <hex>: a parallel iterator over copies inside a pool of n threads
        #[cfg(feature = "parallel")]
        "optnested" => {
            use rayon::prelude::*;
            let n: usize = t[1].parse().unwrap();
            let copies: usize = t[2].parse().unwrap();
            let o = parse_opts(t[3]);
            let data = unhex(t[4]);
            let pool = rayon::ThreadPoolBuilder::new().num_threads(n).build().unwrap();
            let rs: Vec<String> = pool.install(|| {
                (0..copies)
                    .into_par_iter()
                    .map(|_| match oxipng::optimize_from_memory(&data, &o) {
                        Ok(b) => format!("ok {}", hex(&b)),
                        Err(e) => format!("err {}", err_kind(&e)),
                    })
                    .collect()
            });
            if rs.iter().all(|r| *r == rs[0]) {
                rs[0].clone()
            } else {
                format!("differ {}", rs.join(" / "))
            }
        }
        // evalrun <threads> <deflater-opts> <alpha> <final> <init|-> <filters a+b> <slots|-> <img>...
        // slots: R<nth>.<f>=<slot>,P<nth>.<f>=<slot>,...
        #[cfg(feature = "parallel")]
        "evalrun" => {
            let n: usize = t[1].parse().unwrap();
            let o = parse_opts(t[2]);
            let alpha = t[3] == "1";
            let fin = t[4] == "1";
            let init = if t[5] == "-" { None } else { Some(t[5].parse().unwrap()) };
            let filters: Vec<RowFilter> = t[6].split('+').map(|f| filter_of(f.parse().unwrap())).collect();
            let slots = if t[7] == "-" {
                None
            } else {
                let mut m = std::collections::HashMap::new();
                for kv in t[7].split(',') {
                    let (k, v) = kv.split_once('=').unwrap();
                    let publish = k.starts_with('P');
                    let (nth, f) = k[1..].split_once('.').unwrap();
                    m.insert((0usize, nth.parse().unwrap(), f.parse().unwrap(), publish), v.parse().unwrap());
                }
                Some(m)
            };
            let images: Vec<PngImage> = t[8..].iter().map(|x| parse_img(x)).collect();
            let pool = rayon::ThreadPoolBuilder::new().num_threads(n).build().unwrap();
            let (r, rec) = with_log_sched(None, slots, || {
                pool.install(|| run_evaluator(images, filters, o.deflate, alpha, fin, init))
            });
            match r {
                Some(c) => format!("some {} {} {} {}{}", c.nth, c.filter as u8, c.estimated_output_size, hex(&c.data), rec),
                None => format!("none{}", rec),
            }
        }
        // optraw <opts> <max|-> <img>: optimize_raw with records
        "optraw" => {
            let o = parse_opts(t[1]);
            let max = if t[2] == "-" { None } else { Some(t[2].parse().unwrap()) };
            let img = parse_img(t[3]);
            // optional 5th token: "<k>" expiry first seen at the k-th clock consultation, "m<bits>" explicit answers
            let exp = match t.get(4) {
                None => None,
                Some(x) if *x == "-" => None,
                Some(x) => {
                    if let Some(bits) = x.strip_prefix('m') {
                        MASK.with(|m| *m.borrow_mut() = Some(bits.chars().map(|c| c == '1').collect()));
                        None
                    } else {
                        Some(x.parse().unwrap())
                    }
                }
            };
            let (r, rec) = with_log(exp, || optimize_raw(img, &o, max));
            match r {
                Some(c) => format!("some {} {} {} {}{}", c.filter as u8, c.estimated_output_size, fmt_img(&c.image), hex(&c.idat), rec),
                None => format!("none{}", rec),
            }
        }
        // rawlog <opts> <img> [chunkname:hex ...] [icc:hex]: RawImage API with oracle records
        "rawlog" => {
            let o = parse_opts(t[1]);
            let img = parse_img(t[2]);
            let extras: Vec<String> = t[3..].iter().map(|x| x.to_string()).collect();
            let (r, rec) = with_log(None, || {
                match RawImage::new(img.ihdr.width, img.ihdr.height, img.ihdr.color_type.clone(), img.ihdr.bit_depth, img.data.clone()) {
                    Err(e) => format!("err {}", err_kind(&e)),
                    Ok(mut r) => {
                        for extra in &extras {
                            let (n, d) = extra.split_once(':').unwrap();
                            if n == "icc" {
                                r.add_icc_profile(&unhex(d));
                            } else {
                                let nb = unhex(n);
                                r.add_png_chunk([nb[0], nb[1], nb[2], nb[3]], unhex(d));
                            }
                        }
                        match r.create_optimized_png(&o) {
                            Ok(b) => format!("ok {}", hex(&b)),
                            Err(e) => format!("err {}", err_kind(&e)),
                        }
                    }
                }
            });
            format!("{}{}", r, rec)
        }
        // raw <opts> <img> [chunkname:hex ...] [icc:hex]
        "raw" => {
            let o = parse_opts(t[1]);
            let img = parse_img(t[2]);
            match RawImage::new(img.ihdr.width, img.ihdr.height, img.ihdr.color_type.clone(), img.ihdr.bit_depth, img.data.clone()) {
                Err(e) => format!("err {}", err_kind(&e)),
                Ok(mut r) => {
                    for extra in &t[3..] {
                        let (n, d) = extra.split_once(':').unwrap();
                        if n == "icc" {
                            r.add_icc_profile(&unhex(d));
                        } else {
                            let nb = unhex(n);
                            r.add_png_chunk([nb[0], nb[1], nb[2], nb[3]], unhex(d));
                        }
                    }
                    match r.create_optimized_png(&o) {
                        Ok(b) => format!("ok {}", hex(&b)),
                        Err(e) => format!("err {}", err_kind(&e)),
                    }
                }
            }
        }
        // all 65536 values through scaled_bit_depth_16_to_8 (gray 16, 256x256)
        "scale8_all" => {
            let mut data = Vec::with_capacity(131072);
            for v in 0..=65535u16 {
                data.extend_from_slice(&v.to_be_bytes());
            }
            let img = PngImage {
                ihdr: IhdrData {
                    width: 256,
                    height: 256,
                    color_type: ColorType::Grayscale { transparent_shade: None },
                    bit_depth: BitDepth::Sixteen,
                    interlaced: Interlacing::None,
                },
                data,
            };
            format!("ok {}", hex(&scaled_bit_depth_16_to_8(&img).unwrap().data))
        }
        "crc32" => format!("ok {}", crc32(&unhex(t[1]))),
        // deflate <zc|zopfli=N> <max|-> <hex>
        "deflate" => {
            let o = parse_opts(t[1]);
            let max = if t[2] == "-" { None } else { Some(t[2].parse().unwrap()) };
            match deflaters_deflate(o.deflate, &unhex(t[3]), max) {
                Ok(b) => format!("ok {}", hex(&b)),
                Err(e) => format!("err {}", err_kind(&e)),
            }
        }
        "inflate" => match inflate(&unhex(t[2]), t[1].parse().unwrap()) {
            Ok(b) => format!("ok {}", hex(&b)),
            Err(e) => format!("err {}", err_kind(&e)),
        },
        // keep <strip> <namehex>
        "keep" => {
            let o = parse_opts(&format!("strip={}", t[1]));
            let n = unhex(t[2]);
            format!("ok {}", strip_keep(&o.strip, &[n[0], n[1], n[2], n[3]]) as u8)
        }
        "is_c2pa" => {
            let n = unhex(t[1]);
            format!("ok {}", is_c2pa([n[0], n[1], n[2], n[3]], &unhex(t[2])) as u8)
        }
        "fully_optimized" => {
            let o = parse_opts(t[3]);
            format!("ok {}", is_fully_optimized(t[1].parse().unwrap(), t[2].parse().unwrap(), &o) as u8)
        }
        "preset" => format!("ok {}", fmt_opts(&Options::from_preset(t[1].parse().unwrap()))),
        "default_opts" => format!("ok {}", fmt_opts(&Options::default())),
        "srgb_intent" => match srgb_rendering_intent(&unhex(t[1])) {
            Some(i) => format!("ok {i}"),
            None => "none".to_string(),
        },
        _ => panic!("unknown command {}", t[0]),
    }
}

fn main() {
    std::panic::set_hook(Box::new(|_| {}));
    let stdin = std::io::stdin();
    let stdout = std::io::stdout();
    let mut out = std::io::BufWriter::new(stdout.lock());
    for line in stdin.lock().lines() {
        let line = line.unwrap();
        let toks: Vec<&str> = line.split_whitespace().collect();
        if toks.len() < 2 {
            continue;
        }
        let r = catch_unwind(AssertUnwindSafe(|| run(&toks[1..])));
        match r {
            Ok(s) => writeln!(out, "{} {}", toks[0], s).unwrap(),
            Err(p) => {
                let msg = p
                    .downcast_ref::<String>()
                    .cloned()
                    .or_else(|| p.downcast_ref::<&str>().map(|s| s.to_string()))
                    .unwrap_or_default();
                let msg: String = msg.chars().map(|c| if c.is_whitespace() { '_' } else { c }).collect();
                writeln!(out, "{} panic {}", toks[0], msg).unwrap()
            }
        }
    }
    out.flush().unwrap();
}

//! poolrun: one thread-pool configuration per process (C16).
//!   poolrun <site> <threads> <conc> <rounds> <perturb-seed> <opts> <file-with-png-hex-lines>
//! site:  plain   - global pool of <threads>; <conc> std threads call the library at once
//!        worker  - own pool of <threads>; <conc> calls are spawned inside the pool (scope), each from a worker
//!        nested  - own pool of <threads>; a parallel iterator over <conc> inputs calls the library in its body
//!        install - own pool of <threads>; pool.install(|| library call), <conc> times from a plain thread
//! Every round processes <conc> inputs; afterwards the same pool must still execute ordinary work
//! and one more call. Output: `ok calls=<n> errs=<n> pool_ok=<0|1>` followed by ` ; e<id> F=<filters> : <events>`
//! for every evaluator, events in the order the hooks were reached:
//!   S<nth>  submit        D  sender dropped      X  every task started      Z  channel drained
//!   B<nth>[c|o]  task begins (on the collector's thread / on another)       E<nth>  task ends
//!   T<nth>[+|-]  trial of task nth finished (candidate sent / nothing sent)

#[cfg(feature = "parallel")]
mod imp {
    use std::collections::BTreeMap;
    use std::sync::atomic::{AtomicU64, Ordering::Relaxed};
    use std::sync::{Arc, Mutex};
    use std::thread::ThreadId;

    use oxipng::verif::*;
    use oxiverif_harness::*;
    use rayon::prelude::*;

    struct Ev {
        eval: usize,
        what: String,
        thread: ThreadId,
    }

    struct PTap {
        log: Mutex<Vec<Ev>>,
        filters: Mutex<BTreeMap<usize, usize>>,
        seed: u64,
        counter: AtomicU64,
    }

    impl PTap {
        fn perturb(&self) {
            if self.seed == 0 {
                return;
            }
            let n = self.counter.fetch_add(1, Relaxed);
            let mut x = self.seed ^ n.wrapping_mul(0x9E37_79B9_7F4A_7C15);
            x ^= x >> 29;
            x = x.wrapping_mul(0xBF58_476D_1CE4_E5B9);
            x ^= x >> 32;
            match x % 16 {
                0 => std::thread::sleep(std::time::Duration::from_micros(300 + (x >> 8) % 1500)),
                1 | 2 => std::thread::yield_now(),
                3 => {
                    for _ in 0..((x >> 8) % 2000) {
                        std::hint::spin_loop();
                    }
                }
                _ => {}
            }
        }
        fn push(&self, eval: usize, what: String) {
            self.log.lock().unwrap().push(Ev { eval, what, thread: std::thread::current().id() });
        }
    }

    impl Tap for PTap {
        fn evaluator(&self, eval: usize, filters: &[RowFilter], _d: Deflaters, _f: bool) {
            self.filters.lock().unwrap().insert(eval, filters.len());
        }
        fn proto(&self, eval: usize, ev: ProtoEvent) {
            self.perturb();
            let what = match ev {
                ProtoEvent::Submit(n) => format!("S{n}"),
                ProtoEvent::TaskStart(n) => format!("B{n}"),
                ProtoEvent::TaskEnd(n) => format!("E{n}"),
                ProtoEvent::DropSender => "D".to_string(),
                ProtoEvent::SpinExit => "X".to_string(),
                ProtoEvent::Done => "Z".to_string(),
            };
            self.push(eval, what);
            self.perturb();
        }
        fn trial(&self, eval: usize, nth: usize, _f: RowFilter, size: Option<usize>) {
            self.push(eval, format!("T{nth}{}", if size.is_some() { '+' } else { '-' }));
            self.perturb();
        }
        fn skipped(&self, eval: usize, nth: usize, _f: RowFilter) {
            self.push(eval, format!("T{nth}-"));
        }
    }

    /// `poolrun atomicmin <threads> <rounds> <calls-per-thread> <seed>`: the shared bound of the evaluator under contention.
    /// Every round: a fresh AtomicMin, all threads released together, each makes <calls> set_min calls with pseudo-random values.
    /// Checked against the sequential specification (Model/Evaluate.v: fetch_min): the final value is the minimum of all values
    /// offered (and the initial one); a call that offered a value below everything else offered in its round returned true;
    /// a call that returned true offered a value that was strictly below the initial value; at most one call per distinct value
    /// returned true. Output `ok rounds=<n>` or `bad <what>`; a call that never returns is caught by the caller's watchdog.
    fn atomicmin_main(a: &[String]) {
        let threads: usize = a[2].parse().unwrap();
        let rounds: usize = a[3].parse().unwrap();
        let calls: usize = a[4].parse().unwrap();
        let seed: u64 = a[5].parse().unwrap();
        for r in 0..rounds {
            let init = if r % 3 == 0 { None } else { Some(1000 + (r * 7919) % 5000) };
            let am = AtomicMin::new(init);
            let barrier = std::sync::Barrier::new(threads);
            let results: Vec<Vec<(usize, bool)>> = std::thread::scope(|s| {
                let hs: Vec<_> = (0..threads)
                    .map(|t| {
                        let am = &am;
                        let barrier = &barrier;
                        s.spawn(move || {
                            let mut x = seed ^ ((r as u64) << 20) ^ ((t as u64) << 8) ^ 0x9E37_79B9_7F4A_7C15;
                            let mut out = Vec::with_capacity(calls);
                            barrier.wait();
                            for k in 0..calls {
                                x ^= x << 13;
                                x ^= x >> 7;
                                x ^= x << 17;
                                // mostly decreasing offers so that many calls improve on the bound at the same time
                                let v = (6000usize.saturating_sub(k * (6000 / calls.max(1)))) + (x % 97) as usize;
                                out.push((v, am.set_min(v)));
                            }
                            out
                        })
                    })
                    .collect();
                hs.into_iter().map(|h| h.join().unwrap()).collect()
            });
            let all: Vec<(usize, bool)> = results.into_iter().flatten().collect();
            let offered_min = all.iter().map(|p| p.0).min().unwrap();
            let expect = init.map_or(offered_min, |i| i.min(offered_min));
            if am.get() != Some(expect) {
                println!("bad final value {:?}, expected {} (round {})", am.get(), expect, r);
                return;
            }
            let mut trues: Vec<usize> = all.iter().filter(|p| p.1).map(|p| p.0).collect();
            trues.sort_unstable();
            if trues.windows(2).any(|w| w[0] == w[1]) {
                println!("bad two calls offering the same value both returned true (round {})", r);
                return;
            }
            if let Some(i) = init {
                if trues.iter().any(|&v| v >= i) {
                    println!("bad a call offering a value not below the initial bound returned true (round {})", r);
                    return;
                }
            }
            let below_init = init.map_or(true, |i| offered_min < i);
            if below_init && !trues.contains(&offered_min) {
                println!("bad the call that offered the overall minimum {} returned false (round {})", offered_min, r);
                return;
            }
        }
        println!("ok rounds={rounds}");
    }

    pub fn main() {
        let a: Vec<String> = std::env::args().collect();
        if a[1] == "atomicmin" {
            return atomicmin_main(&a);
        }
        let site = a[1].as_str();
        let threads: usize = a[2].parse().unwrap();
        let conc: usize = a[3].parse().unwrap();
        let rounds: usize = a[4].parse().unwrap();
        let seed: u64 = a[5].parse().unwrap();
        let opts = parse_opts(&a[6]);
        let inputs: Vec<Vec<u8>> = std::fs::read_to_string(&a[7]).unwrap().lines().filter(|l| !l.is_empty()).map(unhex).collect();
        let tap = Arc::new(PTap { log: Mutex::new(Vec::new()), filters: Mutex::new(BTreeMap::new()), seed, counter: AtomicU64::new(0) });
        set_tap(Some(tap.clone()));
        let calls = std::sync::atomic::AtomicUsize::new(0);
        let errs = std::sync::atomic::AtomicUsize::new(0);
        let one = |i: usize| {
            let data = &inputs[i % inputs.len()];
            calls.fetch_add(1, Relaxed);
            if oxipng::optimize_from_memory(data, &opts).is_err() {
                errs.fetch_add(1, Relaxed);
            }
        };
        let pool_ok;
        if site == "plain" {
            rayon::ThreadPoolBuilder::new().num_threads(threads).build_global().unwrap();
            for _ in 0..rounds {
                std::thread::scope(|s| {
                    for i in 0..conc {
                        let one = &one;
                        s.spawn(move || one(i));
                    }
                });
            }
            let s: usize = (0..1000usize).into_par_iter().sum();
            one(0);
            pool_ok = s == 499_500;
        } else {
            let pool = rayon::ThreadPoolBuilder::new().num_threads(threads).build().unwrap();
            for _ in 0..rounds {
                match site {
                    "worker" => pool.scope(|s| {
                        for i in 0..conc {
                            let one = &one;
                            s.spawn(move |_| one(i));
                        }
                    }),
                    "nested" => pool.install(|| (0..conc).into_par_iter().for_each(|i| one(i))),
                    "install" => {
                        for i in 0..conc {
                            pool.install(|| one(i));
                        }
                    }
                    _ => panic!("bad site"),
                }
            }
            let s: usize = pool.install(|| (0..1000usize).into_par_iter().sum());
            pool.install(|| one(0));
            pool_ok = s == 499_500;
        }
        set_tap(None);
        let log = tap.log.lock().unwrap();
        let filters = tap.filters.lock().unwrap();
        let mut per: BTreeMap<usize, (Option<ThreadId>, Vec<String>)> = BTreeMap::new();
        for ev in log.iter() {
            let e = per.entry(ev.eval).or_insert((None, Vec::new()));
            // the collector's thread is the one that creates / submits / collects
            let is_caller_event = matches!(ev.what.as_bytes()[0], b'S' | b'D' | b'X' | b'Z');
            if is_caller_event && e.0.is_none() {
                e.0 = Some(ev.thread);
            }
            if ev.what.starts_with('B') {
                let on_caller = e.0 == Some(ev.thread);
                e.1.push(format!("{}{}", ev.what, if on_caller { 'c' } else { 'o' }));
            } else {
                e.1.push(ev.what.clone());
            }
        }
        let mut out = format!("ok calls={} errs={} pool_ok={}", calls.load(Relaxed), errs.load(Relaxed), pool_ok as u8);
        for (id, (_, evs)) in per.iter() {
            out.push_str(&format!(" ; e{} F={} : {}", id, filters.get(id).copied().unwrap_or(0), evs.join(",")));
        }
        println!("{out}");
    }
}

#[cfg(feature = "parallel")]
fn main() {
    imp::main()
}

#[cfg(not(feature = "parallel"))]
fn main() {
    println!("harness-error poolrun needs the parallel feature");
}

//! fuzzrun: isolated worker for the robustness check (C05). One case per line on stdin:
//!   <id> mem <opts> <hex>     optimize_from_memory
//!   <id> raw <opts> <w> <h> <ct> <depth> <extra> <datahex>   RawImage::new + create_optimized_png
//! Output: `<id> <ok N|err kind|panic msg> maxreq=<largest single allocation request> peak=<peak live bytes>`.
//! The process may die (abort, OOM under RLIMIT_AS); the driver restarts after the offending case.

use std::alloc::{GlobalAlloc, Layout, System};
use std::io::{BufRead, Write};
use std::panic::{catch_unwind, AssertUnwindSafe};
use std::sync::atomic::{AtomicUsize, Ordering::Relaxed};

use oxipng::verif::*;
use oxipng::{RawImage, RGB16, RGBA8};
use oxiverif_harness::*;

struct Counting;
static LIVE: AtomicUsize = AtomicUsize::new(0);
static PEAK: AtomicUsize = AtomicUsize::new(0);
static MAXREQ: AtomicUsize = AtomicUsize::new(0);

unsafe impl GlobalAlloc for Counting {
    unsafe fn alloc(&self, l: Layout) -> *mut u8 {
        MAXREQ.fetch_max(l.size(), Relaxed);
        let p = System.alloc(l);
        if !p.is_null() {
            let live = LIVE.fetch_add(l.size(), Relaxed) + l.size();
            PEAK.fetch_max(live, Relaxed);
        }
        p
    }
    unsafe fn alloc_zeroed(&self, l: Layout) -> *mut u8 {
        MAXREQ.fetch_max(l.size(), Relaxed);
        let p = System.alloc_zeroed(l);
        if !p.is_null() {
            let live = LIVE.fetch_add(l.size(), Relaxed) + l.size();
            PEAK.fetch_max(live, Relaxed);
        }
        p
    }
    unsafe fn dealloc(&self, p: *mut u8, l: Layout) {
        LIVE.fetch_sub(l.size(), Relaxed);
        System.dealloc(p, l)
    }
    unsafe fn realloc(&self, p: *mut u8, l: Layout, new: usize) -> *mut u8 {
        MAXREQ.fetch_max(new, Relaxed);
        let q = System.realloc(p, l, new);
        if !q.is_null() {
            if new >= l.size() {
                let live = LIVE.fetch_add(new - l.size(), Relaxed) + (new - l.size());
                PEAK.fetch_max(live, Relaxed);
            } else {
                LIVE.fetch_sub(l.size() - new, Relaxed);
            }
        }
        q
    }
}

#[global_allocator]
static A: Counting = Counting;

fn run(t: &[&str]) -> String {
    match t[0] {
        "mem" => {
            let o = parse_opts(t[1]);
            match oxipng::optimize_from_memory(&unhex(t[2]), &o) {
                Ok(b) => format!("ok {}", b.len()),
                Err(e) => format!("err {}", err_kind(&e)),
            }
        }
        "raw" => {
            let o = parse_opts(t[1]);
            let w: u32 = t[2].parse().unwrap();
            let h: u32 = t[3].parse().unwrap();
            let ct: u8 = t[4].parse().unwrap();
            let depth = depth_of(t[5].parse().unwrap());
            let extra = t[6];
            let color = match ct {
                0 => ColorType::Grayscale { transparent_shade: if extra == "-" { None } else { Some(extra.parse().unwrap()) } },
                2 => ColorType::RGB {
                    transparent_color: if extra == "-" { None } else {
                        let v: Vec<u16> = extra.split(',').map(|x| x.parse().unwrap()).collect();
                        Some(RGB16::new(v[0], v[1], v[2]))
                    },
                },
                3 => {
                    let b = unhex(extra);
                    ColorType::Indexed { palette: b.chunks_exact(4).map(|c| RGBA8::new(c[0], c[1], c[2], c[3])).collect() }
                }
                4 => ColorType::GrayscaleAlpha,
                _ => ColorType::RGBA,
            };
            match RawImage::new(w, h, color, depth, unhex(t[7])) {
                Err(e) => format!("err {}", err_kind(&e)),
                Ok(r) => match r.create_optimized_png(&o) {
                    Ok(b) => format!("ok {}", b.len()),
                    Err(e) => format!("err {}", err_kind(&e)),
                },
            }
        }
        _ => panic!("unknown command"),
    }
}

fn main() {
    std::panic::set_hook(Box::new(|_| {}));
    let stdin = std::io::stdin();
    let stdout = std::io::stdout();
    for line in stdin.lock().lines() {
        let line = line.unwrap();
        let toks: Vec<&str> = line.split_whitespace().collect();
        if toks.len() < 2 {
            continue;
        }
        let base = LIVE.load(Relaxed);
        MAXREQ.store(0, Relaxed);
        PEAK.store(base, Relaxed);
        let r = catch_unwind(AssertUnwindSafe(|| run(&toks[1..])));
        let maxreq = MAXREQ.load(Relaxed);
        let peak = PEAK.load(Relaxed).saturating_sub(base);
        let s = match r {
            Ok(s) => s,
            Err(p) => {
                let msg = p.downcast_ref::<String>().cloned().or_else(|| p.downcast_ref::<&str>().map(|s| s.to_string())).unwrap_or_default();
                let msg: String = msg.chars().map(|c| if c.is_whitespace() { '_' } else { c }).collect();
                format!("panic {msg}")
            }
        };
        let mut out = stdout.lock();
        writeln!(out, "{} {} maxreq={} peak={}", toks[0], s, maxreq, peak).unwrap();
        out.flush().unwrap();
    }
}

//! Shared helpers for the harness binaries: line protocol encoding/decoding of images and options.

use std::num::NonZeroU8;
use std::time::Duration;

use oxipng::verif::*;
use oxipng::{indexset, IndexSet, RGB16, RGBA8};

pub fn hex(b: &[u8]) -> String {
    if b.is_empty() {
        return "-".to_string();
    }
    let mut s = String::with_capacity(b.len() * 2);
    for x in b {
        s.push_str(&format!("{x:02x}"));
    }
    s
}

pub fn unhex(s: &str) -> Vec<u8> {
    if s == "-" {
        return Vec::new();
    }
    (0..s.len() / 2)
        .map(|i| u8::from_str_radix(&s[2 * i..2 * i + 2], 16).unwrap())
        .collect()
}

pub fn depth_of(d: u8) -> BitDepth {
    match d {
        1 => BitDepth::One,
        2 => BitDepth::Two,
        4 => BitDepth::Four,
        8 => BitDepth::Eight,
        16 => BitDepth::Sixteen,
        _ => panic!("bad depth token"),
    }
}

/// img:<w>:<h>:<ct>:<depth>:<il>:<extra>:<datahex>
pub fn parse_img(tok: &str) -> PngImage {
    let p: Vec<&str> = tok.split(':').collect();
    assert_eq!(p[0], "img");
    let width: u32 = p[1].parse().unwrap();
    let height: u32 = p[2].parse().unwrap();
    let ct: u8 = p[3].parse().unwrap();
    let depth: u8 = p[4].parse().unwrap();
    let il: u8 = p[5].parse().unwrap();
    let extra = p[6];
    let color_type = match ct {
        0 => ColorType::Grayscale {
            transparent_shade: if extra == "-" { None } else { Some(extra.parse().unwrap()) },
        },
        2 => ColorType::RGB {
            transparent_color: if extra == "-" {
                None
            } else {
                let v: Vec<u16> = extra.split(',').map(|x| x.parse().unwrap()).collect();
                Some(RGB16::new(v[0], v[1], v[2]))
            },
        },
        3 => {
            let b = unhex(extra);
            ColorType::Indexed {
                palette: b.chunks_exact(4).map(|c| RGBA8::new(c[0], c[1], c[2], c[3])).collect(),
            }
        }
        4 => ColorType::GrayscaleAlpha,
        6 => ColorType::RGBA,
        _ => panic!("bad ct token"),
    };
    PngImage {
        ihdr: IhdrData {
            width,
            height,
            color_type,
            bit_depth: depth_of(depth),
            interlaced: if il == 1 { Interlacing::Adam7 } else { Interlacing::None },
        },
        data: unhex(p[7]),
    }
}

pub fn fmt_img(img: &PngImage) -> String {
    let (ct, extra) = match &img.ihdr.color_type {
        ColorType::Grayscale { transparent_shade } => {
            (0, transparent_shade.map_or("-".to_string(), |t| t.to_string()))
        }
        ColorType::RGB { transparent_color } => (
            2,
            transparent_color.map_or("-".to_string(), |t| format!("{},{},{}", t.r, t.g, t.b)),
        ),
        ColorType::Indexed { palette } => {
            let mut b = Vec::new();
            for c in palette {
                b.extend_from_slice(&[c.r, c.g, c.b, c.a]);
            }
            (3, hex(&b))
        }
        ColorType::GrayscaleAlpha => (4, "-".to_string()),
        ColorType::RGBA => (6, "-".to_string()),
    };
    format!(
        "img:{}:{}:{}:{}:{}:{}:{}",
        img.ihdr.width,
        img.ihdr.height,
        ct,
        img.ihdr.bit_depth as u8,
        img.ihdr.interlaced as u8,
        extra,
        hex(&img.data)
    )
}

pub fn filter_of(n: u8) -> RowFilter {
    RowFilter::try_from(n).unwrap()
}

fn chunk_names(s: &str) -> IndexSet<[u8; 4]> {
    let mut set = IndexSet::new();
    if s.is_empty() {
        return set;
    }
    for n in s.split('+') {
        let b = unhex(n);
        set.insert([b[0], b[1], b[2], b[3]]);
    }
    set
}

/// k=v,k=v,... (all keys optional; defaults = Options::default())
pub fn parse_opts(tok: &str) -> Options {
    let mut o = Options::default();
    if tok == "-" {
        return o;
    }
    for kv in tok.split(',') {
        if kv == "-" || kv.is_empty() {
            continue;
        }
        let (k, v) = kv.split_once('=').unwrap();
        match k {
            "preset" => o = Options::from_preset(v.parse().unwrap()),
            "fix" => o.fix_errors = v == "1",
            "force" => o.force = v == "1",
            "filters" => {
                o.filter = indexset! {};
                if !v.is_empty() {
                    for f in v.split('+') {
                        o.filter.insert(filter_of(f.parse().unwrap()));
                    }
                }
            }
            "interlace" => {
                o.interlace = match v {
                    "keep" => None,
                    "0" => Some(Interlacing::None),
                    _ => Some(Interlacing::Adam7),
                }
            }
            "alpha" => o.optimize_alpha = v == "1",
            "bd" => o.bit_depth_reduction = v == "1",
            "ct" => o.color_type_reduction = v == "1",
            "pal" => o.palette_reduction = v == "1",
            "gray" => o.grayscale_reduction = v == "1",
            "recode" => o.idat_recoding = v == "1",
            "scale16" => o.scale_16 = v == "1",
            "strip" => {
                o.strip = if v == "none" {
                    StripChunks::None
                } else if v == "safe" {
                    StripChunks::Safe
                } else if v == "all" {
                    StripChunks::All
                } else if let Some(l) = v.strip_prefix("strip:") {
                    StripChunks::Strip(chunk_names(l))
                } else if let Some(l) = v.strip_prefix("keep:") {
                    StripChunks::Keep(chunk_names(l))
                } else {
                    panic!("bad strip")
                }
            }
            "zc" => o.deflate = Deflaters::Libdeflater { compression: v.parse().unwrap() },
            "zopfli" => {
                o.deflate = Deflaters::Zopfli { iterations: NonZeroU8::new(v.parse().unwrap()).unwrap() }
            }
            "fast" => o.fast_evaluation = v == "1",
            "timeout" => o.timeout = if v == "-" { None } else { Some(Duration::from_secs(v.parse().unwrap())) },
            _ => panic!("bad option key {k}"),
        }
    }
    o
}

pub fn fmt_opts(o: &Options) -> String {
    let filters: Vec<String> = o.filter.iter().map(|f| (*f as u8).to_string()).collect();
    let names = |s: &IndexSet<[u8; 4]>| s.iter().map(|n| hex(n)).collect::<Vec<_>>().join("+");
    let strip = match &o.strip {
        StripChunks::None => "none".to_string(),
        StripChunks::Safe => "safe".to_string(),
        StripChunks::All => "all".to_string(),
        StripChunks::Strip(s) => format!("strip:{}", names(s)),
        StripChunks::Keep(s) => format!("keep:{}", names(s)),
    };
    let defl = match o.deflate {
        Deflaters::Libdeflater { compression } => format!("zc={compression}"),
        Deflaters::Zopfli { iterations } => format!("zopfli={iterations}"),
    };
    format!(
        "fix={},force={},filters={},interlace={},alpha={},bd={},ct={},pal={},gray={},recode={},scale16={},strip={},{},fast={},timeout={}",
        o.fix_errors as u8,
        o.force as u8,
        filters.join("+"),
        match o.interlace { None => "keep", Some(Interlacing::None) => "0", Some(Interlacing::Adam7) => "1" },
        o.optimize_alpha as u8,
        o.bit_depth_reduction as u8,
        o.color_type_reduction as u8,
        o.palette_reduction as u8,
        o.grayscale_reduction as u8,
        o.idat_recoding as u8,
        o.scale_16 as u8,
        strip,
        defl,
        o.fast_evaluation as u8,
        o.timeout.map_or("-".to_string(), |t| t.as_secs().to_string()),
    )
}

pub fn err_kind(e: &PngError) -> &'static str {
    match e {
        PngError::DeflatedDataTooLong(_) => "toolong",
        PngError::TimedOut => "timedout",
        PngError::NotPNG => "notpng",
        PngError::APNGNotSupported => "apngunsupported",
        PngError::APNGOutOfOrder => "apngorder",
        PngError::InvalidData => "invaliddata",
        PngError::TruncatedData => "truncated",
        PngError::ChunkMissing(_) => "chunkmissing",
        PngError::InvalidDepthForType(..) => "depthtype",
        PngError::IncorrectDataLength(..) => "datalen",
        PngError::C2PAMetadataPreventsChanges => "c2pa",
        PngError::Other(_) => "other",
        _ => "other",
    }
}
